#!/bin/bash
# Build the overlay interpreter used by every check (offline, from the wheelhouse).
# /verif/.venv = python3.12 venv + z3-solver + cvc5 + jsonschema, with a .pth that
# makes /venv's site-packages (bert-e's own dependencies) importable.
set -e
cd "$(dirname "$0")"
if [ ! -x .venv/bin/python ] || ! .venv/bin/python -c "import z3, cvc5, jsonschema, flask" 2>/dev/null; then
  rm -rf .venv
  /venv/bin/python -m venv .venv
  PIP_NO_INDEX=1 .venv/bin/pip install -q --no-index --find-links /opt/veriftools/wheels z3-solver cvc5 jsonschema
  echo "import site; site.addsitedir('/venv/lib/python3.12/site-packages')" \
      > .venv/lib/python3.12/site-packages/_repo_deps.pth
fi
.venv/bin/python -W ignore -c "import z3, cvc5, jsonschema, flask; print('venv ok: z3', z3.get_version_string(), 'cvc5', cvc5.__version__)"
