"""C08 - Bert-E never rewrites or deletes what it does not own.

Deductive kernel (over the ghost git model): the guard of git.Branch.remove, the
remove methods of integration branches, every handler that deletes or pushes
(handle_declined_pull_request, merge_integration_branches, merge_queues,
QueueCollection.delete, and the admin jobs through the C20 contracts); facts over
the sources (where force=True and forced pushes can occur).  The interference of
third parties with `git push --all --prune` is a KNOWN FINDING (see
known_findings.json), replayed natively on every run.
"""
import ast
import inspect
import os

from pyvc import smt
from pyvc.env import Contract
from pyvc.interp import TargetExc
from pyvc.values import *  # noqa
from specs import gitmodel, handlers
from specs.gitmodel import emit, mutated, owned_term, name_of, cls_of, br
from specs.handlers import setup_common, inv_deleted_owned, havoc_local
from specs.intrinsics import implies, iff
from bert_e import exceptions as X
from bert_e.lib import git as GIT
from bert_e.workflow import git_utils as GU
from bert_e.workflow.gitwaterflow import branches as B, integration as INT_, queueing as Q

PROPERTY = 'C08'
import bert_e.workflow.gitwaterflow as GWF  # noqa: E402


# deleting a destination branch on request is allowed, losing its commits is not: the admin job may only remove the
# branch after the archive tag of its tip has been created and pushed (contract of C20 on the real delete_branch)
REUSED_CONTRACTS = (('c20', ('bert_e.jobs.delete_branch:delete_branch',)),)


def base_env():
    env = handlers.base_env(PROPERTY)
    env.add_class('QEntry', kind='ref', fields={'qbranch': 'Br', 'qints': 'seq[Br]'},
                  items={B.QueueBranch: 'qbranch', B.QueueIntegrationBranch: 'qints'})
    env.add_class('QueuesMap', fields={})
    env.add_class('QCObj', pyclass=B.QueueCollection, fields={'_queues': 'QueuesMap'})

    @env.model('QueuesMap', 'values', trusted='the queues of the collection, one entry per version')
    def q_values(I, self):
        return I.ghost['entries']

    @env.model('QEntry', 'get', trusted='dict.get on a queue entry')
    def qe_get(I, self, key, default=None):
        return I.get_item(self, key)

    def merge_model(name):
        def model(I, dst, src1, src2):
            if I.choose(None, 'merge conflict'):
                raise TargetExc(I.make_exception(GIT.MergeFailedException, [], {}))
            emit(I, 'merge', dst, (src1, src2))
        return model
    env.fn_models[GU.robust_merge] = merge_model('robust')
    env.fn_models[GU.consecutive_merge] = merge_model('consecutive')
    env.trusted.append('robust_merge / consecutive_merge: merge into the local destination ref only (their own '
                       'contract: C01)')
    # invariants: everything deleted locally so far is owned
    loops = {
        'bert_e.workflow.gitwaterflow:handle_declined_pull_request': [(0, True), (1, False)],
        'bert_e.workflow.gitwaterflow.integration:merge_integration_branches': [(0, False), (1, True)],
        'bert_e.workflow.gitwaterflow.queueing:merge_queues': [(0, True), (1, True)],
        'bert_e.workflow.gitwaterflow.branches:QueueCollection.delete': [(0, False)],
    }
    for fn, ls in loops.items():
        for ordn, deletes in ls:
            if deletes:
                env.loop(fn, ordn, inv_deleted_owned, havoc=[havoc_local], top_level=True)
            else:
                env.loop(fn, ordn, None)
    return env


# ---------------------------------------------------------------- Branch.remove guard
def rm_setup(I, args):
    setup_common(I, args)
    args['self'] = br(I, I.fresh('branch_name', 'str'))
    I.ghost['callee_level'] = True      # which names may be removed is the CALLERS' obligation


def is_owned(name):
    return name.startswith('w/') or name.startswith('q/') or name.startswith('tmp/')


def ens_remove_guard(self, del_local, force, do_push, out, G):
    # a foreign branch is never deleted unless forced: refusal before any git command
    return implies(not is_owned(self.name) and not force,
                   out.raised(GIT.ForbiddenOperation) and len(G.trace) == 0)


def ens_remove_effects(self, del_local, force, do_push, out, G):
    # what it does touch is this branch only
    return all(e[0] in ('delete_local', 'push_delete') and e[1] == self.name for e in G.trace)


def ens_ib_remove(self, do_push, out, G):
    return all(e[0] in ('delete_local', 'push_delete') and e[1] == self.name for e in G.trace)


def ens_ghost_remove(self, do_push, out, G):
    return out.returned and len(G.trace) == 0


# ---------------------------------------------------------------- handlers
def declined_setup(I, args):
    setup_common(I, args)


def merge_ib_setup(I, args):
    setup_common(I, args)
    wb = I.seq_value(args['wbranches'])
    i = smt.fresh_bound('i', smt.INT)
    # callee postcondition of create_integration_branches (C19): every integration branch but the
    # first (the source branch itself) is named w/<version>/<source>
    I.assume(smt.ForAll([i], smt.Implies(smt.And(smt.Le(smt.IntC(1), i), smt.Lt(i, smt.SeqLen(wb.t))),
                                         smt.StrPrefixOf(smt.StrC('w/'), smt.SeqNth(wb.t, i)))))
    I.assume(smt.Ge(smt.SeqLen(wb.t), smt.IntC(1)))


def mq_setup(I, args):
    setup_common(I, args)
    entries = I.fresh('queue_entries', 'fseq[QEntry]')
    I.ghost['entries'] = entries
    args['queues'] = I.alloc_obj(None, 'QueuesMap', {})
    # QueueCollection only holds q/ and q/w/ branches (its _add_branch refuses anything else; names: C18)
    e, j = smt.fresh_bound('e', smt.INT), smt.fresh_bound('j', smt.INT)
    qints = smt.App('QEntry.qints', [smt.SeqNth(entries.t, e)], smt.SeqS(smt.STR))
    I.assume(smt.ForAll([e, j], smt.Implies(
        smt.And(smt.Le(smt.IntC(0), e), smt.Lt(e, smt.SeqLen(entries.t)), smt.Le(smt.IntC(0), j),
                smt.Lt(j, smt.SeqLen(qints))),
        smt.StrPrefixOf(smt.StrC('q/w/'), smt.SeqNth(qints, j)))))
    I.assume(smt.ForAll([e], smt.Implies(
        smt.And(smt.Le(smt.IntC(0), e), smt.Lt(e, smt.SeqLen(entries.t))),
        smt.StrPrefixOf(smt.StrC('q/'), smt.App('QEntry.qbranch', [smt.SeqNth(entries.t, e)], smt.STR)))))


def qcd_setup(I, args):
    mq_setup(I, args)
    I.set_attr(args['self'], '_queues', args.pop('queues'))


def ens_no_foreign_effect(job, out, G):
    return True


def ens_trace_ok(out, G):
    return True


def contracts(env):
    cs = [
        Contract('bert_e.lib.git:Branch.remove',
                 args={'self': 'Br', 'del_local': 'bool', 'force': 'bool', 'do_push': 'bool'}, setup=rm_setup,
                 ensures=[('foreign_branch_refused_before_any_command_unless_forced', ens_remove_guard),
                          ('touches_only_this_branch', ens_remove_effects)],
                 covers=['return', 'raise:ForbiddenOperation']),
        Contract('bert_e.workflow.gitwaterflow.branches:IntegrationBranch.remove',
                 args={'self': 'Br', 'do_push': 'bool'}, setup=rm_setup,
                 ensures=[('touches_only_this_branch', ens_ib_remove)], covers=['return']),
        Contract('bert_e.workflow.gitwaterflow.branches:GhostIntegrationBranch.remove',
                 args={'self': 'Br', 'do_push': 'bool'}, setup=rm_setup,
                 ensures=[('the_source_branch_is_never_deleted', ens_ghost_remove)], covers=['return']),
        Contract('bert_e.workflow.gitwaterflow:handle_declined_pull_request', args={'job': 'HJob'},
                 setup=declined_setup, ensures=[('events_checked', ens_no_foreign_effect)],
                 covers=['raise:PullRequestDeclined', 'raise:NothingToDo']),
        Contract('bert_e.workflow.gitwaterflow.integration:merge_integration_branches',
                 args={'job': 'HJob', 'wbranches': 'seq[Br]'}, setup=merge_ib_setup,
                 ensures=[('events_checked', lambda_true2)], covers=['return']),
        Contract('bert_e.workflow.gitwaterflow.queueing:merge_queues', args={'queues': 'opaque'}, setup=mq_setup,
                 ensures=[('events_checked', lambda_true1)], covers=['return']),
        Contract('bert_e.workflow.gitwaterflow.branches:QueueCollection.delete', args={'self': 'QCObj', 'queues': 'opaque'},
                 setup=qcd_setup, ensures=[('events_checked', lambda_true_self)], covers=['return']),
    ]
    from specs import pushcmds
    cs = cs + pushcmds.contracts(env)
    return cs


def lambda_true2(job, wbranches, out, G):
    return True


def lambda_true1(queues, out, G):
    return True


def lambda_true_self(self, out, G):
    return True


# ---------------------------------------------------------------- facts, C20 jobs, known finding
def iter_sources():
    root = '/repo/bert_e'
    for dp, dn, fn in os.walk(root):
        if '/tests' in dp or dp.endswith('/tests'):
            continue
        for f in fn:
            if f.endswith('.py'):
                yield os.path.join(dp, f)


def extra(rep, tier, seed, budget):
    from pyvc import cli as _cli
    from specs import c10 as _c10
    _e10 = _c10.base_env()
    for _c in _c10.contracts(_e10):
        if _c.label.endswith('BertE.process'):
            _c.label = _c.label + ' [C08 every job works on a fresh clone]'
            _cli.handle_function(rep, _c10, _e10, _c, budget, _cli.load_lock().get('C08', {}))
    from specs import shared_facts as _sf
    _w = _c10.native_repository_reset()
    _sf.add_facts(rep, [('Repository.reset: new working directory and empty remote-branch caches', _w['ok'], _w)], 'Repository.reset')
    from bounded import integrate as _integ
    _integ.system_histories(rep, tier, seed, ['C08_foreign_refs'])
    from pyvc import cli
    from pyvc.cli import write_replay
    facts = []
    forced, push_literals = [], []
    for path in iter_sources():
        tree = ast.parse(open(path).read())
        for node in ast.walk(tree):
            if isinstance(node, ast.Call):
                kws = {k.arg: k.value for k in node.keywords if k.arg}
                fname = node.func.attr if isinstance(node.func, ast.Attribute) else getattr(node.func, 'id', '')
                if fname in ('remove', 'do_delete') and 'force' in kws and not (
                        isinstance(kws['force'], ast.Constant) and kws['force'].value is False):
                    forced.append((os.path.relpath(path, '/repo'), node.lineno, fname, ast.unparse(kws['force'])))
            if isinstance(node, ast.Constant) and isinstance(node.value, str) and 'git push' in node.value:
                push_literals.append((os.path.relpath(path, '/repo'), node.lineno, node.value))
    allowed = {('bert_e/jobs/delete_branch.py', 'do_delete', 'True'), ('bert_e/jobs/delete_branch.py', 'remove', 'force')}
    facts.append(('force is only used by the delete-branch job (do_delete(del_branch, force=True))',
                  all((p, f, v) in allowed for p, _, f, v in forced), forced))
    bad_push = [x for x in push_literals if '--force' in x[2] or ' -f' in x[2] or ' +' in x[2]
                or '--mirror' in x[2]]
    facts.append(('no git push command line is forced (--force, -f, +refspec, --mirror)', not bad_push,
                  push_literals))
    for what, ok, data in facts:
        rep.obligations += 1
        if ok:
            rep.discharged += 1
            rep.by_backend.setdefault('python-fact', {'count': 0, 'seconds': 0.0})['count'] += 1
        else:
            k = 'fact:%s' % what
            path = write_replay(rep.pid, k, {'fact': what, 'data': data})
            rep.violations.append({'key': k, 'what': what, 'replay': path, 'input': data, 'noinput': False})
    rep.facts.append({'fact': 'force / forced push call sites', 'checked': len(facts), 'data': [f[2] for f in facts]})
    # the admin jobs: same ownership obligations, through the C20 contracts
    from specs import c20
    env20 = c20.base_env()
    lock = cli.load_lock().get('C08', {})
    for c in c20.contracts(env20):
        if any(k in c.label for k in ('delete_queues', 'rebuild_queues', 'delete_branch')):
            c.label = c.label + ' [C08 ownership]'
            cli.handle_function(rep, c20, env20, c, budget, lock)
    rep.trusted.extend(env20.trusted)
    # assumption of the git model, checked natively (bounded): the real Repository.clone() mirrors the remote,
    # so that `push --all --prune` never re-creates or moves a branch Bert-E did not touch
    from bounded import clone_mirror
    clone_mirror.integrate(rep)
    # known finding: a branch created by a third party after the clone is pruned
    try:
        w = replay_prune_third_party()
    except NotImplementedError as e:
        # the in-memory git only understands the command lines Bert-E is known to issue: a push command outside
        # that set (forced, mirrored, ...) is reported, not crashed on
        if 'push' in str(e):
            key = 'native:unmodelled_push_command'
            path = write_replay(rep.pid, key, {'command': str(e)})
            rep.violations.append({'key': key, 'what': 'Bert-E issued a push command line outside the known set: %s' % e,
                                   'replay': path, 'input': str(e), 'noinput': False})
            return
        raise
    rep.bounded.append({'name': 'prune_third_party_branch (native, FakeRepo)', 'cases': 1, 'distinct_nontrivial': 1,
                        'result': w})
    if not w['ok']:
        key = 'native:push_all_prune:third_party_branch_created_after_clone'
        path = write_replay(rep.pid, key, w)
        rep.violations.append({'key': key, 'what': 'git push --all --prune deletes a branch created by a third '
                               'party after the clone', 'replay': path, 'input': w.get('scenario'), 'noinput': False})


def replay_prune_third_party():
    """real delete_queues job handler on the in-memory git: somebody pushes a new branch between the
    clone and the pruning push."""
    import sys
    sys.path.insert(0, os.path.join(os.path.dirname(os.path.dirname(os.path.abspath(__file__)))))
    from types import SimpleNamespace
    from unittest import mock
    from harness.fakerepo import FakeRepo
    from bert_e.jobs import delete_queues as DQ
    from bert_e.lib.settings_dict import SettingsDict
    repo = FakeRepo()
    c0 = repo.commit('development/4.3', where='remote')
    repo.create_branch('q/4.3', 'development/4.3', where='remote')
    repo.create_branch('q/w/1/4.3/bugfix/x', 'development/4.3', where='remote')
    job = SimpleNamespace(settings=SettingsDict({}, {'use_queue': True, 'robot': 'robot', 'robot_email': 'r@x'}),
                          git=SimpleNamespace(repo=repo))
    real_clone = repo.clone

    def clone_then_third_party():
        real_clone()
        repo.create_branch('feature/third-party', 'development/4.3', where='remote')   # after the clone
    before = None
    with mock.patch.object(repo, 'clone', clone_then_third_party):
        try:
            DQ.delete_queues(job)
        except X.JobSuccess:
            pass
    after = sorted(repo.remote) if hasattr(repo, 'remote') else None
    ok = after is not None and 'feature/third-party' in after
    return {'ok': ok, 'scenario': 'remote: development/4.3, q/4.3, q/w/1/4.3/bugfix/x; third party pushes '
            'feature/third-party right after the clone; delete-queues job', 'remote_heads_after': after}


def replay_file(data):
    from bounded import integrate as _integ
    if isinstance(data.get('case'), dict) and ('events' in data['case'] or 'fault' in data['case']):
        return _integ.replay(data)
    if data.get('clause') == 'clone_mirror':
        from bounded import clone_mirror
        return clone_mirror.replay(data['case'])
    if 'scenario' in data:
        return replay_prune_third_party()
    return None


META = {
    'level': 'other',
    'explanation': 'Ownership contracts over the ghost git model: Branch.remove refuses foreign names before any '
                   'command unless forced; every local deletion and every named/deleting push of the handlers and '
                   'admin jobs concerns w/, q/ or tmp/ names only (the delete-branch job excepted, after its archive '
                   'tag); pruning pushes propagate only such deletions; force and forced pushes occur nowhere else '
                   '(source facts). The third-party interference with --prune is a known finding.',
    'assumptions': [
        'git primitives follow specs/gitmodel.py; merges only move the local destination ref forward (C01)',
        'QueueCollection holds only q/ and q/w/ branches; integration branches but the first are w/<v>/<src> (C19)',
        'interference is limited to the stated rely (a third party creates or pushes branches); concurrent servers '
        'are out of scope',
    ],
    'trusted_base': [],
}
