"""Contracts on the two functions that turn a push into a git command line (real code):
lib.git.Repository.push_all and Repository.push.  Shared by C02 (atomic publication) and C08 (no forced
or mirrored push)."""
from pyvc import smt
from pyvc.env import Contract
from pyvc.interp import TargetExc
from pyvc.values import *  # noqa
from bert_e.lib import git as GIT
from bert_e.lib import simplecmd as SC

PA = 'bert_e.lib.git:Repository.push_all'
PN = 'bert_e.lib.git:Repository.push'


def install(env):
    env.add_class('RealRepo', pyclass=GIT.Repository, fields={})

    @env.model('RealRepo', 'cmd', trusted='Repository.cmd: runs the command line (recorded); may fail with CommandError')
    def cmd(I, self, command, *args, **kw):
        I.ghost['cmds'] = I.ghost.get('cmds', ()) + (command,)
        if I.choose(None, 'command fails'):
            raise TargetExc(I.make_exception(SC.CommandError, ['failed'], {}))
        return ''


def setup(I, args):
    I.ghost['cmds'] = ()
    I.ghost.setdefault('trace', ())


def ens_push_all(self, prune, out, G):
    # exactly one command: all branches, atomic, never forced / mirrored; pruning iff asked
    want = 'git push --all --atomic --prune' if prune else 'git push --all --atomic '
    return (len(G.cmds) == 1 and G.cmds[0] == want
            and (out.returned or out.raised(GIT.PushFailedException)))


def ens_push(self, name, out, G):
    return (len(G.cmds) == 1 and G.cmds[0] == 'git push --set-upstream origin ' + name
            and (out.returned or out.raised(GIT.PushFailedException)))


def contracts(env):
    install(env)
    cs = []
    for p in (True, False):
        def st(I, args, p=p):
            setup(I, args)
            args['prune'] = p
        cs.append(Contract(PA, args={'self': 'RealRepo', 'prune': 'bool'}, setup=st, label=PA + '[prune=%s]' % p,
                           ensures=[('one_atomic_unforced_push_of_all_branches', ens_push_all)],
                           covers=['return', 'raise:PushFailedException']))
    cs.append(Contract(PN, args={'self': 'RealRepo', 'name': 'str'}, setup=setup,
                       ensures=[('one_plain_push_of_the_named_branches', ens_push)],
                       covers=['return', 'raise:PushFailedException']))
    return cs
