"""The composition step: gitwaterflow._handle_pull_request under contract, every callee by its
contract (gates: return or refuse with a message; effectful handlers: the effects their own
contracts allow).  One symbolic execution carries obligations of several properties; each is
emitted only when its tag equals env.prop (the specs of C02 C04 C06 C08 C09 C11 C12 run this
contract from their extra()).

  [C04 C06 C09 C11 C12] a pull request is queued or merged only after every gate returned normally:
        early_checks, check_dependencies, cascade.validate, check_branch_compatibility, jira_checks,
        check_approvals, check_build_status - and the build gate saw the integration branches that
        are then queued / merged;
  [C12] nothing is cloned (no repository work) before early_checks, handle_comments and
        check_dependencies returned;
  [C08 C02] the named pushes of the handler only write w/ names (never the source branch): event
        obligations of specs/handlers.py; the destination branches are only written by the final
        call of add_to_queue / merge_integration_branches (their own contracts: C02).
"""
from pyvc import smt
from pyvc.env import Contract
from pyvc.interp import TargetExc
from pyvc.values import *  # noqa
from specs import gitmodel, handlers
from specs.gitmodel import emit, br
from specs.handlers import setup_common, tagged, havoc_local
from bert_e import exceptions as X
from bert_e.lib import git as GIT
from bert_e.workflow import git_utils as GU
from bert_e.workflow.gitwaterflow import branches as B, integration as INT_, queueing as Q
import bert_e.workflow.gitwaterflow as GWF

HPR = 'bert_e.workflow.gitwaterflow:_handle_pull_request'
STR, BOOL, INT = smt.STR, smt.BOOL, smt.INT
# gate -> property that owns it
GATES = {
    'early_checks': 'C12', 'check_dependencies': 'C12', 'cascade.validate': 'C09',
    'check_branch_compatibility': 'C09', 'jira_checks': 'C11', 'check_approvals': 'C04',
    'check_build_status': 'C06',
}
PROPS = set(GATES.values()) | {'C02', 'C08', 'C19'}
BEFORE_CLONE = ('early_checks', 'handle_comments', 'check_dependencies')


def passed(I, name):
    return any(e[0] == 'gate' and e[1] == name for e in I.ghost['trace'])


def gate(name, with_branches=False):
    def model(I, job, *a):
        if I.choose(None, name + ' refuses'):
            raise TargetExc(I.make_exception(X.BertE_Exception, [name], {}))
        emit(I, 'gate', name, a[0] if (with_branches and a) else None)
    return model


def final_step(I, what, wbranches):
    for g, prop in GATES.items():
        tagged(I, prop, '%s returned before the pull request is %s' % (g, what), 'site',
               smt.BoolC(passed(I, g)), what)
    # the build gate looked at the very integration branches that are queued / merged
    seen = [e[2] for e in I.ghost['trace'] if e[0] == 'gate' and e[1] == 'check_build_status']
    # the gate ran AFTER the integration branches were brought up to date and pushed: it judged the commits that
    # are queued / merged, not the ones before the update
    kinds = [e[0] if e[0] != 'gate' else 'gate:' + e[1] for e in I.ghost['trace']]
    last_gate = max([i for i, k in enumerate(kinds) if k == 'gate:check_build_status'], default=-1)
    last_update = max([i for i, k in enumerate(kinds) if k in ('update_integration_branches', 'push')], default=-1)
    tagged(I, 'C06', 'the build gate ran after the integration branches were updated and pushed', 'site',
           smt.BoolC(last_gate > last_update >= 0), what)
    # (compared by value: passing a copy of the list is fine)
    tagged(I, 'C06', 'the build gate examined the integration branches that are %s' % what, 'site',
           I.eq(seen[-1], wbranches) if seen else smt.FALSE, what)


def base_env(prop):
    env = handlers.base_env(prop)
    env.classes['HSettings']['fields'].update({'interactive': 'bool'})
    env.classes['ChildPR']['fields'].update({'newly_created': 'bool'})
    env.ref_attr_hooks[('Br', 'jira_issue_key')] = lambda I, r: SStr(smt.App('Br.jira_issue_key', [r.t], STR))
    for name in ('early_checks', 'send_greetings', 'handle_comments', 'check_dependencies', 'check_commit_diff',
                 'check_branch_compatibility', 'jira_checks', 'check_integration_branches',
                 'check_approvals', 'notify_integration_data'):
        env.fn_models[getattr(GWF, name)] = gate(name)
    env.fn_models[GWF.check_pull_request_skew] = gate('check_pull_request_skew')
    env.fn_models[GWF.check_build_status] = gate('check_build_status', with_branches=True)
    env.model('Casc', 'validate', trusted='BranchCascade.validate: returns or raises (its contract: C01)')(
        lambda I, self: gate('cascade.validate')(I, None))

    base_clone = env.fn_models[GU.clone_git_repo]

    def clone(I, job):
        for g in BEFORE_CLONE:
            tagged(I, 'C12', '%s returned before the repository is cloned' % g, 'site', smt.BoolC(passed(I, g)), 'clone')
        return base_clone(I, job)
    env.fn_models[GU.clone_git_repo] = clone
    env.fn_models[GWF.clone_git_repo] = clone if hasattr(GWF, 'clone_git_repo') else clone

    def declined(I, job):
        emit(I, 'handle_declined_pull_request')
        cls = X.PullRequestDeclined if I.choose(None, 'declined: something to clean') else X.NothingToDo
        raise TargetExc(I.make_exception(cls, [], {}))
    env.fn_models[GWF.handle_declined_pull_request] = declined

    def cib(I, job):
        # contract of create_integration_branches (C19): the source branch, then w/<version>/<source> branches
        w = I.fresh('integration_branches', 'fseq[Br]', is_input=True)
        src = I.get_attr(I.get_attr(job, 'git'), 'src_branch')
        i = smt.fresh_bound('i', INT)
        I.assume(smt.Ge(smt.SeqLen(w.t), smt.IntC(1)))
        I.assume(smt.Eq(smt.SeqNth(w.t, smt.IntC(0)), src.t))
        I.assume(smt.ForAll([i], smt.Implies(smt.And(smt.Le(smt.IntC(1), i), smt.Lt(i, smt.SeqLen(w.t))),
                                             smt.StrPrefixOf(smt.StrC('w/'), smt.SeqNth(w.t, i)))))
        return w
    env.fn_models[GWF.create_integration_branches] = cib
    env.fn_models[Q.already_in_queue] = lambda I, job, wb: SBool(I.fresh_term('already_in_queue', BOOL, True))
    from bert_e import job as JOB
    env.ctors[JOB.QueuesJob] = lambda I, cls, **kw: I.alloc_obj(None, 'HJob', {})

    def hmq(I, qjob):
        emit(I, 'handle_merge_queues')
        raise TargetExc(I.make_exception(X.Merged if I.choose(None, 'queue merged') else X.NothingToDo, [], {}))
    env.fn_models[Q.handle_merge_queues] = hmq
    env.fn_models[GWF.check_in_sync] = lambda I, job, wb: SBool(I.fresh_term('in_sync', BOOL, True))

    def uib(I, job, wbranches):
        emit(I, 'update_integration_branches')
        k = I.choose_n(3, 'update_integration_branches outcome')
        if k == 0:
            return None
        if k == 1:
            # Conflict on one of the w/ branches (index >= 1)
            sv = I.seq_value(wbranches)
            idx = I.fresh_term('conflict_index', INT, True)
            I.assume(smt.And(smt.Le(smt.IntC(1), idx), smt.Lt(idx, smt.SeqLen(sv.t))))
            e = I.make_exception(X.Conflict, [], {})
            I.heap[e.oid]['kwargs'] = I.alloc_dict({'wbranch': SRef(smt.SeqNth(sv.t, idx), 'Br')})
            raise TargetExc(e)
        raise TargetExc(I.make_exception(X.BertE_Exception, ['update'], {}))
    env.fn_models[GWF.update_integration_branches] = uib

    def cipr(I, job, wbranches):
        emit(I, 'create_integration_pull_requests')
        return I.alloc_list(I.fresh('child_prs', 'fseq[ChildPR]', is_input=True))
    env.fn_models[GWF.create_integration_pull_requests] = cipr
    from bert_e.lib import cli as CLI
    env.fn_models[GWF.confirm] = lambda I, q: SBool(I.fresh_term('confirmed', BOOL, True))
    # contract of is_needed (C03): False without a queue collection
    def is_needed(I, job, wb, queues):
        if queues is None:
            return False
        need = I.fresh_term('queue_needed', BOOL, True)
        return SBool(smt.And(smt.Not(I.is_none(queues)), need))
    env.fn_models[Q.is_needed] = is_needed

    @env.model('QC', 'validate', trusted='QueueCollection.validate: returns or raises IncoherentQueues')
    def qc_validate(I, self):
        if I.choose(None, 'queues incoherent'):
            raise TargetExc(I.make_exception(X.IncoherentQueues, [[]], {}))

    @env.model('QC', 'delete', trusted='QueueCollection.delete: local deletion of q/ branches (its contract: C08)')
    def qc_delete(I, self):
        emit(I, 'queues_delete')

    def atq(I, job, wbranches):
        final_step(I, 'queued', wbranches)
        emit(I, 'add_to_queue', wbranches)
        if I.choose(None, 'queue conflict'):
            raise TargetExc(I.make_exception(X.BertE_Exception, ['QueueConflict'], {}))
    env.fn_models[Q.add_to_queue] = atq

    def mib(I, job, wbranches):
        final_step(I, 'merged', wbranches)
        emit(I, 'merge_integration_branches', wbranches)
        if I.choose(None, 'merge fails'):
            raise TargetExc(I.make_exception(GIT.PushFailedException, [], {}))
        emit(I, 'push_all', True)
    env.fn_models[GWF.merge_integration_branches] = mib
    env.model('BertEObj', 'add_merged_pr', trusted='status page bookkeeping')(lambda I, self, p: None)
    env.loop(HPR, 0, handlers.inv_deleted_owned, havoc=[havoc_local], top_level=True)
    return env


def hpr_setup(I, args):
    setup_common(I, args)
    job = args['job']
    # the source branch of a pull request Bert-E handles is not one of its own branches (early_checks, C12)
    src = I.term_of(I.get_attr(I.get_attr(job, 'pull_request'), 'src_branch'))
    I.assume(smt.Not(gitmodel.owned_term(src)))


def ens_outcomes(job, out, G):
    return True


def ens_declined_reaches_cleanup(job, out, G):
    # [C19] once the repository is cloned, a DECLINED pull request always goes through handle_declined_pull_request
    # (which declines / deletes its integration pull requests and branches): no earlier exit skips it
    return (job.pull_request.status != 'DECLINED'
            or not any(e[0] == 'clone' for e in G.trace)
            or any(e[0] == 'handle_declined_pull_request' for e in G.trace))


def contract(env):
    return Contract(HPR, args={'job': 'HJob'}, setup=hpr_setup,
                    ensures=[('gates_before_queue_or_merge_and_pushes_owned', ens_outcomes)] + (
                        [('declined_pull_request_always_reaches_its_cleanup', ens_declined_reaches_cleanup)]
                        if env.prop == 'C19' else []),
                    covers=['raise:Queued', 'raise:SuccessMessage'])


def run_for(rep, prop, budget):
    """called from the extra() of the property specs"""
    from pyvc import cli
    import sys
    mod = sys.modules[__name__]
    env = base_env(prop)
    c = contract(env)
    c.label = HPR + ' [%s obligations]' % prop
    cli.handle_function(rep, mod, env, c, budget, cli.load_lock().get(prop, {}))
    rep.trusted.extend(env.trusted)
