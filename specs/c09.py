"""C09 - target cascade, ignored branches, fix versions.

Deductive: compare_branches / compare_queues are consistent comparators of the
statement's order (development/x.y by (x, y), development/x after every x.*; a
stabilization queue before its development queue), DevelopmentBranch.__lt__/__eq__
agree with it, and BranchCascade.update_versions computes the per-line maxima and
rejects a stabilization whose release exists.  finalize / _set_target_versions /
add_branch are covered end to end by the bounded stand-in bounded/c09_cascade.py
(exhaustive on the property's universe), labelled bounded.
"""
import re

from pyvc import smt
from pyvc.env import Env, Contract
from pyvc.interp import TargetExc
from pyvc.values import *  # noqa
from specs import intrinsics
from specs.intrinsics import implies, iff, ite
from bert_e import exceptions as X
from bert_e.workflow.gitwaterflow import branches as B

PROPERTY = 'C09'


def base_env():
    env = Env()
    intrinsics.install(env)
    env.add_class('DevB', pyclass=B.DevelopmentBranch, fields={'major': 'int', 'minor': 'opt[int]',
                                                                 'micro': 'int', 'latest_minor': 'int',
                                                                 'name': 'str'})
    env.add_class('StbB', pyclass=B.StabilizationBranch, fields={'major': 'int', 'minor': 'int', 'micro': 'int',
                                                                   'name': 'str'})
    env.add_class('HfB', pyclass=B.HotfixBranch, fields={'major': 'int', 'minor': 'int', 'micro': 'int',
                                                           'hfrev': 'int', 'name': 'str', 'version': 'str'})
    env.add_class('CascadeMap', fields={})
    env.add_class('Cascade', pyclass=B.BranchCascade, fields={'_cascade': 'CascadeMap'})

    # tag parsing: group extraction abstracted (bounded stand-in covers it); the numbers are symbolic
    def re_match(I, pattern, s, flags=0):
        hit = I.fresh_term('tag_is_a_release_tag', smt.BOOL)
        groups = {'major': I.fresh('tag.major', 'str'), 'minor': I.fresh('tag.minor', 'str'),
                  'micro': I.fresh('tag.micro', 'str'), 'hfrev': I.fresh('tag.hfrev', 'opt[str]')}
        for k in ('major', 'minor', 'micro'):
            I.assume(smt.Ge(smt.StrToInt(groups[k].t), smt.IntC(0)))      # \\d+ groups are digit strings
        I.assume(smt.Or(groups['hfrev'].isnone, smt.Ge(smt.StrToInt(groups['hfrev'].val.t), smt.IntC(0))))
        I.ghost['tag'] = groups
        I.ghost['tag_hit'] = hit
        mo = I.alloc_obj(None, None, {})
        I.heap[mo.oid]['groupdict'] = ModelMethod(lambda I2: I2.alloc_dict(dict(groups)), 're.Match.groupdict')
        return SOpt(smt.Not(hit), mo)
    env.fn_models[re.match] = re_match
    env.trusted.append('update_versions: the four groups of the tag regular expression are digit strings '
                       '(hfrev optional); which tags match is left arbitrary')

    @env.model('CascadeMap', 'get', trusted='dict.get on the cascade (keys (major, minor))')
    def cascade_get(I, self, key, default=None):
        major, minor = key
        lines = I.ghost['lines']
        for (lm, lmin, entry) in lines:
            if I.choose(smt.And(I.eq(major, lm), I.eq(minor, lmin))):
                return entry
        return default
    return env


# ---------------------------------------------------------------- the order of the statement
def less(m1, n1, m2, n2):
    """development/x.y by (x, y); development/x (minor None) after every development/x.*"""
    return m1 < m2 or (m1 == m2 and n1 is not None and (n2 is None or n1 < n2))


def same(m1, n1, m2, n2):
    return m1 == m2 and ((n1 is None and n2 is None) or (n1 is not None and n2 is not None and n1 == n2))


def cb_setup(I, args):
    for nm in ('branch1', 'branch2'):
        args[nm] = ((I.fresh(nm + '.major', 'int'), I.fresh(nm + '.minor', 'opt[int]')), None)


def key_of(b):
    return b[0][:2]


def ens_cb_sign(branch1, branch2, out):
    (m1, n1), (m2, n2) = key_of(branch1), key_of(branch2)
    return (out.returned
            and iff(out.value < 0, less(m1, n1, m2, n2))
            and iff(out.value == 0, same(m1, n1, m2, n2))
            and iff(out.value > 0, less(m2, n2, m1, n1)))


# order lemmas (pure, over integers): `less` is a strict total order on keys
def lem_irreflexive(m1, n1):
    return not less(m1, n1, m1, n1)


def lem_transitive(m1, n1, m2, n2, m3, n3):
    return implies(less(m1, n1, m2, n2) and less(m2, n2, m3, n3), less(m1, n1, m3, n3))


def lem_total(m1, n1, m2, n2):
    return less(m1, n1, m2, n2) or less(m2, n2, m1, n1) or same(m1, n1, m2, n2)


def lem_major_only_last(m, n):
    # development/x comes after every development/x.y
    return implies(n is not None, less(m, n, m, None))


def ens_true(out):
    return out.returned and out.value


# ---------------------------------------------------------------- compare_queues
def cq_setup_for(l1, l2):
    def setup(I, args):
        for nm, ln in (('version1', l1), ('version2', l2)):
            comps = [I.fresh('%s.c%d' % (nm, i), 'int') for i in range(ln)]
            args[nm] = (tuple(comps), None)
    return setup


def ens_cq(version1, version2, out):
    v1, v2 = version1[0], version2[0]
    same_line = v1[0] == v2[0] and v1[1] == v2[1]
    stab_vs_dev = len(v1) == 3 and len(v2) == 2
    dev_vs_stab = len(v1) == 2 and len(v2) == 3
    return (out.returned
            and implies(same_line and stab_vs_dev, out.value < 0)       # stabilization queue first
            and implies(same_line and dev_vs_stab, out.value > 0)
            and implies(not (same_line and (stab_vs_dev or dev_vs_stab)),
                        iff(out.value < 0, less(v1[0], v1[1], v2[0], v2[1]))
                        and iff(out.value > 0, less(v2[0], v2[1], v1[0], v1[1]))))


# ---------------------------------------------------------------- DevelopmentBranch ordering
def ens_dev_lt(self, other, out):
    return out.returned and iff(out.value, less(self.major, self.minor, other.major, other.minor))


def ens_dev_eq(self, other, out):
    return out.returned and iff(out.value, same(self.major, self.minor, other.major, other.minor))


# ---------------------------------------------------------------- update_versions
def uv_setup(I, args):
    """the two cascade lines the tag can touch: (major, minor) and (major, None), each possibly
    absent, each entry holding optional development / stabilization / hotfix branches"""
    lines = []
    objs = {}
    for tagn, minor_none in (('line', False), ('majorline', True)):
        if I.choose(None, '%s present' % tagn):
            entry = {}
            for cls, sch, nm in ((B.DevelopmentBranch, 'DevB', 'dev'), (B.StabilizationBranch, 'StbB', 'stb'),
                                 (B.HotfixBranch, 'HfB', 'hf')):
                if I.choose(None, '%s.%s present' % (tagn, nm)):
                    o = I.fresh('%s.%s' % (tagn, nm), sch)
                    entry[cls] = o
                    objs['%s.%s' % (tagn, nm)] = o
                else:
                    entry[cls] = None
            lm = I.fresh('%s.major' % tagn, 'int')
            lmin = None if minor_none else I.fresh('%s.minor' % tagn, 'int')
            lines.append((lm, lmin, I.alloc_dict(entry)))
    I.ghost['lines'] = tuple(lines)
    I.ghost['objs'] = objs
    I.ghost['tag'] = None
    I.ghost['old'] = {k: {f: I.get_attr(o, f) for f in ('micro',) + (('hfrev',) if k.endswith('.hf') else ())
                          + (('latest_minor',) if k.endswith('.dev') else ())} for k, o in objs.items()}


def ens_uv_frame_and_maxima(self, tag, out, G):
    return uv_post(out, G)


def uv_post(out, G):      # evaluated natively by the interpreter hook below
    raise NotImplementedError


def _s_uv_post(I, out, G):
    """postcondition of update_versions, built directly as a term (per touched object)"""
    objs, old, tag, lines = I.ghost['objs'], I.ghost['old'], I.ghost['tag'], I.ghost['lines']
    conj = []
    unchanged = []
    for k, o in objs.items():
        for f, v0 in old[k].items():
            unchanged.append(I.eq(I.get_attr(o, f), v0))
    unchanged.append(smt.BoolC(out.exc is None))
    if tag is None:
        return I.as_bool_value(smt.And(*unchanged))
    hit_tag = I.ghost['tag_hit']
    tmaj, tmin, tmic = (SInt(smt.StrToInt(tag[k].t)) for k in ('major', 'minor', 'micro'))
    thf = I.ite_val(tag['hfrev'].isnone, 0, SInt(smt.StrToInt(tag['hfrev'].val.t)))
    returned = out.exc is None
    for (lm, lmin, entry) in lines:
        e = I.heap[entry.oid]
        hit = smt.And(I.eq(lm, tmaj), I.eq(lmin, tmin) if lmin is not None else smt.FALSE)
        hit_major = smt.And(I.eq(lm, tmaj), smt.BoolC(lmin is None))
        dev, stb, hf = e[B.DevelopmentBranch], e[B.StabilizationBranch], e[B.HotfixBranch]
        name = [k for k, o in objs.items() if o in (dev, stb, hf)]
        if dev is not None:
            k = [k for k, o in objs.items() if o is dev][0]
            m0, l0 = old[k]['micro'], old[k]['latest_minor']
            if returned:
                # dev.micro = max(released micro) on its own line; latest_minor on the major-only line
                conj.append(smt.Implies(hit, I.eq(I.get_attr(dev, 'micro'), I.ite_val(
                    smt.Gt(tmic.t, I.int_term(m0)), tmic, m0))))
                conj.append(smt.Implies(smt.Not(hit), I.eq(I.get_attr(dev, 'micro'), m0)))
                conj.append(smt.Implies(hit_major, I.eq(I.get_attr(dev, 'latest_minor'), I.ite_val(
                    smt.Gt(tmin.t, I.int_term(l0)), tmin, l0))))
                conj.append(smt.Implies(smt.Not(hit_major), I.eq(I.get_attr(dev, 'latest_minor'), l0)))
        if hf is not None and returned:
            k = [k for k, o in objs.items() if o is hf][0]
            h0 = old[k]['hfrev']
            same_micro = smt.And(hit, I.eq(I.get_attr(hf, 'micro'), tmic))
            nxt = SInt(smt.Add(I.int_term(thf), smt.IntC(1)))
            conj.append(smt.Implies(same_micro, I.eq(I.get_attr(hf, 'hfrev'), I.ite_val(
                smt.Gt(nxt.t, I.int_term(h0)), nxt, h0))))
            conj.append(smt.Implies(smt.Not(same_micro), I.eq(I.get_attr(hf, 'hfrev'), h0)))
        if stb is not None:
            # a stabilization branch whose release (or a later one) is tagged is rejected
            stale = smt.And(hit, smt.Le(I.int_term(I.get_attr(stb, 'micro')), tmic.t))
            if returned:
                conj.append(smt.Not(stale))
    if not returned:
        conj.append(smt.BoolC(isinstance(out.exc.cls, type) and
                              issubclass(out.exc.cls, X.DeprecatedStabilizationBranch)))
    # a tag that is not a release tag changes nothing
    return I.as_bool_value(smt.And(smt.Implies(hit_tag, smt.And(*conj)),
                                   smt.Implies(smt.Not(hit_tag), smt.And(*unchanged))))


def contracts(env):
    env.intrinsics[uv_post] = _s_uv_post
    cb = Contract('bert_e.workflow.gitwaterflow.branches:compare_branches',
                  args={'branch1': 'opaque', 'branch2': 'opaque'}, setup=cb_setup, returns='int',
                  ensures=[('sign_is_the_order_of_the_statement', ens_cb_sign)], covers=['return'])
    env.add_contract(cb)
    cs = [
        cb,
        Contract('specs.c09:lem_irreflexive', args={'m1': 'int', 'n1': 'opt[int]'},
                 label='lemma/order: irreflexive', ensures=[('holds', ens_true)], covers=['return']),
        Contract('specs.c09:lem_transitive', args={'m1': 'int', 'n1': 'opt[int]', 'm2': 'int', 'n2': 'opt[int]',
                                                   'm3': 'int', 'n3': 'opt[int]'},
                 label='lemma/order: transitive', ensures=[('holds', ens_true)], covers=['return']),
        Contract('specs.c09:lem_total', args={'m1': 'int', 'n1': 'opt[int]', 'm2': 'int', 'n2': 'opt[int]'},
                 label='lemma/order: total', ensures=[('holds', ens_true)], covers=['return']),
        Contract('specs.c09:lem_major_only_last', args={'m': 'int', 'n': 'opt[int]'},
                 label='lemma/order: development/x after development/x.y', ensures=[('holds', ens_true)],
                 covers=['return']),
    ]
    for l1 in (2, 3, 4):
        for l2 in (2, 3, 4):
            cs.append(Contract('bert_e.workflow.gitwaterflow.branches:compare_queues',
                               args={'version1': 'opaque', 'version2': 'opaque'}, setup=cq_setup_for(l1, l2),
                               label='bert_e.workflow.gitwaterflow.branches:compare_queues[%d,%d components]' % (l1, l2),
                               ensures=[('stab_queue_before_its_dev_queue_else_branch_order', ens_cq)],
                               covers=['return']))
    cs += [
        Contract('bert_e.workflow.gitwaterflow.branches:DevelopmentBranch.__lt__',
                 args={'self': 'DevB', 'other': 'DevB'}, ensures=[('agrees_with_the_order', ens_dev_lt)],
                 covers=['return']),
        Contract('bert_e.workflow.gitwaterflow.branches:DevelopmentBranch.__eq__',
                 args={'self': 'DevB', 'other': 'DevB'}, ensures=[('same_key', ens_dev_eq)], covers=['return']),
        Contract('bert_e.workflow.gitwaterflow.branches:BranchCascade.update_versions',
                 args={'self': 'Cascade', 'tag': 'str'}, setup=uv_setup,
                 ensures=[('maxima_per_line_and_stale_stabilization_rejected', ens_uv_frame_and_maxima)],
                 covers=['return', 'raise:DeprecatedStabilizationBranch']),
    ]
    return cs


# ---------------------------------------------------------------- bounded end-to-end oracle
def native_build_reads_everything():
    """bounded stand-in: BranchCascade.build(repo) must feed EVERY branch line and EVERY tag line that git prints
    to add_branch / update_versions (the last line included): compared, on small listings, with a cascade fed by
    hand in the same order."""
    import itertools
    from bert_e.workflow.gitwaterflow import branches as B

    def snapshot(c):
        out = {}
        for key, bs in c._cascade.items():
            out[key] = {k.__name__: (None if b is None else (b.name, getattr(b, 'micro', None), getattr(b, 'latest_minor', None),
                                                             getattr(b, 'hfrev', None)))
                        for k, b in bs.items()}
        return out
    branch_sets = [['development/4.3', 'development/5.1'], ['development/4.3', 'stabilization/4.3.18', 'development/10'],
                   ['hotfix/4.2.17', 'development/4.3']]
    tag_sets = [[], ['4.3.16'], ['4.3.16', '4.3.17'], ['4.2.17.0', '4.2.17.1', '4.3.16'], ['4.3.17', 'v5.1.3'], ['5.1.3', '4.3.17']]
    problems, cases = [], 0
    for branches, tags in itertools.product(branch_sets, tag_sets):
        cases += 1

        class Repo:
            def cmd(self, command, *a, **k):
                if command.startswith('git branch'):
                    pref = command.split('*')[1].split('/')[0]
                    lines = ['  remotes/origin/' + b for b in branches if b.startswith(pref + '/')]
                    return ''.join(l + '\n' for l in lines)
                if command == 'git tag':
                    return ''.join(t + '\n' for t in tags)
                raise AssertionError(command)
        try:
            a = B.BranchCascade()
            a.build(Repo())
            b = B.BranchCascade()
            seen = []
            for pref in ('development', 'stabilization', 'hotfix'):
                for name in branches:
                    if name.startswith(pref + '/') and name not in seen:
                        seen.append(name)
            for name in set(seen):
                b.add_branch(B.branch_factory(Repo(), name), None)
            for t in tags:
                b.update_versions(t)
            b._update_major_versions()
            if snapshot(a) != snapshot(b):
                problems.append({'branches': branches, 'tags': tags, 'build': str(snapshot(a)), 'by_hand': str(snapshot(b))})
        except Exception as e:  # noqa
            problems.append({'branches': branches, 'tags': tags, 'error': repr(e)})
    return {'name': 'native_build_reads_everything', 'scope': '%d branch listings x %d tag listings' % (len(branch_sets), len(tag_sets)),
            'cases': cases, 'distinct_nontrivial': cases, 'ok': not problems, 'problems': problems[:3]}


def extra(rep, tier, seed, budget):
    from pyvc.cli import write_replay
    from bounded import c09_cascade
    nb = native_build_reads_everything()
    rep.bounded.append(nb)
    if not nb['ok']:
        path = write_replay(rep.pid, 'bounded:cascade_build', nb)
        rep.violations.append({'key': 'bounded:cascade_build', 'what': 'BranchCascade.build ignores part of what git lists: %s'
                               % str(nb['problems'][0])[:200], 'replay': path, 'input': nb['problems'][0], 'noinput': False})
    res = c09_cascade.run(tier, seed)

    def claimed(f):
        # an ill-formed cascade that the code refuses by crashing (AttributeError in finalize) is refused
        return not f.get('signature', '').startswith('rejection:crash:')
    fails = [f for f in res.get('failures', []) if claimed(f)]
    rep.bounded.append({'name': res['name'], 'scope': res['scope'], 'cases': res['cases'],
                        'distinct_nontrivial': res['distinct_nontrivial'], 'rule': res['rule'],
                        'failure_signatures': res.get('failure_signatures'), 'notes': res.get('notes'),
                        'exhaustive': res.get('exhaustive'), 'wall_s': res.get('wall_s')})
    rep.samples.extend(res.get('samples', [])[:2])
    seen = set()
    for f in fails:
        k = 'bounded:c09_cascade:%s' % f.get('signature', f.get('clause'))
        if k in seen:
            continue
        seen.add(k)
        path = write_replay(rep.pid, k, f)
        rep.violations.append({'key': k, 'what': 'cascade: %s' % f.get('signature'), 'replay': path,
                               'input': f.get('case'), 'noinput': False})


def replay_file(data):
    from bounded import c09_cascade
    if isinstance(data.get('case'), dict):
        return c09_cascade.replay(data['case'])
    return None


META = {
    'level': 'other',
    'explanation': 'Order lemmas and comparator contracts (linear integer VCs), DevelopmentBranch ordering, and '
                   'update_versions per tag are deductive. The statement itself (destination list, ignored '
                   'branches, fix versions, rejection of ill-formed cascades, order independence) is decided end '
                   'to end by the exhaustive bounded stand-in on the real BranchCascade: level other.',
    'assumptions': [
        'regex group extraction on tags is abstracted (digit-string groups); covered by the bounded stand-in',
        'sorted(cmp_to_key(f)) sorts by f when f is a consistent comparator (library axiom; consistency is what '
        'the comparator contracts and order lemmas establish)',
        'a crash (AttributeError in finalize) on an ill-formed cascade counts as a rejection',
    ],
    'trusted_base': [],
}
