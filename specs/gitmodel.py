"""Trusted ghost model of the local clone, the remote and the git host, shared by the
repository-level properties (C01 C02 C03 C08 C15 C19 C20).

Branches are references br(name); everything Bert-E does to the repository is
recorded, in program order, in the ghost trace `G.trace` (a tuple of events) and in
summary ghost sets that survive loop cuts:
    G.deleted : names of local branches deleted so far (symbolic set)
Remote-mutating events: ('push', names...), ('push_all', prune), ('push_delete', name),
('tag_push', tag), host events ('comment', ..), ('decline', ..), ('create_pr', ..).
Each spec installs `env.on_event(I, event)` to attach its own obligations to events.
"""
from pyvc import smt
from pyvc.env import resolve
from pyvc.interp import TargetExc
from pyvc.values import *  # noqa
from bert_e import exceptions as X
from bert_e.lib import git as GIT
from bert_e.workflow.gitwaterflow import branches as B

STR, BOOL, INT, REF = smt.STR, smt.BOOL, smt.INT, smt.REF
REMOTE_MUTATIONS = ('push', 'push_all', 'push_delete', 'tag_push', 'comment', 'decline', 'create_pr', 'put_job')
CLASSES = ['StabilizationBranch', 'DevelopmentBranch', 'ReleaseBranch', 'QueueBranch',
           'QueueIntegrationBranch', 'FeatureBranch', 'HotfixBranch', 'LegacyHotfixBranch',
           'IntegrationBranch', 'UserBranch']


def owned_term(name_t):
    return smt.Or(smt.StrPrefixOf(smt.StrC('w/'), name_t), smt.StrPrefixOf(smt.StrC('q/'), name_t),
                  smt.StrPrefixOf(smt.StrC('tmp/'), name_t))


def br(I, name):
    """the branch object of that name (a branch reference IS its name: sort String)"""
    return SRef(I.term_of(name), 'Br')


def name_of(I, ref):
    t = ref.t
    return t.data if t.op == 'const' else SStr(t)


def cls_of(I, ref):
    return smt.App('gwf.class', [I.term_of(name_of(I, ref))], STR)


def emit(I, *event):
    I.ghost['trace'] = I.ghost['trace'] + (tuple(event),)
    h = getattr(I.env, 'on_event', None)
    if h is not None:
        h(I, tuple(event))


def mutated(trace):
    """does the trace contain an event that changes the remote repository or the git host?"""
    return any(e[0] in REMOTE_MUTATIONS for e in trace)


def install(env):
    env.add_class('Br', kind='ref', fields={}, sort=STR)
    env.add_class('GRepo', fields={})
    env.add_class('QC', fields={})
    env.add_class('CascadeObj', fields={})
    A = env.ref_attr_hooks
    A[('Br', 'name')] = name_of
    A[('Br', 'repo')] = lambda I, r: I.ghost['repo']
    for f, sort, wrap in (('version', STR, SStr), ('major', INT, SInt), ('micro', INT, SInt), ('hfrev', INT, SInt),
                          ('pr_id', INT, SInt)):
        A[('Br', f)] = (lambda ff, ss, ww: lambda I, r: ww(smt.App('Br.' + ff, [I.term_of(name_of(I, r))], ss)))(
            f, sort, wrap)
    A[('Br', 'minor')] = lambda I, r: SOpt(smt.App('Br.minor?none', [I.term_of(name_of(I, r))], BOOL),
                                           SInt(smt.App('Br.minor', [I.term_of(name_of(I, r))], INT)))
    A[('Br', 'version_t')] = lambda I, r: SOpaque(smt.App('Br.version_t', [I.term_of(name_of(I, r))], REF), 'version_t')
    A[('Br', 'dst_branch')] = lambda I, r: SRef(smt.App('Br.dst_branch', [r.t], STR), 'Br')
    A[('Br', 'newly_created')] = lambda I, r: False

    def isinstance_hook(I, v, classes):
        if isinstance(v, SRef) and v.cls == 'Br':
            names = set()
            for c in classes:
                for k in CLASSES:
                    real = getattr(B, k)
                    if isinstance(c, type) and issubclass(real, c):
                        names.add(k)
            if GIT.Branch in classes or B.GWFBranch in classes:
                return True
            ct = cls_of(I, v)
            return I.as_bool_value(smt.Or(*[smt.Eq(ct, smt.StrC(k)) for k in sorted(names)]))
        return None
    env.isinstance_hook = isinstance_hook

    # --- constructors of branch objects
    def factory(I, repo, name):
        rec = smt.App('gwf.recognized', [I.term_of(name)], BOOL)
        I.require_safe(rec, lambda: I.make_exception(X.UnrecognizedBranchPattern, [name], {}),
                       'UnrecognizedBranchPattern')
        return br(I, name)
    env.fn_models[B.branch_factory] = factory

    def ctor_of(kind):
        def ctor(I, cls, repo, name, *a):
            r = br(I, name)
            if kind is not None:
                I.assume(smt.Eq(cls_of(I, r), smt.StrC(kind)))
            return r
        return ctor
    env.ctors[GIT.Branch] = ctor_of(None)
    for k in CLASSES:
        env.ctors[getattr(B, k)] = ctor_of(k)

    # --- branch methods (git primitives: trusted, DESIGN.md section 4.1)
    def local_exists(I, name):
        return smt.App('local.exists@%d' % I.ghost['lv'], [I.term_of(name)], BOOL)

    @env.model('Br', 'exists', trusted='Branch.exists(): git checkout succeeds iff the local ref exists')
    def b_exists(I, self):
        return SBool(local_exists(I, name_of(I, self)))
    env.model('Br', 'checkout', trusted='git checkout: no effect on refs')(lambda I, self: None)

    @env.model('Br', 'create', trusted='git checkout -b: creates the local ref (and pushes it when do_push)')
    def b_create(I, self, source, do_push=True):
        emit(I, 'create_local', name_of(I, self), source)
        I.ghost['lv'] += 1
        if do_push:
            emit(I, 'push', (self,))
        return None

    @env.model('Br', 'push', trusted='git push --set-upstream origin <name>: non-forced update of one ref')
    def b_push(I, self):
        emit(I, 'push', (self,))

    @env.model('Br', 'merge', trusted='git merge: fast-forward or merge commit on the local ref; may conflict')
    def b_merge(I, self, *sources, **kw):
        if I.choose(None, 'merge conflict'):
            raise TargetExc(I.make_exception(GIT.MergeFailedException, [], {}))
        emit(I, 'merge', self, tuple(sources))
        if kw.get('do_push'):
            emit(I, 'push', (self,))
    env.model('Br', 'reset', trusted='git reset --hard: local only')(lambda I, self, *a, **k: emit(I, 'reset_local', self))
    env.model('Br', 'includes_commit', trusted='git merge-base --is-ancestor')(
        lambda I, self, c: SBool(smt.App('anc@%d' % I.ghost['lv'], [I.term_of(_commitish(I, c)), I.term_of(name_of(I, self))], BOOL)))
    env.model('Br', 'get_latest_commit', trusted='git rev-parse')(
        lambda I, self: SStr(smt.App('tip@%d' % I.ghost['lv'], [I.term_of(name_of(I, self))], STR)))
    env.model('Br', '__str__', trusted='Branch.__str__ = name')(lambda I, self: name_of(I, self))
    # Branch.remove is REAL code (its guard is what C08 verifies)
    env.ref_methods[('Br', 'remove')] = remove_dispatch
    env.allow_inline(GIT.Branch.remove, remove_dispatch)

    # --- the repository
    @env.model('GRepo', 'cmd', trusted='Repository.cmd: runs a git command (recorded)')
    def r_cmd(I, self, command, *args, **kw):
        if isinstance(command, str) and command.startswith('git branch -D'):
            I.ghost['deleted'] = SSetV(smt.SetUnion(I.ghost['deleted'].t, smt.SetSingleton(I.term_of(args[0]))), ('str',))
            I.ghost['lv'] += 1
            emit(I, 'delete_local', args[0])
            return ''
        if command == 'git tag':
            emit(I, 'cmd', command)
            return SStr(smt.Var('git-tag-output', STR), None)
        if _starts(command, 'git tag '):
            emit(I, 'tag_local', command)
            return ''
        if isinstance(command, (str, SStr)) and _is_push_tag(command):
            emit(I, 'tag_push', command)
            if I.choose(None, 'tag push fails'):
                I.ghost['last_failed'] = True
                I.ghost['tag_push_failed'] = True
                from bert_e.lib.simplecmd import CommandError
                raise TargetExc(I.make_exception(CommandError, [], {}))
            return ''
        emit(I, 'cmd', command, args)
        return SStr(I.fresh_term('cmd_output', STR, False))

    @env.model('GRepo', 'push', trusted='Repository.push(refspec): non-forced; ":name" deletes the remote ref')
    def r_push(I, self, names):
        if isinstance(names, SStr) and names.t.op == 'str.++' and names.t.args[0].op == 'const' \
                and names.t.args[0].data == ':':
            emit(I, 'push_delete', SStr(smt.StrConcat(*names.t.args[1:])))
        elif isinstance(names, str) and names.startswith(':'):
            emit(I, 'push_delete', names[1:])
        else:
            emit(I, 'push_refspec', names)
        if I.choose(None, 'push fails'):
            I.ghost['last_failed'] = True
            raise TargetExc(I.make_exception(GIT.PushFailedException, [], {}))
    env.model('GRepo', 'checkout', trusted='git checkout')(lambda I, self, name: None)
    env.attr_models[('GRepo', 'remote_branches')] = ModelMethod(lambda I, self: I.ghost['remote_names'], 'remote_branches')
    env.model('GRepo', 'remote_branch_exists', trusted='ls-remote')(
        lambda I, self, name, *a: SBool(smt.App('remote.has', [I.term_of(name)], BOOL)))

    def split_model(I, s, sep=None, maxsplit=-1):
        if isinstance(s, SStr) and s.t.op == 'var' and s.t.data == 'git-tag-output' and sep == '\n':
            tags = I.ghost['tags']
            return I.alloc_list(SSeqV(smt.SeqConcat(tags.t, smt.SeqUnit(smt.StrC(''))), ('str',)))
        r = I.fresh_term('split', smt.SeqS(STR), False)
        if sep is not None:
            I.assume(smt.Ge(smt.SeqLen(r), smt.IntC(1)))
        return I.alloc_list(SSeqV(r, ('str',)))
    env.str_models['split'] = split_model

    # --- git_utils
    from bert_e.workflow import git_utils as GU

    def clone(I, job):
        emit(I, 'clone')
        return I.ghost['repo']
    env.fn_models[GU.clone_git_repo] = clone

    def push(I, repo, branches=None, prune=False):
        if branches is None:
            emit(I, 'push_all', prune)
        else:
            items = I.concrete_items(branches)
            if items is None or items:
                emit(I, 'push', branches)
        if I.choose(None, 'push fails'):
            I.ghost['last_failed'] = True
            raise TargetExc(I.make_exception(GIT.PushFailedException, [], {}))
    env.fn_models[GU.push] = push
    env.trusted.append('git_utils.push(repo, branches, prune): git push of exactly the named branches (non forced), or '
                       'git push --all --atomic [--prune]; may fail with PushFailedException leaving the remote unchanged '
                       '(git_utils.push itself is verified against this contract in C02)')

    # --- queue collection / cascade objects
    def bqc(I, job):
        q = I.alloc_obj(None, 'QC', {})
        I.ghost['qc'] = q
        return q
    env.fn_models[B.build_queue_collection] = bqc
    env.attr_models[('QC', 'queued_prs')] = ModelMethod(lambda I, self: I.ghost['queued_prs'], 'queued_prs')
    env.model('QC', 'has_version_queued_prs', trusted='QueueCollection.has_version_queued_prs (C05/C20 bounded)')(
        lambda I, self, v: SBool(smt.App('qc.has_version_queued', [I.term_of(v)], BOOL)))

    def cascade_ctor(I, cls):
        return I.alloc_obj(None, 'CascadeObj', {'@built_at': None})
    env.ctors[B.BranchCascade] = cascade_ctor

    @env.model('CascadeObj', 'build', trusted='BranchCascade.build: reads the local refs and tags')
    def c_build(I, self, repo, dst=None):
        I.heap[self.oid] = dict(I.heap[self.oid], **{'@built_at': I.ghost['lv']})

    @env.model('CascadeObj', 'validate', trusted='BranchCascade.validate: raises a BertE_Exception when the '
                                                 'local destination branches are not chained (C01)')
    def c_validate(I, self):
        if I.choose(None, 'cascade invalid'):
            raise TargetExc(I.make_exception(X.DevBranchesNotSelfContained, [], {}))
        I.ghost['validated_at'] = I.heap[self.oid]['@built_at']

    @env.model('CascadeObj', 'get_development_branches', trusted='development branches of the cascade, in order')
    def c_devs(I, self):
        return I.ghost['dev_branches']


def _commitish(I, c):
    if isinstance(c, SRef):
        return name_of(I, c)
    return c


def _starts(command, prefix):
    if isinstance(command, str):
        return command.startswith(prefix)
    t = getattr(command, 't', None)
    return t is not None and t.op == 'str.++' and t.args[0].op == 'const' and t.args[0].data.startswith(prefix)


def _is_push_tag(command):
    if isinstance(command, str):
        return command.startswith('git push origin ')
    t = command.t
    return t.op == 'str.++' and t.args[0].op == 'const' and t.args[0].data.startswith('git push origin ')


def remove_dispatch(self, *args, **kwargs):
    """IntegrationBranch.remove = checkout of the destination + Branch.remove; every other
    branch class uses Branch.remove (GhostIntegrationBranch.remove, a no-op, is a separate class)."""
    return GIT.Branch.remove(self, *args, **kwargs)


def setup_ghost(I, remote_names=True):
    I.ghost['trace'] = ()
    I.ghost['lv'] = 0
    I.ghost['deleted'] = SSetV(smt.SetEmpty(STR), ('str',))
    I.ghost['repo'] = I.alloc_obj(None, 'GRepo', {})
    I.ghost['remote_names'] = I.fresh('remote_branches', 'fseq[str]')
    I.ghost['tags'] = I.fresh('tags', 'fseq[str]')
    I.ghost['queued_prs'] = I.fresh('queued_prs', 'fseq[int]')
    I.ghost['dev_branches'] = I.fresh('dev_branches', 'fseq[Br]')
    I.ghost['validated_at'] = None
    I.ghost['qc'] = None

