"""C20 - branch and queue admin jobs keep the repository well-formed or do nothing.

Contracts over the ghost effect trace (specs/gitmodel.py) on the five job
handlers: create_branch, delete_branch (+ do_delete), delete_queues,
rebuild_queues, force_merge_queues.
"""
from pyvc import smt
from pyvc.env import Env, Contract
from pyvc.interp import TargetExc
from pyvc.values import *  # noqa
from specs import intrinsics, gitmodel
from specs.gitmodel import emit, mutated, owned_term, name_of, cls_of, br
from specs.intrinsics import implies, iff
from bert_e import exceptions as X
from bert_e.lib import git as GIT
from bert_e.workflow.gitwaterflow import branches as B

PROPERTY = 'C20'
REFUSALS = (X.JobFailure, X.NothingToDo, X.NotMyJob)
DEST = ('DevelopmentBranch', 'StabilizationBranch', 'HotfixBranch')


def base_env():
    env = Env()
    intrinsics.install(env)
    gitmodel.install(env)
    env.add_class('JobSettings', fields={'use_queue': 'bool', 'branch': 'str'})
    env.add_class('BertEObj', fields={})
    env.add_class('HostRepo', fields={})
    env.add_class('GitNS', fields={})
    env.add_class('AdminJob', fields={'settings': 'JobSettings', 'bert_e': 'BertEObj', 'project_repo': 'HostRepo',
                                      'git': 'GitNS'})
    env.ref_attr_hooks[('Br', '@dummy')] = None

    def factory(I, repo, name):
        # as in specs/gitmodel.py, plus: in the queue jobs the q/ names found on the remote are well formed
        nt = I.term_of(name)
        rec = smt.App('gwf.recognized', [nt], smt.BOOL)
        if I.ghost.get('q_names_recognized'):
            rec = smt.Or(rec, smt.StrPrefixOf(smt.StrC('q/'), nt))
        I.require_safe(rec, lambda: I.make_exception(X.UnrecognizedBranchPattern, [name], {}),
                       'UnrecognizedBranchPattern')
        return gitmodel.br(I, name)
    env.fn_models[B.branch_factory] = factory
    env.attr_models[('GitNS', 'repo')] = ModelMethod(lambda I, self: I.ghost['repo'], 'job.git.repo')

    @env.model('JobSettings', '__contains__', trusted='SettingsDict membership')
    def s_contains(I, self, key):
        if key == 'branch_from':
            return I.as_bool_value(smt.Not(I.ghost['branch_from'].isnone)) if isinstance(I.ghost['branch_from'], SOpt) \
                else True
        raise Unsupported('settings key %r' % (key,))

    @env.model('JobSettings', '__getitem__', trusted='SettingsDict item access')
    def s_getitem(I, self, key):
        if key == 'branch_from':
            return I.get_attr(self, 'branch_from')
        return I.get_attr(self, key)

    @env.model('BertEObj', 'process', trusted='BertE.process(next job): runs the rebuild-queues job')
    def be_process(I, self, job):
        emit(I, 'process_job', job)

    @env.model('BertEObj', 'put_job', trusted='BertE.put_job (C13)')
    def be_put(I, self, job):
        emit(I, 'put_job', job)

    @env.model('HostRepo', 'get_pull_request', trusted='host lookup')
    def get_pr(I, self, pr_id):
        return SRef(smt.App('host.pr', [I.int_term(pr_id)], smt.REF), 'HostPR')
    env.add_class('HostPR', kind='ref', fields={})
    from bert_e import job as JOB
    from bert_e.jobs import rebuild_queues as RQ
    env.ctors[JOB.PullRequestJob] = lambda I, cls, **kw: I.alloc_obj(cls, None, dict(kw))
    env.ctors[JOB.QueuesJob] = lambda I, cls, **kw: I.alloc_obj(cls, None, dict(kw))
    env.ctors[RQ.RebuildQueuesJob] = lambda I, cls, **kw: I.alloc_obj(cls, None, dict(kw))
    from bert_e.workflow.gitwaterflow import queueing as Q

    def hmq(I, job):
        emit(I, 'handle_merge_queues', I.get_attr(job, 'force_merge'))
        raise TargetExc(I.make_exception(X.Merged, [], {}))
    env.fn_models[Q.handle_merge_queues] = hmq
    env.trusted.append('handle_merge_queues(QueuesJob(force_merge=True)): its own contract is C03/C05')
    env.model('Br', '__lt__', trusted='DevelopmentBranch ordering (C09)')(
        lambda I, a, b: SBool(smt.App('br.lt', [a.t, b.t], smt.BOOL)))
    env.model('Br', '__gt__', trusted='DevelopmentBranch ordering (C09)')(
        lambda I, a, b: SBool(smt.App('br.lt', [b.t, a.t], smt.BOOL)))
    env.intrinsics[version_queued] = _s_version_queued
    env.intrinsics[branch_class] = _s_branch_class
    env.intrinsics[branch_version] = _s_branch_version
    env.allow_inline('bert_e.jobs.delete_branch:do_delete')
    env.on_event = on_event
    # loops
    for fn in ('bert_e.jobs.delete_queues:delete_queues', 'bert_e.jobs.rebuild_queues:rebuild_queues'):
        env.loop(fn, 0, inv_only_queue_branches_deleted, havoc=[havoc_local], top_level=True)
    env.loop('bert_e.jobs.rebuild_queues:rebuild_queues', 1, None)
    env.loop('bert_e.jobs.create_branch:create_branch', 0, None, havoc=[havoc_branch_from])
    env.site_hooks[('bert_e.jobs.rebuild_queues:rebuild_queues', 'put_job')] = site_resubmit
    return env


def havoc_local(I, fr):
    I.ghost['deleted'] = SSetV(I.fresh_term('deleted@loop', smt.SetS(smt.STR), False), ('str',))
    I.ghost['lv'] += 1


def havoc_branch_from(I, fr):
    job = fr.locals['job']
    I.set_attr(I.get_attr(job, 'settings'), 'branch_from', SRef(I.fresh_term('branch_from@loop', smt.STR, False), 'Br'))


def inv_only_queue_branches_deleted(G):
    return all(x.startswith('q/') for x in G.deleted)


def site_resubmit(call_args, _i, _seq, G, job):
    # the i-th resubmitted job is for the i-th pull request that WAS queued (read before the deletion)
    return (_seq is G.queued_prs
            and call_args[0].pull_request is job.project_repo.get_pull_request(_seq[_i]))


# ---------------------------------------------------------------- obligations attached to events
def on_event(I, ev):
    kind = ev[0]
    mode = I.ghost.get('mode')
    if kind == 'delete_local':
        nm = I.term_of(ev[1])
        if mode in ('delete_queues', 'rebuild_queues'):
            I.oblige('event/queue jobs delete only q/ branches', 'site', smt.StrPrefixOf(smt.StrC('q/'), nm), 'delete')
        else:
            I.oblige('event/local deletion of an owned branch', 'site', owned_term(nm), 'delete')
    elif kind == 'push_all':
        # propagating local deletions with --prune: every locally deleted branch is Bert-E's own
        x = smt.fresh_bound('x', smt.STR)
        d = I.ghost['deleted'].t
        pre = smt.Eq(smt.SetFilter(d, x, smt.Not(owned_term(x))), smt.SetEmpty(smt.STR))
        I.oblige('event/push --all --prune deletes only owned branches', 'site', pre, 'push_all')
        if mode in ('delete_queues', 'rebuild_queues'):
            pre2 = smt.Eq(smt.SetFilter(d, x, smt.Not(smt.StrPrefixOf(smt.StrC('q/'), x))), smt.SetEmpty(smt.STR))
            I.oblige('event/queue jobs prune only q/ branches', 'site', pre2, 'push_all')
    elif kind == 'push_delete':
        nm = I.term_of(ev[1])
        ok = owned_term(nm)
        if mode == 'delete_branch':
            tagged = any(e[0] == 'tag_push' for e in I.ghost['trace'][:-1]) and not I.ghost.get('tag_push_failed')
            target = I.term_of(I.ghost['job_branch'])
            ok = smt.Or(ok, smt.And(smt.BoolC(bool(tagged)), smt.Eq(nm, target)))
        I.oblige('event/remote deletion only of owned branches (or the archived target)', 'site', ok, 'push_delete')
    elif kind == 'push':
        if mode == 'create_branch':
            (b,) = I.need_items(ev[1])
            g = I.ghost
            conds = [
                smt.BoolC(g['validated_at'] is not None and g['validated_at'] == g['lv'] and g['lv'] >= 1),
                smt.Or(*[smt.Eq(cls_of(I, b), smt.StrC(k)) for k in DEST]),
                smt.Eq(I.term_of(name_of(I, b)), I.term_of(g['job_branch'])),
                smt.Not(I.contains(g['tags'], I.get_attr(b, 'version'))),
                smt.Not(I.contains(g['remote_names'], name_of(I, b))),
            ]
            I.oblige('event/new branch published only after every check and the cascade validation', 'site',
                     smt.And(*conds), 'push')
            if g.get('queue_guard') is not None:
                I.oblige('event/no older development branch while pull requests are queued', 'site',
                         g['queue_guard'](I, b), 'push')
        else:
            I.oblige('event/unexpected push', 'site', smt.FALSE, 'push')
    elif kind in ('push_refspec',):
        I.oblige('event/unexpected raw push', 'site', smt.FALSE, kind)


# ---------------------------------------------------------------- contracts
def setup_for(mode):
    def setup(I, args):
        gitmodel.setup_ghost(I)
        I.ghost['mode'] = mode
        job = args['job']
        s = I.get_attr(job, 'settings')
        I.ghost['job_branch'] = I.get_attr(s, 'branch')
        if mode == 'create_branch':
            # branch_from: absent, or a branch / commit-ish given by the caller
            k = I.choose_n(2, 'branch_from given')
            if k == 0:
                I.ghost['branch_from'] = SOpt(smt.TRUE, SStr(smt.StrC('')))
                I.set_attr(s, 'branch_from', None)
            else:
                v = I.fresh('branch_from', 'str')
                I.ghost['branch_from'] = v
                I.set_attr(s, 'branch_from', v)
            I.assume(smt.Gt(smt.SeqLen(I.ghost['dev_branches'].t), smt.IntC(0)))

            def queue_guard(I2, b):
                use_queue = I2.truth(I2.get_attr(s, 'use_queue'))
                devs = I2.ghost['dev_branches']
                last = SRef(smt.SeqNth(devs.t, smt.Sub(smt.SeqLen(devs.t), smt.IntC(1))), 'Br')
                older = smt.App('br.lt', [b.t, last.t], smt.BOOL)
                plain_dev = smt.Eq(cls_of(I2, b), smt.StrC('DevelopmentBranch'))
                queued = smt.Gt(smt.SeqLen(I2.ghost['queued_prs'].t), smt.IntC(0))
                return smt.Not(smt.And(use_queue, plain_dev, older, queued))
            I.ghost['queue_guard'] = queue_guard
        # the q/ branches on the remote are Bert-E's own, well-formed queue branches (C18): branch_factory
        # recognises them (stated in the factory model below, without a quantifier)
        I.ghost['q_names_recognized'] = mode in ('delete_queues', 'rebuild_queues')
    return setup


def ens_refusal_leaves_remote_untouched(job, out, G):
    return implies(out.raised(X.JobFailure, X.NothingToDo, X.NotMyJob),
                   not mutated(G.trace) or bool(G.last_failed))


def ens_queue_jobs_need_queues(job, out, G):
    return implies(not job.settings.use_queue, out.raised(X.NotMyJob) and not mutated(G.trace))


def ens_outcomes(job, out, G):
    # (a branch such as q/foo, which branch_factory does not recognise, makes the queue jobs end with an
    # internal error before anything is deleted: noted in DESIGN.md, not a violation of the statement)
    return out.raised(X.JobSuccess, X.JobFailure, X.NothingToDo, X.NotMyJob, X.Merged, GIT.PushFailedException,
                      X.UnrecognizedBranchPattern) or out.returned


def ens_delete_queues_success(job, out, G):
    # success: either there was no queue branch, or the deletions were published by one pruning push
    return implies(out.raised(X.JobSuccess),
                   not mutated(G.trace) or G.trace[-1] == ('push_all', True))


def ens_queue_jobs_never_abort_on_well_formed_queues(job, out, G):
    # with well-formed q/ names on the remote the job does its work: it never gives up on a branch name it
    # computed itself (stabilization and hotfix queues, q/x.y.z and q/x.y.z.n, included)
    return not out.raised(X.UnrecognizedBranchPattern)


def ens_rebuild_reads_queue_first(job, out, G):
    return True


def ens_delete_branch_archives_first(job, out, G):
    # success path: the archive tag was pushed before the branch was deleted
    return implies(out.raised(X.JobSuccess),
                   any(e[0] == 'tag_push' for e in G.trace))


def version_queued(job):
    raise NotImplementedError


def _s_version_queued(I, job):
    nm = I.term_of(I.get_attr(I.get_attr(job, 'settings'), 'branch'))
    return SBool(smt.App('qc.has_version_queued', [smt.App('Br.version_t', [nm], smt.REF)], smt.BOOL))


def branch_class(job):
    raise NotImplementedError


def _s_branch_class(I, job):
    return SStr(smt.App('gwf.class', [I.term_of(I.get_attr(I.get_attr(job, 'settings'), 'branch'))], smt.STR))


def branch_version(job):
    raise NotImplementedError


def _s_branch_version(I, job):
    return SStr(smt.App('Br.version', [I.term_of(I.get_attr(I.get_attr(job, 'settings'), 'branch'))], smt.STR))


def ens_delete_branch_refuses_queued(job, out, G):
    # never deletes a branch that still has queued pull requests
    return implies(bool(job.settings.use_queue) and version_queued(job), not out.raised(X.JobSuccess))


def ens_delete_branch_refuses_live_stabilization(job, out, G):
    live = any(b.startswith('stabilization/' + branch_version(job)) for b in G.remote_names)
    return implies(branch_class(job) == 'DevelopmentBranch' and live, not out.raised(X.JobSuccess))


def ens_delete_branch_only_destinations(job, out, G):
    return implies(out.raised(X.JobSuccess),
                   branch_class(job) in ('DevelopmentBranch', 'StabilizationBranch', 'HotfixBranch')
                   and job.settings.branch in G.remote_names)


def ens_force_merge(job, out, G):
    return implies(bool(job.settings.use_queue),
                   len(G.trace) == 1 and G.trace[0] == ('handle_merge_queues', True))


def ghost_defaults(I, args):
    I.ghost['last_failed'] = False
    I.ghost['version_has_queued'] = False


def wrap(setup):
    def s(I, args):
        setup(I, args)
        ghost_defaults(I, args)
    return s


def contracts(env):
    a = {'job': 'AdminJob'}
    common = [('refusal_leaves_the_remote_untouched', ens_refusal_leaves_remote_untouched),
              ('only_documented_outcomes', ens_outcomes)]
    cs = [
        Contract('bert_e.jobs.delete_queues:delete_queues', args=a, setup=wrap(setup_for('delete_queues')),
                 ensures=common + [('needs_queues_enabled', ens_queue_jobs_need_queues),
                                   ('deletions_published_by_one_pruning_push', ens_delete_queues_success),
                                   ('never_aborts_on_well_formed_queue_names',
                                    ens_queue_jobs_never_abort_on_well_formed_queues)],
                 covers=['raise:NotMyJob', 'raise:JobSuccess']),
        Contract('bert_e.jobs.rebuild_queues:rebuild_queues', args=a, setup=wrap(setup_for('rebuild_queues')),
                 ensures=common + [('needs_queues_enabled', ens_queue_jobs_need_queues),
                                   ('never_aborts_on_well_formed_queue_names',
                                    ens_queue_jobs_never_abort_on_well_formed_queues)],
                 covers=['raise:NotMyJob', 'raise:JobSuccess']),
        Contract('bert_e.jobs.force_merge_queues:force_merge_queues', args=a,
                 setup=wrap(setup_for('force_merge')),
                 ensures=common + [('needs_queues_enabled', ens_queue_jobs_need_queues),
                                   ('forces_the_queue_merge', ens_force_merge)],
                 covers=['raise:NotMyJob', 'raise:Merged']),
        Contract('bert_e.jobs.delete_branch:delete_branch', args=a, setup=wrap(setup_for('delete_branch')),
                 ensures=common + [('archive_tag_pushed_before_deletion', ens_delete_branch_archives_first),
                                   ('refuses_while_pull_requests_are_queued', ens_delete_branch_refuses_queued),
                                   ('refuses_with_a_live_stabilization_branch', ens_delete_branch_refuses_live_stabilization),
                                   ('deletes_only_existing_destination_branches', ens_delete_branch_only_destinations)],
                 covers=['raise:JobFailure', 'raise:NothingToDo', 'raise:JobSuccess']),
        Contract('bert_e.jobs.create_branch:create_branch', args=a, setup=wrap(setup_for('create_branch')),
                 ensures=common,
                 covers=['raise:JobFailure', 'raise:NothingToDo', 'raise:JobSuccess']),
    ]
    return cs


def extra(rep, tier, seed, budget):
    from pyvc import cli as _cli
    from specs import c01 as _m01
    _e01 = _m01.base_env()
    for _c in _m01.contracts(_e01):
        if 'BranchCascade.validate' in _c.label:
            _c.label = _c.label + ' [C20 cascade validation used by create_branch]'
            _cli.handle_function(rep, _m01, _e01, _c, budget, _cli.load_lock().get('C20', {}))
    rep.trusted.extend(_e01.trusted)
    # create_branch orders development branches with DevelopmentBranch.__lt__ (contract of C09); rebuild re-submits
    # QueueCollection.queued_prs (bounded: clause d of bounded/c05_queue.py)
    from pyvc import cli as _cli
    from specs import c09 as _c09
    _e09 = _c09.base_env()
    for _c in _c09.contracts(_e09):
        if 'DevelopmentBranch' in _c.label:
            _c.label = _c.label + ' [C20 ordering used by create_branch]'
            _cli.handle_function(rep, _c09, _e09, _c, budget, _cli.load_lock().get('C20', {}))
    from bounded import c05_queue as _q
    from specs import c05 as _c05
    _c05.integrate(rep, _q.run(tier, seed), clauses=('d',))


META = {
    'level': 'other',
    'explanation': 'Contracts over a ghost effect trace: every refusal (JobFailure / NothingToDo / NotMyJob) is '
                   'raised before any remote mutation (or right after a failed one), queue jobs delete and prune '
                   'only q/ branches, rebuild re-submits exactly the pull requests read before the deletion in '
                   'order, delete_branch pushes the archive tag before deleting and deletes nothing foreign, '
                   'create_branch publishes only after all checks and the cascade validation of the local clone '
                   'including the new branch. The git/host primitives are an assumed model: level other.',
    'assumptions': [
        'git primitives and the git host follow the trusted model of specs/gitmodel.py (DESIGN.md section 4)',
        'BranchCascade.validate on the local clone is what establishes C01 for the new branch (its own contract: C01)',
        'QueueCollection.queued_prs / has_version_queued_prs answer for the state read at clone time (C05 bounded)',
        'over-refusals noted in DESIGN.md (stabilization prefix test, empty queues) are not violations',
    ],
    'trusted_base': [],
}
