"""C01 - forward-port inclusion of destination branches is an invariant.

Ghost ancestry model (trusted git semantics, stated in META): the local clone is a map
    R : branch name -> set of commits reachable from that branch
and `a is included in b` is R[a] <= R[b].  git merge (no conflict) replaces R[dst] by
R[dst] | R[src...] | N with N a set of new merge commits, N empty for a single source
when the merge is a fast-forward or a no-op; `git checkout -b` copies an entry; a
failed merge changes nothing.  Over that model, function by function on the REAL code:

  octopus_merge / consecutive_merge / robust_merge : on return dst includes its old self
      and both sources, nothing but dst (and tmp/ scratch branches) changed;
  merge_integration_branches : on return (= at the atomic push) every target includes the
      previous target, targets only grew, nothing else moved  -> the chain is preserved;
  add_to_queue (1..3 targets) : q/<v+1> includes q/<v>, each q/w/<pr>/<v> equals its q/<v>,
      every q/<v> includes development/<v>; destination branches untouched;
  QueueCollection._horizontal_validation : silence implies every queue branch of the
      version includes its destination branch and the next older queue branch;
  merge_queues : given validated queues (that postcondition) whose newest selected
      entries are nested across versions, destinations are fast-forwarded and stay nested;
  BranchCascade.validate : silence implies stabilization <= development <= next development.
The step from these per-function facts to "holds after every event of every history"
is the bounded stand-in bounded/system_histories.py (clause C01_inclusion) on the real
system; it is labelled bounded and not counted as proved.
"""
from pyvc import smt
from pyvc.env import Contract
from pyvc.interp import TargetExc
from pyvc.values import *  # noqa
from specs import gitmodel, handlers
from specs.gitmodel import emit, name_of, br
from specs.handlers import setup_common, havoc_local
from specs.intrinsics import old
from bert_e import exceptions as X
from bert_e.lib import git as GIT
from bert_e.workflow import git_utils as GU
from bert_e.workflow.gitwaterflow import branches as B, integration as INT_, queueing as Q

PROPERTY = 'C01'
STR, BOOL, INT = smt.STR, smt.BOOL, smt.INT
# commit sets are an ABSTRACT join-semilattice (sort CommitSet with leq / join / bot and the
# semilattice axioms): every algebra of sets is one, so what is proved here holds for real sets
CSET = 'CommitSet'
RSORT = smt.ArrS(STR, CSET)
BOT = smt.App('cs.bot', [], CSET)


def leq(a, b):
    return smt.App('cs.leq', [a, b], BOOL)


def join(a, b):
    return smt.App('cs.join', [a, b], CSET)


def semilattice_axioms():
    a, b, c = smt.fresh_bound('a', CSET), smt.fresh_bound('b', CSET), smt.fresh_bound('c', CSET)
    return [
        smt.ForAll([a], leq(a, a)),
        smt.ForAll([a, b, c], smt.Implies(smt.And(leq(a, b), leq(b, c)), leq(a, c))),
        smt.ForAll([a, b], smt.And(leq(a, join(a, b)), leq(b, join(a, b)))),
        smt.ForAll([a, b, c], smt.Implies(smt.And(leq(a, c), leq(b, c)), leq(join(a, b), c))),
        smt.ForAll([a, b], smt.Implies(smt.And(leq(a, b), leq(b, a)), smt.Eq(a, b))),
        smt.ForAll([a], leq(BOT, a)),
    ]
MIB = 'bert_e.workflow.gitwaterflow.integration:merge_integration_branches'
ATQ = 'bert_e.workflow.gitwaterflow.queueing:add_to_queue'
MQ = 'bert_e.workflow.gitwaterflow.queueing:merge_queues'
HV = 'bert_e.workflow.gitwaterflow.branches:QueueCollection._horizontal_validation'


# ---------------------------------------------------------------- spec vocabulary
def incl(Ra, a, Rb, b):
    """every commit reachable from a (in state Ra) is reachable from b (in state Rb)"""
    return Ra[a] <= Rb[b]


def same(Ra, Rb, x):
    return Ra[x] == Rb[x]


def unchanged_except(Ra, Rb, names, prefixes=(), dst_of=None):
    """every branch whose name is not listed, does not start with one of the prefixes and is not the
    destination branch of one of `dst_of` reaches the same commits in both states"""
    raise NotImplementedError('symbolic only')


def _nm(I, x):
    if isinstance(x, SOpt):
        x = x.val
    if isinstance(x, SRef):
        return x.t
    return I.term_of(x)


def equal(Ra, a, Rb, b):
    return Ra[a] == Rb[b]


def later(a, b):
    """b is a later destination branch than a on a common merge path (C09 orders them)"""
    raise NotImplementedError('symbolic only')


def _s_equal(I, Ra, a, Rb, b):
    return I.as_bool_value(smt.Eq(smt.Select(Ra.t, _nm(I, a)), smt.Select(Rb.t, _nm(I, b))))


def _s_later(I, a, b):
    return I.as_bool_value(smt.App('gwf.later', [_nm(I, a), _nm(I, b)], BOOL))


def _s_incl(I, Ra, a, Rb, b):
    return I.as_bool_value(leq(smt.Select(Ra.t, _nm(I, a)), smt.Select(Rb.t, _nm(I, b))))


def _s_same(I, Ra, Rb, x):
    return I.as_bool_value(smt.Eq(smt.Select(Ra.t, _nm(I, x)), smt.Select(Rb.t, _nm(I, x))))


def _s_unchanged_except(I, Ra, Rb, names, prefixes=(), dst_of=None):
    x = smt.fresh_bound('x', STR)
    conds = []
    items = I.concrete_items(names)
    if items is not None:
        conds += [smt.Not(smt.Eq(x, _nm(I, n))) for n in items]
    else:
        sv = I.seq_value(names)
        i = smt.fresh_bound('i', INT)
        conds.append(smt.Not(smt.Exists([i], smt.And(smt.Le(smt.IntC(0), i), smt.Lt(i, smt.SeqLen(sv.t)),
                                                      smt.Eq(smt.SeqNth(sv.t, i), x)))))
    for p in prefixes:
        conds.append(smt.Not(smt.StrPrefixOf(smt.StrC(p), x)))
    ditems = I.concrete_items(dst_of) if dst_of is not None else None
    if ditems is not None:
        conds += [smt.Not(smt.Eq(x, smt.App('Br.dst_branch', [_nm(I, w)], STR))) for w in ditems]
    elif dst_of is not None:
        sv = I.seq_value(dst_of)
        i = smt.fresh_bound('i', INT)
        conds.append(smt.Not(smt.Exists([i], smt.And(
            smt.Le(smt.IntC(0), i), smt.Lt(i, smt.SeqLen(sv.t)),
            smt.Eq(smt.App('Br.dst_branch', [smt.SeqNth(sv.t, i)], STR), x)))))
    return I.as_bool_value(smt.ForAll([x], smt.Implies(smt.And(*conds),
                                                        smt.Eq(smt.Select(Rb.t, x), smt.Select(Ra.t, x)))))


# ---------------------------------------------------------------- the ancestry layer of the git model
def install_ancestry(env):
    env.intrinsics[incl] = _s_incl
    env.intrinsics[same] = _s_same
    env.intrinsics[equal] = _s_equal
    env.intrinsics[later] = _s_later
    env.intrinsics[unchanged_except] = _s_unchanged_except

    def reach(I, x):
        return smt.Select(I.ghost['R'], _nm(I, x))

    def setR(I, name_t, value):
        I.ghost['R'] = smt.Store(I.ghost['R'], name_t, value)
        I.ghost['lv'] += 1

    @env.model('Br', 'merge', trusted='git merge: no conflict -> dst reaches old dst, the sources and new merge '
                                      'commits (none for a single-source fast-forward or no-op); conflict -> '
                                      'MergeFailedException, refs unchanged')
    def b_merge(I, self, *sources, **kw):
        if I.choose(None, 'merge conflict'):
            raise TargetExc(I.make_exception(GIT.MergeFailedException, [], {}))
        cur = reach(I, self)
        u = cur
        for s in sources:
            u = join(u, reach(I, s))
        new = I.fresh_term('merge_commits', CSET, False)
        if len(sources) == 1 and not kw.get('force_commit'):
            # (--no-ff, i.e. force_commit=True, always creates a commit)
            rs = reach(I, sources[0])
            I.assume(smt.Implies(smt.Or(leq(cur, rs), leq(rs, cur)), smt.Eq(new, BOT)))
        emit(I, 'merge', self, tuple(sources))
        setR(I, _nm(I, self), join(u, new))
        if kw.get('do_push'):
            emit(I, 'push', (self,))

    @env.model('Br', 'create', trusted='git checkout -b name source: the new local ref points at source')
    def b_create(I, self, source, do_push=True):
        emit(I, 'create_local', name_of(I, self), source)
        setR(I, _nm(I, self), reach(I, source))
        if do_push:
            emit(I, 'push', (self,))

    env.model('Br', 'reset', trusted='git reset --hard <the checked-out branch itself>: aborts a merge, no ref moves')(
        lambda I, self, *a, **k: emit(I, 'reset_local', self))
    env.model('Br', 'differs', trusted='git diff --quiet: any answer')(
        lambda I, self, other: SBool(I.fresh_term('differs', BOOL, False)))
    def b_includes(I, self, c):
        rc = c.t if isinstance(c, SOpaque) and c.t.sort == CSET else reach(I, c)
        return SBool(leq(rc, reach(I, self)))
    env.model('Br', 'includes_commit', trusted='git merge-base --is-ancestor a b == (R[a] <= R[b]) for branch tips')(
        b_includes)
    env.model('Br', 'get_latest_commit', trusted='git rev-parse: equal tips reach the same commits')(
        lambda I, self: SOpaque(reach(I, self), 'tip'))


def exists_term(I, name_t):
    """does the local branch exist now: existed at entry, then the creations / deletions of this run in order"""
    e = smt.App('local.exists0', [name_t], BOOL)
    for kind, t in I.ghost.get('ref_log', ()):
        e = smt.Or(e, smt.Eq(name_t, t)) if kind == 'create' else smt.And(e, smt.Not(smt.Eq(name_t, t)))
    return e


def on_event(I, ev):
    handlers.on_event(I, ev)
    if ev[0] == 'create_local':
        I.ghost['ref_log'] = I.ghost.get('ref_log', ()) + (('create', I.term_of(ev[1])),)
    elif ev[0] == 'delete_local':
        I.ghost['ref_log'] = I.ghost.get('ref_log', ()) + (('delete', I.term_of(ev[1])),)


def havoc_R(I, fr):
    I.ghost['R'] = I.fresh_term('R@loop', RSORT, False)
    I.ghost['lv'] += 1


def base_env():
    env = handlers.base_env(PROPERTY)
    install_ancestry(env)
    env.split_goals = True
    # refutation only: commit sets as subsets of a 4-commit universe (a genuine set algebra)
    env.interp = {'sorts': {'CommitSet': '(_ BitVec 4)'}, 'funs': {
        'cs.leq': '(define-fun cs.leq ((a CommitSet) (b CommitSet)) Bool (= (bvand a (bvnot b)) #x0))',
        'cs.join': '(define-fun cs.join ((a CommitSet) (b CommitSet)) CommitSet (bvor a b))',
        'cs.bot': '(define-fun cs.bot () CommitSet #x0)'}}
    env.allow_inline(Q.get_queue_branch, Q.get_queue_integration_branch)
    env.on_event = on_event
    env.model('Br', 'exists', trusted='Branch.exists(): the local ref exists (entry state + creations/deletions so far)')(
        lambda I, self: SBool(exists_term(I, _nm(I, self))))
    env.loop(MIB, 0, inv_mib, havoc=[havoc_local, havoc_R], top_level=True)
    env.loop(MIB, 1, None, havoc=[havoc_local])
    return env


def c01_setup(I, args):
    setup_common(I, args)
    I.ghost['R'] = I.fresh_term('R', RSORT, True)
    for ax in semilattice_axioms():
        I.assume(ax)


# ---------------------------------------------------------------- the three merge helpers (git_utils)
def merge_effect(I, loc, oc):
    havoc_R(I, None)


def no_tmp(*bs):
    return all(not b.name.startswith('tmp/') for b in bs)


def req_robust(dst, src1, src2):
    return no_tmp(dst, src1, src2)


def ens_merged(dst, src1, src2, out, G):
    return not out.returned or (incl(old(G.R), dst, G.R, dst) and incl(old(G.R), src1, G.R, dst)
                                and incl(old(G.R), src2, G.R, dst))


def ens_frame_dst(dst, src1, src2, out, G):
    return unchanged_except(old(G.R), G.R, [dst])


def ens_frame_dst_tmp(dst, src1, src2, out, G):
    return unchanged_except(old(G.R), G.R, [dst], ('tmp/',))


def ens_failed_unchanged(dst, src1, src2, out, G):
    return out.returned or same(old(G.R), G.R, dst)


def ens_failed_grew(dst, src1, src2, out, G):
    return out.returned or incl(old(G.R), dst, G.R, dst)


def ens_only_merge_failure(dst, src1, src2, out, G):
    return out.returned or out.raised(GIT.MergeFailedException)


def merge_contracts(env):
    a3 = {'dst': 'Br', 'src1': 'Br', 'src2': 'Br'}
    out = ['return', GIT.MergeFailedException]
    octo = Contract('bert_e.workflow.git_utils:octopus_merge', args=a3, setup=c01_setup, outcomes=out,
                    effect=merge_effect,
                    ensures=[('dst_includes_old_dst_and_both_sources', ens_merged),
                             ('only_dst_moves', ens_frame_dst),
                             ('a_conflict_leaves_dst_unchanged', ens_failed_unchanged),
                             ('fails_only_with_MergeFailedException', ens_only_merge_failure)],
                    covers=['return', 'raise:MergeFailedException'])
    cons = Contract('bert_e.workflow.git_utils:consecutive_merge', args=a3, setup=c01_setup, outcomes=out,
                    effect=merge_effect,
                    ensures=[('dst_includes_old_dst_and_both_sources', ens_merged),
                             ('only_dst_moves', ens_frame_dst),
                             ('a_conflict_never_loses_commits_of_dst', ens_failed_grew),
                             ('fails_only_with_MergeFailedException', ens_only_merge_failure)],
                    covers=['return', 'raise:MergeFailedException'])
    rob = Contract('bert_e.workflow.git_utils:robust_merge', args=a3, setup=c01_setup, outcomes=out,
                   effect=merge_effect, requires=req_robust,
                   ensures=[('dst_includes_old_dst_and_both_sources', ens_merged),
                            ('only_dst_and_scratch_branches_move', ens_frame_dst_tmp),
                            ('a_conflict_never_loses_commits_of_dst', ens_failed_grew),
                            ('fails_only_with_MergeFailedException', ens_only_merge_failure)],
                   covers=['return', 'raise:MergeFailedException'])
    for c in (octo, cons, rob):
        env.contracts[c.fn] = c
    return [octo, cons, rob]


# ---------------------------------------------------------------- merge_integration_branches
def dst(w):
    return w.dst_branch


def mib_setup(I, args):
    c01_setup(I, args)
    wb = I.seq_value(args['wbranches']).t
    i, j = smt.fresh_bound('i', INT), smt.fresh_bound('j', INT)
    d = lambda t: smt.App('Br.dst_branch', [t], STR)  # noqa: E731
    rng = lambda v: smt.And(smt.Le(smt.IntC(0), v), smt.Lt(v, smt.SeqLen(wb)))  # noqa: E731
    I.assume(smt.Ge(smt.SeqLen(wb), smt.IntC(1)))
    # the targets of a pull request are distinct destination branches (C09); integration branches are the
    # source branch followed by w/ branches (C19); no destination or source branch is named tmp/...
    I.assume(smt.ForAll([i, j], smt.Implies(smt.And(rng(i), rng(j), smt.Not(smt.Eq(i, j))),
                                            smt.Not(smt.Eq(d(smt.SeqNth(wb, i)), d(smt.SeqNth(wb, j)))))))
    I.assume(smt.ForAll([i, j], smt.Implies(smt.And(rng(i), rng(j)),
                                            smt.Not(smt.Eq(smt.SeqNth(wb, i), d(smt.SeqNth(wb, j)))))))
    I.assume(smt.ForAll([i], smt.Implies(smt.And(smt.Le(smt.IntC(1), i), smt.Lt(i, smt.SeqLen(wb))),
                                         smt.StrPrefixOf(smt.StrC('w/'), smt.SeqNth(wb, i)))))
    I.assume(smt.ForAll([i], smt.Implies(rng(i), smt.And(
        smt.Not(smt.StrPrefixOf(smt.StrC('tmp/'), smt.SeqNth(wb, i))),
        smt.Not(smt.StrPrefixOf(smt.StrC('tmp/'), d(smt.SeqNth(wb, i))))))))


def mib_setup_for(k):
    """the same contract on a pull request with exactly k targets: the loop is unrolled, the obligations
    are quantifier-free and a broken body is refuted with a concrete instance instead of left undecided"""
    def setup(I, args):
        c01_setup(I, args)
        wbs = [br(I, I.fresh('wbranch%d' % i, 'str')) for i in range(k)]
        args['wbranches'] = I.alloc_list(tuple(wbs))
        d = lambda w: smt.App('Br.dst_branch', [w.t], STR)  # noqa: E731
        for i, w in enumerate(wbs):
            I.assume(smt.Not(smt.StrPrefixOf(smt.StrC('tmp/'), w.t)))
            I.assume(smt.Not(smt.StrPrefixOf(smt.StrC('tmp/'), d(w))))
            if i >= 1:
                I.assume(smt.StrPrefixOf(smt.StrC('w/'), w.t))
            for j, w2 in enumerate(wbs):
                I.assume(smt.Not(smt.Eq(w.t, d(w2))))
                if j < i:
                    I.assume(smt.Not(smt.Eq(d(w), d(w2))))
    return setup


def inv_mib(wbranches, _i, G, prev=None):
    # _i children processed: prev (when the code has it) is the last processed integration branch
    return ((prev is None or prev == wbranches[_i])
            and all(incl(old(G.R), dst(wbranches[j]), G.R, dst(wbranches[j]))
                    and incl(old(G.R), wbranches[j], G.R, dst(wbranches[j])) for j in range(_i + 1))
            and all(incl(G.R, dst(wbranches[j]), G.R, dst(wbranches[j + 1])) for j in range(_i))
            and all(same(old(G.R), G.R, dst(wbranches[j])) for j in range(_i + 1, len(wbranches)))
            and unchanged_except(old(G.R), G.R, [], ('tmp/',), wbranches))


def ens_mib_chain(job, wbranches, out, G):
    return not out.returned or all(incl(G.R, dst(wbranches[j]), G.R, dst(wbranches[j + 1]))
                                   for j in range(len(wbranches) - 1))


def ens_mib_growth(job, wbranches, out, G):
    return not out.returned or all(incl(old(G.R), dst(wbranches[j]), G.R, dst(wbranches[j]))
                                   and incl(old(G.R), wbranches[j], G.R, dst(wbranches[j]))
                                   for j in range(len(wbranches)))


def ens_mib_frame(job, wbranches, out, G):
    return not out.returned or unchanged_except(old(G.R), G.R, [], ('tmp/',), wbranches)


# ---------------------------------------------------------------- add_to_queue (1..3 targets)
def qname(d):
    return 'q/{}'.format(d.version)


def qiname(job, w):
    dsts = job.git.cascade.dst_branches
    ver = dsts[0].version if (len(dsts) == 1 and dsts[0].hfrev > 0) else w.version
    return 'q/w/{}/{}/{}'.format(job.pull_request.id, ver, job.pull_request.src_branch)


def atq_setup_for(k):
    def setup(I, args):
        c01_setup(I, args)
        I.ghost['ref_log'] = ()
        job = args['job']
        wbs = [br(I, I.fresh('wbranch%d' % i, 'str')) for i in range(k)]
        args['wbranches'] = I.alloc_list(tuple(wbs))
        d = lambda w: smt.App('Br.dst_branch', [w.t], STR)  # noqa: E731
        ver = lambda t: smt.App('Br.version', [t], STR)  # noqa: E731
        casc = I.get_attr(I.get_attr(job, 'git'), 'cascade')
        I.set_attr(casc, 'dst_branches', I.alloc_list(tuple(SRef(d(w), 'Br') for w in wbs)))
        R = I.ghost['R']
        for i, w in enumerate(wbs):
            q = smt.StrConcat(smt.StrC('q/'), ver(d(w)))
            # names (C18): versions are dotted numbers, destination / integration branches are not q/ or tmp/
            for t in (w.t, d(w)):
                I.assume(smt.Not(smt.StrPrefixOf(smt.StrC('tmp/'), t)))
                I.assume(smt.Not(smt.StrPrefixOf(smt.StrC('q/'), t)))
            for t in (ver(d(w)), ver(w.t)):
                I.assume(smt.Not(smt.StrPrefixOf(smt.StrC('w/'), t)))
            # a queue that exists was validated: q/<v> includes development/<v> (QueueCollection.validate)
            I.assume(smt.Implies(smt.App('local.exists0', [q], BOOL), leq(smt.Select(R, d(w)), smt.Select(R, q))))
            for j in range(i):
                I.assume(smt.Not(smt.Eq(d(w), d(wbs[j]))))
                I.assume(smt.Not(smt.Eq(ver(d(w)), ver(d(wbs[j])))))
                I.assume(smt.Not(smt.Eq(ver(w.t), ver(wbs[j].t))))
    return setup


def ens_atq_chain(job, wbranches, out, G):
    return not out.returned or all(incl(G.R, qname(dst(wbranches[j])), G.R, qname(dst(wbranches[j + 1])))
                                   for j in range(len(wbranches) - 1))


def ens_atq_entries(job, wbranches, out, G):
    # the pull request's queue entry on each version is the queue of that version, which includes the
    # destination branch and the integration branch
    return not out.returned or all(
        incl(G.R, qiname(job, w), G.R, qname(dst(w))) and incl(G.R, qname(dst(w)), G.R, qiname(job, w))
        and incl(old(G.R), w, G.R, qname(dst(w))) and incl(old(G.R), dst(w), G.R, qname(dst(w)))
        for w in wbranches)


def ens_atq_frame(job, wbranches, out, G):
    return unchanged_except(old(G.R), G.R, [qname(dst(w)) for w in wbranches] + [qiname(job, w) for w in wbranches],
                            ('tmp/',))


# ---------------------------------------------------------------- QueueCollection._horizontal_validation
def install_queue_objects(env):
    env.add_class('QEntry', kind='ref', fields={'qbranch': 'opt[Br]', 'qints': 'seq[Br]'},
                  items={B.QueueBranch: 'qbranch', B.QueueIntegrationBranch: 'qints'})
    env.add_class('MEntry', kind='ref', fields={'qbranch': 'Br', 'qints': 'seq[Br]'},
                  items={B.QueueBranch: 'qbranch', B.QueueIntegrationBranch: 'qints'})
    env.add_class('QueuesMap', fields={})
    env.add_class('QCObj', pyclass=B.QueueCollection, fields={'_queues': 'QueuesMap'})
    env.model('QueuesMap', '__getitem__', trusted='self._queues[version]: the entry of that version')(
        lambda I, self, version: I.ghost['entry'])
    for name in ('MasterQueueMissing', 'MasterQueueLateVsDev', 'MasterQueueNotInSync', 'MasterQueueLateVsInt',
                 'MasterQueueYoungerThanInt', 'MasterQueueDiverged', 'QueueInclusionIssue'):
        env.ctors[getattr(X, name)] = lambda I, cls, *a: I.alloc_obj(None, 'QErr', {})
    env.add_class('QErr', fields={})
    env.yield_specs[HV] = lambda elem: True
    env.loop(HV, 0, inv_hv, havoc=[havoc_yields])


def havoc_yields(I, fr):
    I.ghost['yields'] = I.fresh('yields@loop', 'int', is_input=False)


def hv_setup(I, args):
    c01_setup(I, args)
    I.ghost['yields'] = SInt(smt.IntC(0))
    I.ghost['entry'] = I.fresh('entry', 'QEntry')


def hv_setup_small(I, args):
    """one version with a master queue and two entries: quantifier-free variant (refutation power)"""
    hv_setup(I, args)
    r = I.ghost['entry']
    I.set_attr(r, 'qbranch', br(I, I.fresh('masterq', 'str')))
    I.set_attr(r, 'qints', I.alloc_list(tuple(br(I, I.fresh('intq%d' % j, 'str')) for j in range(2))))


def cv_setup_small(I, args):
    """three cascade entries, each with a development branch and an optional stabilization branch"""
    c01_setup(I, args)
    items = []
    for k in range(3):
        it = I.fresh('centry%d' % k, 'CItem')
        I.assume(smt.Not(smt.App('BSet.dev?none', [smt.App('CItem.bset', [it.t], smt.REF)], BOOL)))
        items.append(it)
    I.ghost['citems'] = I.alloc_list(tuple(items))


def nested(R, masterq, seq, n):
    """the first n entries are nested: seq[0] <= masterq, seq[j+1] <= seq[j]"""
    return ((n == 0 or incl(R, seq[0], R, masterq))
            and all(incl(R, seq[j + 1], R, seq[j]) for j in range(n - 1)))


def inv_hv(self, version, masterq, nextq, _i, _seq, G):
    # silent so far: the master queue includes the destination and the visited entries are nested
    return (G.yields >= 0 and ((_i == 0 and nextq == masterq) or (_i > 0 and nextq == _seq[_i - 1]))
            and (G.yields != 0 or (incl(G.R, dst(masterq), G.R, masterq) and nested(G.R, masterq, _seq, _i))))


def ens_hv_silent_means_nested(self, version, out, G):
    e = G.entry
    n = len(e.qints)
    return G.yields != 0 or (
        e.qbranch is not None
        and incl(G.R, dst(e.qbranch), G.R, e.qbranch)
        and nested(G.R, e.qbranch, e.qints, n)
        and (n == 0 or incl(G.R, dst(e.qbranch), G.R, e.qints[n - 1])))


def ens_hv_readonly(self, version, out, G):
    return out.returned and same_all(old(G.R), G.R)


def same_all(Ra, Rb):
    return unchanged_except(Ra, Rb, [])


# ---------------------------------------------------------------- merge_queues
def edst(e):
    return e.qbranch.dst_branch


def mq_setup(I, args):
    c01_setup(I, args)
    I.ghost['ref_log'] = ()
    E = I.fresh('mergeable_queues', 'fseq[MEntry]')
    I.ghost['entries'] = E
    args['queues'] = I.alloc_obj(None, 'QueuesMap', {})
    e, f, j = smt.fresh_bound('e', INT), smt.fresh_bound('f', INT), smt.fresh_bound('j', INT)
    ent = lambda v: smt.SeqNth(E.t, v)  # noqa: E731
    rng = lambda v: smt.And(smt.Le(smt.IntC(0), v), smt.Lt(v, smt.SeqLen(E.t)))  # noqa: E731
    qb = lambda v: smt.App('MEntry.qbranch', [ent(v)], STR)  # noqa: E731
    qi = lambda v: smt.App('MEntry.qints', [ent(v)], smt.SeqS(STR))  # noqa: E731
    d = lambda v: smt.App('Br.dst_branch', [qb(v)], STR)  # noqa: E731
    # names (C18): q/ and q/w/ branches, destinations are neither q/ nor tmp/; one entry per destination
    I.assume(smt.ForAll([e, j], smt.Implies(smt.And(rng(e), smt.Le(smt.IntC(0), j), smt.Lt(j, smt.SeqLen(qi(e)))),
                                            smt.StrPrefixOf(smt.StrC('q/w/'), smt.SeqNth(qi(e), j)))))
    I.assume(smt.ForAll([e], smt.Implies(rng(e), smt.And(
        smt.Not(smt.StrPrefixOf(smt.StrC('q/'), d(e))), smt.Not(smt.StrPrefixOf(smt.StrC('tmp/'), d(e)))))))
    I.assume(smt.ForAll([e, f], smt.Implies(smt.And(rng(e), rng(f), smt.Not(smt.Eq(e, f))),
                                            smt.Not(smt.Eq(d(e), d(f))))))


def mq_setup_small(I, args):
    """two versions, two listed entries each: quantifier-free variant (refutation power, see mib_setup_for)"""
    c01_setup(I, args)
    I.ghost['ref_log'] = ()
    ents = []
    for e in range(2):
        r = I.fresh('entry%d' % e, 'MEntry')
        qi = tuple(br(I, I.fresh('entry%d_q%d' % (e, j), 'str')) for j in range(2))
        I.set_attr(r, 'qints', I.alloc_list(qi))
        ents.append((r, qi))
    I.ghost['entries'] = I.alloc_list(tuple(r for r, _ in ents))
    args['queues'] = I.alloc_obj(None, 'QueuesMap', {})
    d = lambda r: smt.App('Br.dst_branch', [smt.App('MEntry.qbranch', [r.t], STR)], STR)  # noqa: E731
    for r, qi in ents:
        for q in qi:
            I.assume(smt.StrPrefixOf(smt.StrC('q/w/'), q.t))
        I.assume(smt.Not(smt.StrPrefixOf(smt.StrC('q/'), d(r))))
        I.assume(smt.Not(smt.StrPrefixOf(smt.StrC('tmp/'), d(r))))
    I.assume(smt.Not(smt.Eq(d(ents[0][0]), d(ents[1][0]))))
    # listed entries of a version are distinct and nested, newest first (horizontal validation)
    R = I.ghost['R']
    for r, qi in ents:
        I.assume(smt.Not(smt.Eq(qi[0].t, qi[1].t)))
        I.assume(leq(smt.Select(R, qi[1].t), smt.Select(R, qi[0].t)))


def nonempty(e):
    return len(e.qints) > 0


def req_mq(queues, G):
    E = G.entries
    R = G.R
    n = len(E)
    return (
        # QueueCollection.validate (contract of _horizontal_validation above): the selected entry of a version
        # includes the destination branch, so the merge is a fast-forward
        all(not nonempty(E[e]) or incl(R, edst(E[e]), R, E[e].qints[0]) for e in range(n))
        # destinations were nested before the event
        and all(all(not later(edst(E[e]), edst(E[f])) or incl(R, edst(E[e]), R, edst(E[f])) for f in range(n))
                for e in range(n))
        # ASSUMED contract of QueueCollection.mergeable_queues (vertical validation + selection; decided only by
        # the bounded stand-in bounded/c05_queue.py, clause b): what is selected on a version is selected on
        # every later version, and the selected entries are nested across versions (add_to_queue above)
        and all(all(not (later(edst(E[e]), edst(E[f])) and nonempty(E[e]))
                    or (nonempty(E[f]) and incl(R, E[e].qints[0], R, E[f].qints[0])) for f in range(n))
                for e in range(n)))


def inv_mq(_i, _seq, G):
    E = G.entries
    return (len(_seq) == len(E)
            and all(not (e < _i and nonempty(E[e])) or equal(G.R, edst(E[e]), old(G.R), E[e].qints[0])
                    for e in range(len(E)))
            and all((e < _i and nonempty(E[e])) or equal(G.R, edst(E[e]), old(G.R), edst(E[e]))
                    for e in range(len(E)))
            and unchanged_except(old(G.R), G.R, [edst(E[e]) for e in range(len(E))]))


def ens_mq_chain(queues, out, G):
    E = G.entries
    n = len(E)
    return not out.returned or all(all(not later(edst(E[e]), edst(E[f])) or incl(G.R, edst(E[e]), G.R, edst(E[f]))
                                       for f in range(n)) for e in range(n))


def ens_mq_moves(queues, out, G):
    E = G.entries
    return not out.returned or (
        all(not nonempty(E[e]) or equal(G.R, edst(E[e]), old(G.R), E[e].qints[0]) for e in range(len(E)))
        and all(nonempty(E[e]) or equal(G.R, edst(E[e]), old(G.R), edst(E[e])) for e in range(len(E)))
        and unchanged_except(old(G.R), G.R, [edst(E[e]) for e in range(len(E))]))


# ---------------------------------------------------------------- BranchCascade.validate
CV = 'bert_e.workflow.gitwaterflow.branches:BranchCascade.validate'


def install_cascade_objects(env):
    env.add_class('VKey', kind='ref', fields={'major': 'int', 'minor': 'opt[int]'}, unpack=('major', 'minor'))
    env.add_class('BSet', kind='ref', fields={'dev': 'opt[Br]', 'stb': 'opt[Br]', 'hf': 'opt[Br]'},
                  items={B.DevelopmentBranch: 'dev', B.StabilizationBranch: 'stb', B.HotfixBranch: 'hf'})
    env.add_class('CItem', kind='ref', fields={'key': 'VKey', 'bset': 'BSet'}, unpack=('key', 'bset'))
    env.add_class('CascMap', fields={})
    env.add_class('CascObj', pyclass=B.BranchCascade, fields={'_cascade': 'CascMap'})
    env.model('CascMap', 'items', trusted='self._cascade.items(): the (major, minor) entries in cascade order')(
        lambda I, self: I.ghost['citems'])
    for name in ('DevBranchDoesNotExist', 'VersionMismatch', 'DevBranchesNotSelfContained'):
        env.exc_types[name] = getattr(X, name)
    env.loop(CV, 0, inv_cv, types={'previous_dev_branch': 'opt[Br]'})


def cv_setup(I, args):
    c01_setup(I, args)
    I.ghost['citems'] = I.fresh('cascade_entries', 'fseq[CItem]')


def hf_only(it):
    return it.bset.dev is None and it.bset.stb is None and it.bset.hf is not None


def cv_ok_upto(R, items, n):
    """what a silent validate has established on the first n entries: every stabilization branch is included in its
    development branch, and every development branch includes the previous one (hotfix-only entries skipped)"""
    return (all(hf_only(items[k]) or (items[k].bset.dev is not None
                                      and (items[k].bset.stb is None or incl(R, items[k].bset.stb, R, items[k].bset.dev)))
                for k in range(n))
            and all(all(hf_only(items[a]) or hf_only(items[b])
                        or any(not hf_only(items[m]) for m in range(a + 1, b))
                        or incl(R, items[a].bset.dev, R, items[b].bset.dev)
                        for a in range(b)) for b in range(n)))


def inv_cv(previous_dev_branch, _i, _seq, G):
    # previous_dev_branch is the development branch of the last non hotfix-only entry seen
    return (cv_ok_upto(G.R, _seq, _i)
            and (all(hf_only(_seq[k]) for k in range(_i)) if previous_dev_branch is None else
                 any(not hf_only(_seq[k]) and _seq[k].bset.dev == previous_dev_branch
                     and all(hf_only(_seq[m]) for m in range(k + 1, _i)) for k in range(_i))))


def ens_cv(self, out, G):
    return not out.returned or cv_ok_upto(G.R, G.citems, len(G.citems))


def ens_cv_readonly(self, out, G):
    return same_all(old(G.R), G.R)


def contracts(env):
    cs = merge_contracts(env)
    install_queue_objects(env)
    install_cascade_objects(env)
    cs.append(Contract(CV, args={'self': 'CascObj'}, setup=cv_setup_small, label=CV + '[3 entries]',
                       ensures=[('silence_means_stabilization_in_development_in_next_development', ens_cv),
                                ('reads_only', ens_cv_readonly)],
                       covers=['return']))
    cs.append(Contract(HV, args={'self': 'QCObj', 'version': 'opaque'}, setup=hv_setup_small,
                       label=HV + '[2 entries]',
                       ensures=[('silence_means_queue_branches_nested_above_the_destination', ens_hv_silent_means_nested),
                                ('reads_only', ens_hv_readonly)],
                       covers=['return']))
    cs.append(Contract(CV, args={'self': 'CascObj'}, setup=cv_setup,
                       ensures=[('silence_means_stabilization_in_development_in_next_development', ens_cv),
                                ('reads_only', ens_cv_readonly)],
                       covers=['return']))
    env.model('QueuesMap', 'values', trusted='queues.values(): the entries, one per version')(
        lambda I, self: I.ghost['entries'])
    env.loop(MQ, 0, inv_mq, havoc=[havoc_local, havoc_R], top_level=True)
    env.loop(MQ, 1, None, havoc=[havoc_local])
    cs.append(Contract(MQ, args={'queues': 'opaque'}, setup=mq_setup_small, requires=req_mq,
                       label=MQ + '[2 versions x 2 entries]',
                       ensures=[('destinations_stay_nested', ens_mq_chain),
                                ('each_destination_is_fast_forwarded_to_the_first_listed_entry_of_its_version',
                                 ens_mq_moves)],
                       covers=['return']))
    cs.append(Contract(MQ, args={'queues': 'opaque'}, setup=mq_setup, requires=req_mq,
                       ensures=[('destinations_stay_nested', ens_mq_chain),
                                ('each_destination_is_fast_forwarded_to_the_first_listed_entry_of_its_version',
                                 ens_mq_moves)],
                       covers=['return']))
    cs.append(Contract(MIB, args={'job': 'HJob', 'wbranches': 'opaque'}, setup=mib_setup_for(3), label=MIB + '[3 targets]',
                       ensures=[('each_target_includes_the_previous_target', ens_mib_chain),
                                ('targets_only_grow_and_receive_their_integration_branch', ens_mib_growth),
                                ('no_other_branch_moves', ens_mib_frame)],
                       covers=['return']))
    cs.append(Contract(HV, args={'self': 'QCObj', 'version': 'opaque'}, setup=hv_setup,
                       ensures=[('silence_means_queue_branches_nested_above_the_destination', ens_hv_silent_means_nested),
                                ('reads_only', ens_hv_readonly)],
                       covers=['return']))
    import os
    # 3 targets (119 paths, ~90 s) only in the thorough tier
    for k in ((1, 2, 3) if os.environ.get('PYVC_TIER') == 'thorough' else (1, 2)):
        cs.append(Contract(ATQ, args={'job': 'HJob', 'wbranches': 'opaque'}, setup=atq_setup_for(k),
                           label=ATQ + '[%d targets]' % k,
                           ensures=[('each_queue_includes_the_previous_queue', ens_atq_chain),
                                    ('entry_equals_queue_and_includes_destination_and_integration_branch',
                                     ens_atq_entries),
                                    ('destination_branches_do_not_move', ens_atq_frame)],
                           covers=['return']))
    cs.append(Contract(MIB, args={'job': 'HJob', 'wbranches': 'seq[Br]'}, setup=mib_setup,
                       ensures=[('each_target_includes_the_previous_target', ens_mib_chain),
                                ('targets_only_grow_and_receive_their_integration_branch', ens_mib_growth),
                                ('no_other_branch_moves', ens_mib_frame)],
                       covers=['return']))
    return cs


def extra(rep, tier, seed, budget):
    # create_branch publishes a new destination branch only after validating the cascade THAT CONTAINS IT (C20 contract)
    from pyvc import cli as _cli
    from specs import c20 as _c20
    _e20 = _c20.base_env()
    for _c in _c20.contracts(_e20):
        if 'create_branch' in _c.label:
            _c.label = _c.label + ' [C01 new branch validated before publication]'
            _cli.handle_function(rep, _c20, _e20, _c, budget, _cli.load_lock().get('C01', {}))
    rep.trusted.extend(_e20.trusted)
    from bounded import integrate as _integ
    _integ.system_histories(rep, tier, seed, ['C01_inclusion'])


def replay_file(data):
    from bounded import integrate as _integ
    return _integ.replay(data)


META = {
    'level': 'other',
    'explanation': __doc__,
    'assumptions': [
        'git semantics of the ancestry model: a conflict-free merge makes dst reach old dst, the sources and possibly new '
        'merge commits; a single-source merge that is a fast-forward or a no-op adds no commit; checkout -b copies; a '
        'failed merge leaves the refs alone; `git reset --hard <the checked-out branch>` moves no ref; Branch.differs '
        'may answer anything',
        'commit sets are an abstract join-semilattice (proofs) / subsets of a 4-commit universe (refutations)',
        'the targets of a pull request are distinct destination branches (C09) and its integration branches are the '
        'source branch followed by w/ branches (C19); no destination or source branch is named tmp/..., versions are '
        'not w/... (C18)',
        'merge_queues: the selected entries are nested across versions and what is selected on a version is selected '
        'on every later one - ASSUMED contract of QueueCollection.mergeable_queues (selection + vertical validation), '
        'decided only by the bounded stand-in bounded/c05_queue.py',
        'the step from per-function facts to "after every event of every history" is bounded '
        '(bounded/system_histories.py, clause C01_inclusion), not proved',
    ],
    'trusted_base': [],
}
