"""C01 - forward-port inclusion of destination branches is an invariant.

Ghost ancestry model (trusted git semantics, stated in META): the local clone is a map
    R : branch name -> set of commits reachable from that branch
and `a is included in b` is R[a] <= R[b].  git merge (no conflict) replaces R[dst] by
R[dst] | R[src...] | N with N a set of new merge commits, N empty for a single source
when the merge is a fast-forward or a no-op; `git checkout -b` copies an entry; a
failed merge changes nothing.  Over that model, function by function on the REAL code:

  octopus_merge / consecutive_merge / robust_merge : on return dst includes its old self
      and both sources, nothing but dst (and tmp/ scratch branches) changed;
  merge_integration_branches : on return (= at the atomic push) every target includes the
      previous target, targets only grew, nothing else moved  -> the chain is preserved;
  add_to_queue (1..3 targets) : q/<v+1> includes q/<v>, each q/w/<pr>/<v> equals its q/<v>,
      every q/<v> includes development/<v>; destination branches untouched;
  QueueCollection._horizontal_validation : silence implies every queue branch of the
      version includes its destination branch and the next older queue branch;
  merge_queues : given validated queues (that postcondition) whose newest selected
      entries are nested across versions, destinations are fast-forwarded and stay nested;
  BranchCascade.validate : silence implies stabilization <= development <= next development.
The step from these per-function facts to "holds after every event of every history"
is the bounded stand-in bounded/system_histories.py (clause C01_inclusion) on the real
system; it is labelled bounded and not counted as proved.
"""
from pyvc import smt
from pyvc.env import Contract
from pyvc.interp import TargetExc
from pyvc.values import *  # noqa
from specs import gitmodel, handlers
from specs.gitmodel import emit, name_of, br
from specs.handlers import setup_common, havoc_local
from specs.intrinsics import old
from bert_e import exceptions as X
from bert_e.lib import git as GIT
from bert_e.workflow import git_utils as GU
from bert_e.workflow.gitwaterflow import branches as B, integration as INT_, queueing as Q

PROPERTY = 'C01'
STR, BOOL, INT = smt.STR, smt.BOOL, smt.INT
CSET = smt.SetS(STR)
RSORT = smt.ArrS(STR, CSET)
MIB = 'bert_e.workflow.gitwaterflow.integration:merge_integration_branches'
ATQ = 'bert_e.workflow.gitwaterflow.queueing:add_to_queue'
MQ = 'bert_e.workflow.gitwaterflow.queueing:merge_queues'
HV = 'bert_e.workflow.gitwaterflow.branches:QueueCollection._horizontal_validation'


# ---------------------------------------------------------------- spec vocabulary
def incl(Ra, a, Rb, b):
    """every commit reachable from a (in state Ra) is reachable from b (in state Rb)"""
    return Ra[a] <= Rb[b]


def same(Ra, Rb, x):
    return Ra[x] == Rb[x]


def unchanged_except(Ra, Rb, names, prefixes=(), dst_of=None):
    """every branch whose name is not listed, does not start with one of the prefixes and is not the
    destination branch of one of `dst_of` reaches the same commits in both states"""
    raise NotImplementedError('symbolic only')


def _nm(I, x):
    if isinstance(x, SRef):
        return x.t
    return I.term_of(x)


def _s_incl(I, Ra, a, Rb, b):
    return I.as_bool_value(smt.SetSubset(smt.Select(Ra.t, _nm(I, a)), smt.Select(Rb.t, _nm(I, b))))


def _s_same(I, Ra, Rb, x):
    return I.as_bool_value(smt.Eq(smt.Select(Ra.t, _nm(I, x)), smt.Select(Rb.t, _nm(I, x))))


def _s_unchanged_except(I, Ra, Rb, names, prefixes=(), dst_of=None):
    x = smt.fresh_bound('x', STR)
    conds = []
    items = I.concrete_items(names)
    if items is not None:
        conds += [smt.Not(smt.Eq(x, _nm(I, n))) for n in items]
    else:
        sv = I.seq_value(names)
        i = smt.fresh_bound('i', INT)
        conds.append(smt.Not(smt.Exists([i], smt.And(smt.Le(smt.IntC(0), i), smt.Lt(i, smt.SeqLen(sv.t)),
                                                      smt.Eq(smt.SeqNth(sv.t, i), x)))))
    for p in prefixes:
        conds.append(smt.Not(smt.StrPrefixOf(smt.StrC(p), x)))
    if dst_of is not None:
        sv = I.seq_value(dst_of)
        i = smt.fresh_bound('i', INT)
        conds.append(smt.Not(smt.Exists([i], smt.And(
            smt.Le(smt.IntC(0), i), smt.Lt(i, smt.SeqLen(sv.t)),
            smt.Eq(smt.App('Br.dst_branch', [smt.SeqNth(sv.t, i)], STR), x)))))
    return I.as_bool_value(smt.ForAll([x], smt.Implies(smt.And(*conds),
                                                        smt.Eq(smt.Select(Rb.t, x), smt.Select(Ra.t, x)))))


# ---------------------------------------------------------------- the ancestry layer of the git model
def install_ancestry(env):
    env.intrinsics[incl] = _s_incl
    env.intrinsics[same] = _s_same
    env.intrinsics[unchanged_except] = _s_unchanged_except

    def reach(I, x):
        return smt.Select(I.ghost['R'], _nm(I, x))

    def setR(I, name_t, value):
        I.ghost['R'] = smt.Store(I.ghost['R'], name_t, value)
        I.ghost['lv'] += 1

    @env.model('Br', 'merge', trusted='git merge: no conflict -> dst reaches old dst, the sources and new merge '
                                      'commits (none for a single-source fast-forward or no-op); conflict -> '
                                      'MergeFailedException, refs unchanged')
    def b_merge(I, self, *sources, **kw):
        if I.choose(None, 'merge conflict'):
            raise TargetExc(I.make_exception(GIT.MergeFailedException, [], {}))
        cur = reach(I, self)
        u = cur
        for s in sources:
            u = smt.SetUnion(u, reach(I, s))
        new = I.fresh_term('merge_commits', CSET, False)
        if len(sources) == 1:
            rs = reach(I, sources[0])
            I.assume(smt.Implies(smt.Or(smt.SetSubset(cur, rs), smt.SetSubset(rs, cur)),
                                 smt.Eq(new, smt.SetEmpty(STR))))
        emit(I, 'merge', self, tuple(sources))
        setR(I, _nm(I, self), smt.SetUnion(u, new))
        if kw.get('do_push'):
            emit(I, 'push', (self,))

    @env.model('Br', 'create', trusted='git checkout -b name source: the new local ref points at source')
    def b_create(I, self, source, do_push=True):
        emit(I, 'create_local', name_of(I, self), source)
        setR(I, _nm(I, self), reach(I, source))
        if do_push:
            emit(I, 'push', (self,))

    env.model('Br', 'reset', trusted='git reset --hard <the checked-out branch itself>: aborts a merge, no ref moves')(
        lambda I, self, *a, **k: emit(I, 'reset_local', self))
    env.model('Br', 'differs', trusted='git diff --quiet: any answer')(
        lambda I, self, other: SBool(I.fresh_term('differs', BOOL, False)))
    env.model('Br', 'includes_commit', trusted='git merge-base --is-ancestor a b == (R[a] <= R[b]) for branch tips')(
        lambda I, self, c: SBool(smt.SetSubset(reach(I, c), reach(I, self))))
    env.model('Br', 'get_latest_commit', trusted='git rev-parse: equal tips reach the same commits')(
        lambda I, self: SOpaque(reach(I, self), 'tip'))


def havoc_R(I, fr):
    I.ghost['R'] = I.fresh_term('R@loop', RSORT, False)
    I.ghost['lv'] += 1


def base_env():
    env = handlers.base_env(PROPERTY)
    install_ancestry(env)
    env.split_goals = True
    env.allow_inline(Q.get_queue_branch, Q.get_queue_integration_branch)
    env.loop(MIB, 0, inv_mib, havoc=[havoc_local, havoc_R])
    env.loop(MIB, 1, None, havoc=[havoc_local])
    return env


def c01_setup(I, args):
    setup_common(I, args)
    I.ghost['R'] = I.fresh_term('R', RSORT, True)


# ---------------------------------------------------------------- the three merge helpers (git_utils)
def merge_effect(I, loc, oc):
    havoc_R(I, None)


def no_tmp(*bs):
    return all(not b.name.startswith('tmp/') for b in bs)


def req_robust(dst, src1, src2):
    return no_tmp(dst, src1, src2)


def ens_merged(dst, src1, src2, out, G):
    return not out.returned or (incl(old(G.R), dst, G.R, dst) and incl(old(G.R), src1, G.R, dst)
                                and incl(old(G.R), src2, G.R, dst))


def ens_frame_dst(dst, src1, src2, out, G):
    return unchanged_except(old(G.R), G.R, [dst])


def ens_frame_dst_tmp(dst, src1, src2, out, G):
    return unchanged_except(old(G.R), G.R, [dst], ('tmp/',))


def ens_failed_unchanged(dst, src1, src2, out, G):
    return out.returned or same(old(G.R), G.R, dst)


def ens_failed_grew(dst, src1, src2, out, G):
    return out.returned or incl(old(G.R), dst, G.R, dst)


def ens_only_merge_failure(dst, src1, src2, out, G):
    return out.returned or out.raised(GIT.MergeFailedException)


def merge_contracts(env):
    a3 = {'dst': 'Br', 'src1': 'Br', 'src2': 'Br'}
    out = ['return', GIT.MergeFailedException]
    octo = Contract('bert_e.workflow.git_utils:octopus_merge', args=a3, setup=c01_setup, outcomes=out,
                    effect=merge_effect,
                    ensures=[('dst_includes_old_dst_and_both_sources', ens_merged),
                             ('only_dst_moves', ens_frame_dst),
                             ('a_conflict_leaves_dst_unchanged', ens_failed_unchanged),
                             ('fails_only_with_MergeFailedException', ens_only_merge_failure)],
                    covers=['return', 'raise:MergeFailedException'])
    cons = Contract('bert_e.workflow.git_utils:consecutive_merge', args=a3, setup=c01_setup, outcomes=out,
                    effect=merge_effect,
                    ensures=[('dst_includes_old_dst_and_both_sources', ens_merged),
                             ('only_dst_moves', ens_frame_dst),
                             ('a_conflict_never_loses_commits_of_dst', ens_failed_grew),
                             ('fails_only_with_MergeFailedException', ens_only_merge_failure)],
                    covers=['return', 'raise:MergeFailedException'])
    rob = Contract('bert_e.workflow.git_utils:robust_merge', args=a3, setup=c01_setup, outcomes=out,
                   effect=merge_effect, requires=req_robust,
                   ensures=[('dst_includes_old_dst_and_both_sources', ens_merged),
                            ('only_dst_and_scratch_branches_move', ens_frame_dst_tmp),
                            ('a_conflict_never_loses_commits_of_dst', ens_failed_grew),
                            ('fails_only_with_MergeFailedException', ens_only_merge_failure)],
                   covers=['return', 'raise:MergeFailedException'])
    for c in (octo, cons, rob):
        env.contracts[c.fn] = c
    return [octo, cons, rob]


# ---------------------------------------------------------------- merge_integration_branches
def dst(w):
    return w.dst_branch


def mib_setup(I, args):
    c01_setup(I, args)
    wb = I.seq_value(args['wbranches']).t
    i, j = smt.fresh_bound('i', INT), smt.fresh_bound('j', INT)
    d = lambda t: smt.App('Br.dst_branch', [t], STR)  # noqa: E731
    rng = lambda v: smt.And(smt.Le(smt.IntC(0), v), smt.Lt(v, smt.SeqLen(wb)))  # noqa: E731
    I.assume(smt.Ge(smt.SeqLen(wb), smt.IntC(1)))
    # the targets of a pull request are distinct destination branches (C09); integration branches are the
    # source branch followed by w/ branches (C19); no destination or source branch is named tmp/...
    I.assume(smt.ForAll([i, j], smt.Implies(smt.And(rng(i), rng(j), smt.Not(smt.Eq(i, j))),
                                            smt.Not(smt.Eq(d(smt.SeqNth(wb, i)), d(smt.SeqNth(wb, j)))))))
    I.assume(smt.ForAll([i, j], smt.Implies(smt.And(rng(i), rng(j)),
                                            smt.Not(smt.Eq(smt.SeqNth(wb, i), d(smt.SeqNth(wb, j)))))))
    I.assume(smt.ForAll([i], smt.Implies(smt.And(smt.Le(smt.IntC(1), i), smt.Lt(i, smt.SeqLen(wb))),
                                         smt.StrPrefixOf(smt.StrC('w/'), smt.SeqNth(wb, i)))))
    I.assume(smt.ForAll([i], smt.Implies(rng(i), smt.And(
        smt.Not(smt.StrPrefixOf(smt.StrC('tmp/'), smt.SeqNth(wb, i))),
        smt.Not(smt.StrPrefixOf(smt.StrC('tmp/'), d(smt.SeqNth(wb, i))))))))


def inv_mib(wbranches, prev, _i, G):
    # _i children processed: prev is the last processed integration branch
    return (prev == wbranches[_i]
            and all(incl(old(G.R), dst(wbranches[j]), G.R, dst(wbranches[j]))
                    and incl(old(G.R), wbranches[j], G.R, dst(wbranches[j])) for j in range(_i + 1))
            and all(incl(G.R, dst(wbranches[j]), G.R, dst(wbranches[j + 1])) for j in range(_i))
            and all(same(old(G.R), G.R, dst(wbranches[j])) for j in range(_i + 1, len(wbranches)))
            and unchanged_except(old(G.R), G.R, [], ('tmp/',), wbranches))


def ens_mib_chain(job, wbranches, out, G):
    return not out.returned or all(incl(G.R, dst(wbranches[j]), G.R, dst(wbranches[j + 1]))
                                   for j in range(len(wbranches) - 1))


def ens_mib_growth(job, wbranches, out, G):
    return not out.returned or all(incl(old(G.R), dst(wbranches[j]), G.R, dst(wbranches[j]))
                                   and incl(old(G.R), wbranches[j], G.R, dst(wbranches[j]))
                                   for j in range(len(wbranches)))


def ens_mib_frame(job, wbranches, out, G):
    return not out.returned or unchanged_except(old(G.R), G.R, [], ('tmp/',), wbranches)


def contracts(env):
    cs = merge_contracts(env)
    cs.append(Contract(MIB, args={'job': 'HJob', 'wbranches': 'seq[Br]'}, setup=mib_setup,
                       ensures=[('each_target_includes_the_previous_target', ens_mib_chain),
                                ('targets_only_grow_and_receive_their_integration_branch', ens_mib_growth),
                                ('no_other_branch_moves', ens_mib_frame)],
                       covers=['return']))
    return cs


META = {
    'level': 'other',
    'explanation': 'per-function contracts over a ghost ancestry model of git (R: branch -> reachable commits)',
    'assumptions': [],
    'trusted_base': [],
}
