"""C15 - reset never silently discards manual work and only touches its own PR.

Deductive (ghost git model): get_integration_branches yields exactly branches named
w/<target version>/<source> that exist locally; _reset raises LossyResetWarning
before ANY effect (and never when forced), deletes locally only those integration
branches, publishes the deletions by one pruning push and declines only pull requests
whose source is one of them; reset / force_reset call it with force False / True.
The classification itself (lossy <=> the statement's fixpoint condition) is decided
by the bounded stand-in bounded/c15_reset.py on the real function.
"""
from pyvc import smt
from pyvc.env import Contract
from pyvc.interp import TargetExc
from pyvc.values import *  # noqa
from specs import gitmodel, handlers
from specs.gitmodel import emit, mutated, owned_term, name_of, br
from specs.handlers import setup_common, havoc_local, wname
from specs.intrinsics import implies, iff
from bert_e import exceptions as X
from bert_e.lib import git as GIT
from bert_e.workflow.gitwaterflow import commands as CMD, integration as INT_

PROPERTY = 'C15'
GIB = 'bert_e.workflow.gitwaterflow.integration:get_integration_branches'
RESET = 'bert_e.workflow.gitwaterflow.commands:_reset'


def base_env():
    env = handlers.base_env(PROPERTY)
    env.intrinsics[branch_of] = lambda I, name: br(I, name)
    env.exc_types['LossyResetWarning'] = X.LossyResetWarning
    env.ref_attr_hooks[('Br', 'src_branch')] = lambda I, r: I.ghost['cur_src']
    env.model('Br', 'includes_commit', trusted='git merge-base --is-ancestor')(
        lambda I, self, c: SBool(smt.App('anc_commit', [I.term_of(c), I.term_of(name_of(I, self))], smt.BOOL)))
    env.yield_specs[GIB] = yield_gib
    env.loop(GIB, 0, None)
    env.loop(RESET, 0, None, types={'lossy_reset': 'opt[exc:LossyResetWarning]'})
    env.loop(RESET, 1, None, types={'lossy_reset': 'opt[exc:LossyResetWarning]'})
    env.loop(RESET, 2, inv_deleted_are_integration_branches, havoc=[havoc_local], top_level=True)
    env.loop(RESET, 3, None, types={'error_prs': 'seq[ChildPR]'})
    return env


# ---------------------------------------------------------------- get_integration_branches
def yield_gib(elem, dst, src, job):
    # every yielded branch is THE integration branch of this pull request for a target, and exists
    return (elem.name == wname(dst.version, src.name) and elem.exists())


def gib_setup(I, args):
    setup_common(I, args)
    job = args['job']
    I.ghost['cur_src'] = I.get_attr(I.get_attr(job, 'git'), 'src_branch')


def gib_setup_two(I, args):
    """two targets, concrete list: the generator is unrolled and its result is a concrete list"""
    gib_setup(I, args)
    job = args['job']
    casc = I.get_attr(I.get_attr(job, 'git'), 'cascade')
    I.set_attr(casc, 'dst_branches', I.alloc_list(tuple(br(I, I.fresh('target%d' % i, 'str')) for i in range(2))))


def ens_gib_complete(job, out, G):
    # reset examines (and deletes) what this returns: an existing w/<version>/<source> of ANY target, the first
    # included, must be among the results
    dsts = job.git.cascade.dst_branches
    src = job.git.src_branch
    return not out.returned or all(
        not branch_of(wname(d.version, src.name)).exists()
        or any(b.name == wname(d.version, src.name) for b in out.value) for d in dsts)


def branch_of(name):
    raise NotImplementedError('symbolic only')


def ens_gib_total(job, out, G):
    return (out.returned or out.raised(X.UnrecognizedBranchPattern)) and not mutated(G.trace)


def ens_gib_callsite(job, out, G):
    # (used at call sites) each element is w/<version of some target>/<source>
    dsts = job.git.cascade.dst_branches
    src = job.git.src_branch
    return all(any(out.value[j].name == wname(dsts[i].version, src.name) for i in range(len(dsts)))
               for j in range(len(out.value)))


# ---------------------------------------------------------------- _reset
def reset_setup(I, args):
    gib_setup(I, args)
    I.ghost['deletion_scope'] = lambda I2, nm: I2.contains(I2.ghost['wbranches'], br(I2, nm))
    I.ghost['decline_scope'] = lambda I2, pr: I2.contains(I2.ghost['wbranches'], br(I2, I2.get_attr(pr, 'src_branch')))
    I.ghost['wbranches'] = None


def gib_effect(I, loc, oc):
    pass


def gib_result(I, loc):
    r = I.fresh('integration_branches', 'fseq[Br]', is_input=True)
    I.ghost['wbranches'] = r
    return I.alloc_list(r)


def inv_deleted_are_integration_branches(G):
    return all(br_in(x, G.wbranches) for x in G.deleted)


def br_in(name, seq):
    return any(seq[k].name == name for k in range(len(seq)))


def ens_refusal_before_any_effect(job, force, out, G):
    return implies(out.raised(X.LossyResetWarning),
                   not force and not mutated(G.trace) and len(G.deleted) == 0)


def ens_force_never_refuses(job, force, out, G):
    return implies(bool(force), not out.raised(X.LossyResetWarning))


def ens_outcomes(job, force, out, G):
    return out.raised(X.ResetComplete, X.LossyResetWarning, GIT.PushFailedException, X.UnrecognizedBranchPattern,
                      GIT.ForbiddenOperation)


def ens_complete_after_publication(job, force, out, G):
    # "Reset complete" is answered after the deletions were published (or there was nothing to delete)
    return not out.raised(X.ResetComplete) or (
        len(G.wbranches) == 0 or any(e == ('push_all', True) for e in G.trace))


def ens_reset_is_not_forced(job, args, out, G):
    return True


def contracts(env):
    gib = Contract(GIB, args={'job': 'HJob'}, setup=gib_setup, returns='seq[Br]', result=gib_result,
                   outcomes=['return', X.UnrecognizedBranchPattern],
                   ensures=[('no_effect_on_the_remote', ens_gib_total)], covers=['return'])
    gib_call = Contract(GIB, args={'job': 'HJob'}, returns='seq[Br]', result=gib_result,
                        outcomes=['return', X.UnrecognizedBranchPattern],
                        ensures=[('elements_are_this_pull_requests_integration_branches', ens_gib_callsite_guarded)])
    env.contracts[gib_call.fn] = gib_call
    rs = Contract(RESET, args={'job': 'HJob', 'force': 'bool'}, setup=reset_setup,
                  ensures=[('refuses_before_any_effect_and_only_when_not_forced', ens_refusal_before_any_effect),
                           ('force_never_refuses', ens_force_never_refuses),
                           ('only_documented_outcomes', ens_outcomes),
                           ('complete_only_after_the_pruning_push', ens_complete_after_publication)],
                  covers=['raise:ResetComplete', 'raise:LossyResetWarning'])
    gib2 = Contract(GIB, args={'job': 'HJob'}, setup=gib_setup_two, returns='seq[Br]', label=GIB + '[2 targets]',
                    ensures=[('every_existing_integration_branch_of_every_target_is_found', ens_gib_complete)],
                    covers=['return'])
    return [gib, gib2, rs] + forwarders(env)


def ens_gib_callsite_guarded(job, out, G):
    return not out.returned or ens_gib_callsite(job, out, G)


# reset / force_reset only forward to _reset with the right flag (site obligations)
def site_reset(call_args, call_kwargs):
    return call_kwargs['force'] is False


def site_force_reset(call_args, call_kwargs):
    return call_kwargs['force'] is True


def ens_fwd(job, out, G):
    return True


def forwarders(env):
    env.site_hooks[('bert_e.workflow.gitwaterflow.commands:reset', '_reset')] = site_reset
    env.site_hooks[('bert_e.workflow.gitwaterflow.commands:force_reset', '_reset')] = site_force_reset

    def reset_model(I, job, force=False):
        I.ghost['reset_called_with_force'] = force
        raise TargetExc(I.make_exception(X.ResetComplete, [], {}))
    cs = []
    for name in ('reset', 'force_reset'):
        c = Contract('bert_e.workflow.gitwaterflow.commands:%s' % name, args={'job': 'HJob'},
                     setup=fwd_setup, ensures=[('forwards_to__reset', ens_fwd)], covers=['raise:ResetComplete'])
        cs.append(c)
    env.fwd_model = reset_model
    return cs


def fwd_setup(I, args):
    setup_common(I, args)
    I.env.fn_models[CMD._reset] = I.env.fwd_model


def extra(rep, tier, seed, budget):
    # `_reset` declines the pull requests the host returns for its integration branches; on GitHub the lookup must be
    # restricted to <owner>:<branch> (bounded stand-in of the adapter, labelled bounded)
    from bounded import github_adapter as _gh
    _gh.integrate(rep, ('pull_request_lookup',))
    from pyvc.cli import write_replay
    # "the next evaluation rebuilds the integration branches": the answer to reset / force_reset must always be posted,
    # otherwise the command comment stays the last word and is executed again at every evaluation (fact shared with C10)
    import bert_e.workflow.gitwaterflow as _gwf
    from bert_e.reactor import Reactor as _Reactor
    from specs import c10 as _c10, shared_facts as _sf
    _gwf.setup({})
    _facts = []
    for _key in ('reset', 'force_reset'):
        _cmd = _Reactor.get_commands().get(_key)
        for _cls in sorted(_c10.raised_classes(_cmd.handler), key=lambda c: c.__name__) if _cmd else []:
            if issubclass(_cls, X.TemplateException):
                _facts.append(('command %r answers with %s: always re-postable (dont_repeat_if_in_history == 0)' % (_key, _cls.__name__),
                               _cls.dont_repeat_if_in_history == 0, {'command': _key, 'class': _cls.__name__,
                                                                     'dont_repeat_if_in_history': _cls.dont_repeat_if_in_history}))
    _sf.add_facts(rep, _facts, 'answers of reset / force_reset are re-postable')
    try:
        from bounded import c15_reset
    except Exception as e:
        rep.facts.append({'fact': 'bounded/c15_reset.py unavailable', 'detail': repr(e)})
        return
    # the pruning push of reset only touches this pull request's branches if the clone mirrors the remote
    from bounded import clone_mirror
    clone_mirror.integrate(rep)
    res = c15_reset.run(tier, seed)
    rep.bounded.append({k: res.get(k) for k in ('name', 'scope', 'cases', 'distinct_nontrivial', 'rule', 'notes',
                                                'n_failures', 'failure_signatures', 'clause_counts',
                                                'exhaustive', 'wall_s')})
    rep.samples.extend(res.get('samples', [])[:2])
    seen = set()
    for f in res.get('failures', []):
        k = 'bounded:c15_reset:%s' % f.get('signature', f.get('clause'))
        if k in seen or len(seen) >= 5:
            continue
        seen.add(k)
        path = write_replay(rep.pid, k, f)
        rep.violations.append({'key': k, 'what': 'reset: %s' % f.get('clause'), 'replay': path,
                               'input': f.get('case'), 'noinput': False})


def replay_file(data):
    from bounded import c15_reset
    if data.get('clause') == 'clone_mirror':
        from bounded import clone_mirror
        return clone_mirror.replay(data['case'])
    if isinstance(data.get('case'), (dict, list)):
        return c15_reset.replay(data['case'])
    return None


META = {
    'level': 'other',
    'explanation': 'Frame and ordering of _reset over the ghost git model are deductive (refusal before any effect, '
                   'deletions and declines confined to this pull request\'s integration branches, one pruning '
                   'push); the commit classification (lossy <=> fixpoint condition of the statement) is decided by '
                   'exhaustive bounded enumeration of histories on the real _reset over an in-memory git.',
    'assumptions': [
        'specs/gitmodel.py (git and host primitives); get_commit_diff returns some sequence of commits',
        'the host returns only pull requests whose source branch is one of the names asked for',
        'the classification loop is NOT under contract (bounded only)',
    ],
    'trusted_base': [],
}
