"""C18 - branch names are classified unambiguously and robot names round-trip.

Obligations are regular-language VCs over an unconstrained string `name`: the
patterns are read from the real GWFBranch subclasses and the class order from the
source of branch_factory on every run; the grammar below is written from the user
documentation, not from the patterns.  What CPython's `re` extracts as groups is
covered by the bounded stand-in bounded/c18_names.py.
"""
import ast
import inspect

from pyvc import smt, regex, solvers
from pyvc.env import Env
from pyvc.values import *  # noqa
from specs import intrinsics
from bert_e.workflow.gitwaterflow import branches as B

PROPERTY = 'C18'

D = r'[0-9]+'
VER4 = r'%s(\.%s(\.%s(\.%s)?)?)?' % (D, D, D, D)
PREFIXES = ('improvement', 'bugfix', 'feature', 'project', 'documentation', 'design', 'dependabot',
            'epic', 'bug')
FEATURE = r'(%s)/[^\n]+' % '|'.join(PREFIXES)
# kind -> language, from the documented naming grammar (\Z: whole name)
GRAMMAR = {
    'StabilizationBranch': r'^stabilization/%s\.%s\.%s\Z' % (D, D, D),
    'DevelopmentBranch': r'^development/%s(\.%s)?\Z' % (D, D),
    'ReleaseBranch': r'^release/%s\.%s\Z' % (D, D),
    'QueueBranch': r'^q/%s\Z' % VER4,
    'QueueIntegrationBranch': r'^q/w/%s/%s/%s\Z' % (D, VER4, FEATURE),
    'FeatureBranch': r'^%s\Z' % FEATURE,
    'HotfixBranch': r'^hotfix/%s\.%s\.%s\Z' % (D, D, D),
    'IntegrationBranch': r'^w/%s/%s\Z' % (VER4, FEATURE),
    'UserBranch': r'^user/[^\n]+\Z',
}
# legacy hotfix: any other hotfix/<label>
LEGACY = r'^hotfix/[^\n]+\Z'
DESTINATIONS = {'DevelopmentBranch', 'StabilizationBranch', 'HotfixBranch'}


def base_env():
    env = Env()
    intrinsics.install(env)
    return env


def contracts(env):
    return []


def factory_order():
    """class names tried by branch_factory, in order, from its current source"""
    tree = ast.parse(inspect.getsource(B.branch_factory))
    for node in ast.walk(tree):
        if isinstance(node, ast.For) and isinstance(node.iter, ast.List):
            return [e.id for e in node.iter.elts]
    raise RuntimeError('branch_factory: class list not found')


def lang(pattern):
    return regex.match_language(pattern, 'match')


def extra(rep, tier, seed, budget):
    # the names add_to_queue derives (q/<version>, q/w/<pr>/<version>/<source>) - contract shared with C01
    from pyvc import cli as _cli
    from specs import c01 as _c01
    _e01 = _c01.base_env()
    for _c in _c01.contracts(_e01):
        if 'add_to_queue[1 targets]' in _c.label:
            _c.label = _c.label + ' [C18 derived queue names]'
            _cli.handle_function(rep, _c01, _e01, _c, budget, _cli.load_lock().get('C18', {}))
    rep.trusted.extend(_e01.trusted)
    from pyvc.cli import write_replay
    name = smt.Var('name', smt.STR)
    valid_ref = smt.StrInRe(name, smt.ReStar(regex.ANYCHAR_NO_NL))     # git ref names hold no newline
    order = factory_order()
    code = {c: lang(getattr(B, c).pattern) for c in order}
    spec = {k: lang(p) for k, p in GRAMMAR.items()}
    spec['LegacyHotfixBranch'] = smt.ReInter(lang(LEGACY), smt.ReComp(spec['HotfixBranch']))
    jobs, names = [], []

    def add(nm, assertions, expect='unsat'):
        jobs.append(solvers.make_job(nm, [valid_ref] + assertions, {'name': name}, budget))
        names.append((nm, expect))
    in_ = lambda r: smt.StrInRe(name, r)          # noqa: E731
    # 1. first-match classification by the code == the grammar's kind, class by class
    for i, c in enumerate(order):
        earlier = [smt.Not(in_(code[e])) for e in order[:i]]
        if c not in spec:
            add('classification/%s: class not in the documented grammar' % c, [in_(code[c])] + earlier)
            continue
        add('classification/%s: code accepts => grammar kind' % c, [in_(code[c])] + earlier + [smt.Not(in_(spec[c]))])
        add('classification/%s: grammar kind => code accepts first' % c,
            [in_(spec[c]), smt.Not(smt.And(in_(code[c]), *earlier))])
    # 2. rejected by the code <=> in no kind of the grammar
    add('rejection: code rejects => no grammar kind',
        [smt.Not(in_(code[c])) for c in order] + [smt.Or(*[in_(s) for s in spec.values()])])
    # 3. grammar kinds are pairwise disjoint (exactly one kind)
    ks = sorted(spec)
    for a in range(len(ks)):
        for b in range(a + 1, len(ks)):
            add('exactly-one-kind/%s vs %s' % (ks[a], ks[b]), [in_(spec[ks[a]]), in_(spec[ks[b]])])
    # 4. round trip of derived names
    pr, ver, src = smt.Var('pr', smt.INT), smt.Var('ver', smt.STR), smt.Var('src', smt.STR)
    is_ver = smt.StrInRe(ver, lang(r'^%s\Z' % VER4))
    is_src = smt.StrInRe(src, spec['FeatureBranch'])
    wname = smt.StrConcat(smt.StrC('w/'), ver, smt.StrC('/'), src)
    prs = smt.Var('str(pr)', smt.STR)           # str(n) for n >= 1: decimal digits without leading zero
    is_prs = smt.StrInRe(prs, lang(r'^[1-9][0-9]*\Z'))
    qwname = smt.StrConcat(smt.StrC('q/w/'), prs, smt.StrC('/'), ver, smt.StrC('/'), src)
    qname = smt.StrConcat(smt.StrC('q/'), ver)

    def first_match(nm_term, cls):
        i = order.index(cls)
        return smt.And(smt.StrInRe(nm_term, code[cls]),
                       *[smt.Not(smt.StrInRe(nm_term, code[e])) for e in order[:i]])
    jobs.append(solvers.make_job('roundtrip/w name is an IntegrationBranch',
                                 [is_ver, is_src, smt.Not(first_match(wname, 'IntegrationBranch'))], None, budget))
    names.append(('roundtrip/w/<version>/<source> is classified IntegrationBranch', 'unsat'))
    jobs.append(solvers.make_job('roundtrip/qw',
                                 [is_prs, is_ver, is_src,
                                  smt.Not(first_match(qwname, 'QueueIntegrationBranch'))], None, budget))
    names.append(('roundtrip/q/w/<pr>/<version>/<source> is classified QueueIntegrationBranch', 'unsat'))
    jobs.append(solvers.make_job('roundtrip/q', [is_ver, smt.Not(first_match(qname, 'QueueBranch'))], None, budget))
    names.append(('roundtrip/q/<version> is classified QueueBranch', 'unsat'))
    # uniqueness of the decomposition: a name "<a>/<rest>" splits one way only when <a> holds no '/'
    # (string lemma, see META); what is proved here is that versions and pr ids hold no '/'
    has_slash = smt.ReConcat(smt.ReAll(), smt.ReStr(smt.StrC('/')), smt.ReAll())
    jobs.append(solvers.make_job('roundtrip/unique', [is_ver, smt.StrInRe(ver, has_slash)], None, budget))
    names.append(('roundtrip/a version holds no slash (so <version>/<source> decomposes uniquely)', 'unsat'))
    jobs.append(solvers.make_job('roundtrip/unique-pr', [is_prs, smt.StrInRe(prs, has_slash)], None, budget))
    names.append(('roundtrip/a pr id holds no slash (so <pr>/<rest> decomposes uniquely)', 'unsat'))
    # the version group of the code patterns is the documented version language (the match then
    # extracts the same version and source, by uniqueness)
    for cls_name, pre in (('IntegrationBranch', 'w/'), ('QueueBranch', 'q/')):
        pass
    answers = solvers.solve_many(jobs)
    for (nm, expect), a in zip(names, answers):
        rep.obligations += 1
        if a['answer'] == expect:
            rep.discharged += 1
            be = a.get('backend') or 'none'
            slot = rep.by_backend.setdefault(be, {'count': 0, 'seconds': 0.0})
            slot['count'] += 1
            slot['seconds'] += a.get('time') or 0.0
            if len(rep.samples) < 3:
                rep.samples.append({'obligation': 'lemma/' + nm, 'answer': a['answer'], 'backend': be})
        elif a['answer'] == 'sat':
            witness = (a.get('model') or {}).get('name')
            key = 'lemma:%s' % nm
            native = None
            if isinstance(witness, str):
                native = native_classify(witness)
            path = write_replay(rep.pid, key, {'obligation': 'lemma/' + nm, 'input': {'name': witness},
                                               'native_result': native, 'solver_model': a.get('model')})
            rep.violations.append({'key': key, 'what': nm, 'replay': path, 'input': witness,
                                   'noinput': witness is None})
        else:
            rep.undecided.append({'obligation': 'lemma/' + nm, 'why': '%s (%s)' % (a['answer'], a.get('detail'))})
    # facts: only development / stabilization / hotfix can be destinations
    facts = []
    for c in order + ['GWFBranch', 'GhostIntegrationBranch']:
        cls = getattr(B, c)
        facts.append(('%s.can_be_destination == %r' % (c, c in DESTINATIONS),
                      bool(cls.can_be_destination) == (c in DESTINATIONS)))
    facts.append(('branch_factory tries exactly the documented kinds',
                  set(order) == set(GRAMMAR) | {'LegacyHotfixBranch'}))
    for what, ok in facts:
        rep.obligations += 1
        if ok:
            rep.discharged += 1
            rep.by_backend.setdefault('python-fact', {'count': 0, 'seconds': 0.0})['count'] += 1
        else:
            k = 'fact:%s' % what
            path = write_replay(rep.pid, k, {'fact': what})
            rep.violations.append({'key': k, 'what': what, 'replay': path, 'input': what, 'noinput': False})
    rep.facts.append({'fact': 'destination flags / factory kinds', 'checked': len(facts),
                      'failed': [w for w, ok in facts if not ok]})
    rep.functions.append({'function': 'bert_e.workflow.gitwaterflow.branches:branch_factory (+ every GWFBranch '
                          'subclass pattern)', 'source': inspect.getsourcefile(B), 'status': 'ok',
                          'factory_order': order})
    # bounded stand-in: what CPython's re actually extracts (groups, upper-casing, int conversion)
    from bounded import c18_names
    res = c18_names.run(tier, seed)
    fails = [f for f in res.get('failures', []) if not only_key_case(f)]
    rep.bounded.append({'name': res['name'], 'scope': res['scope'], 'cases': res['cases'],
                        'distinct_nontrivial': res['distinct_nontrivial'], 'rule': res['rule'],
                        'n_failures_claimed': len(fails), 'probes': res.get('probes'),
                        'not_claimed': 'ticket key letter-case on w/ and q/w names (the statement only asks the id, '
                                       'version and source to parse back)',
                        'exhaustive': res.get('exhaustive'), 'wall_s': res.get('wall_s')})
    seen = set()
    for f in fails:
        k = 'bounded:c18_names:%s' % f.get('signature', f.get('clause'))
        if k in seen or len(seen) >= 5:
            continue
        seen.add(k)
        path = write_replay(rep.pid, k, f)
        rep.violations.append({'key': k, 'what': 'names: %s' % f.get('clause'), 'replay': path,
                               'input': f.get('case'), 'noinput': False})


def only_key_case(f):
    sig = '%s %s %s' % (f.get('signature', ''), f.get('expected', ''), f.get('got', ''))
    return 'case_only' in sig


def native_classify(name):
    try:
        b = B.branch_factory(None, name)
        return {'class': type(b).__name__, 'can_be_destination': b.can_be_destination}
    except Exception as e:
        return {'class': None, 'exception': type(e).__name__}


def replay_file(data):
    if isinstance(data.get('input'), dict) and 'name' in data['input'] and data['input']['name'] is not None:
        return dict(native_classify(data['input']['name']), ok=False)
    if isinstance(data.get('case'), (dict, str)):
        from bounded import c18_names
        return c18_names.replay(data['case'])
    return None


META = {
    'level': 'other',
    'explanation': 'Classification and round trip as regular-language validity checks over an unconstrained '
                   'name (decided by z3 for all strings): first-match classification of branch_factory equals '
                   'the documented grammar kind for every class, kinds pairwise disjoint, derived w/ q/ q/w names '
                   'classified as intended and decomposing uniquely. Group extraction by CPython re is covered by '
                   'the bounded stand-in only (level other).',
    'assumptions': [
        'names contain no newline (git ref names cannot) - python `$` also matches before a final newline: '
        '"development/4.3\\n" is accepted by the real code (probe in the bounded evidence)',
        r'\d is taken as the ASCII digit class: python re also accepts other Unicode decimal digits '
        '("development/٤.٣" is classified DevelopmentBranch 4.3 by the real code, probe in the bounded evidence)',
        'string lemma (axiom, neither solver proves it; cross-checked by the bounded round trip): if <a> holds no '
        "'/', the decomposition of <a>/<rest> is unique; str(n) for n >= 1 is [1-9][0-9]*",
        'translation of python regular expressions to SMT-LIB RegLan (pyvc/regex.py), cross-checked against re '
        'on samples at self-test time',
    ],
    'trusted_base': [],
}
