"""C13 - no lost event, immortal worker.

Kernel: BertE.put_job (under the rely R_worker: between any two statements the
worker may remove a prefix of the pending queue and other threads may append),
BertE.process_task (for every outcome of process), PullRequestJob.__eq__,
CommitJob.__eq__.
"""
from pyvc import smt
from pyvc.env import Contract
from pyvc.values import *  # noqa
from specs.common import base_env as _base_env
from specs.intrinsics import implies, iff
from bert_e import exceptions as X

PROPERTY = 'C13'


# ---------------------------------------------------------------- environment
def base_env():
    env = _base_env()
    # queued jobs are seen through the pending deque as immutable records; two
    # jobs are "equal" (Job.__eq__) iff their dedup keys are equal - that __eq__
    # computes exactly this key is verified separately below.
    env.add_class('QJob', kind='ref', fields={'key': 'str'}, eq_key='key')
    env.add_class('TaskQueue', kind='obj', fields={})
    env.add_class('DoneDeque', kind='obj', fields={})
    env.add_class('BertE', kind='obj', pyclass='bert_e.bert_e:BertE',
                  fields={'task_queue': 'TaskQueue', 'tasks_done': 'DoneDeque'})
    env.add_class('HostRepoId', kind='obj', fields={'full_name': 'str'})
    env.add_class('PR', kind='obj', fields={'id': 'int'})
    env.add_class('PRJob', kind='obj', pyclass='bert_e.job:PullRequestJob',
                  fields={'project_repo': 'HostRepoId', 'pull_request': 'PR'})
    env.add_class('CJob', kind='obj', pyclass='bert_e.job:CommitJob',
                  fields={'project_repo': 'HostRepoId', 'commit': 'str'})
    env.add_class('RunJob', kind='obj', pyclass='bert_e.job:Job',
                  fields={'start_time': 'opaque', 'status': 'str', 'details': 'opt[str]'})

    def interfere(I):
        """R_worker: pending' = drop(k, pending) ++ b for arbitrary k, b"""
        p = I.ghost['pending']
        k = I.fresh_term('rely.k', smt.INT, False)
        b = I.fresh_term('rely.appended', p.t.sort, False)
        n = smt.SeqLen(p.t)
        I.assume(smt.And(smt.Le(smt.IntC(0), k), smt.Le(k, n)))
        I.ghost['pending'] = SSeqV(smt.SeqConcat(smt.SeqExtract(p.t, k, smt.Sub(n, k)), b), p.ety)
    env.interfere = interfere

    @env.model('TaskQueue', 'queue', trusted='reading Queue.queue and `x in deque` are atomic steps')
    def q_queue(I, self):
        interfere(I)
        I.ghost['seen'] = I.ghost['pending']
        I.ghost['reads'] = I.ghost.get('reads', 0) + 1
        return I.ghost['pending']

    @env.model('TaskQueue', 'put', trusted='Queue.put is atomic and appends at the tail')
    def q_put(I, self, job):
        interfere(I)
        p = I.ghost['pending']
        I.ghost['pending'] = SSeqV(smt.SeqConcat(p.t, smt.SeqUnit(job.t)), p.ety)
        I.ghost['appended'] = I.ghost.get('appended', 0) + 1
        return None

    @env.model('TaskQueue', 'get', trusted='Queue.get returns the head job')
    def q_get(I, self):
        j = I.fresh('running_job', 'RunJob')
        I.ghost['got'] = j
        I.set_attr(j, 'end_time', None)
        return j

    @env.model('TaskQueue', 'task_done', trusted='Queue.task_done')
    def q_task_done(I, self):
        I.ghost['task_done'] = I.ghost.get('task_done', 0) + 1
        return None

    @env.model('DoneDeque', 'appendleft', trusted='deque.appendleft')
    def d_appendleft(I, self, job):
        I.ghost['done'] = I.ghost.get('done', ()) + (job,)
        return None

    @env.model('DoneDeque', '__contains__', trusted='deque membership')
    def d_contains(I, self, job):
        return SBool(I.fresh_term('equal_job_in_tasks_done', smt.BOOL))

    # attribute-style access to queue.queue is a read of the shared state
    env.attr_models[('TaskQueue', 'queue')] = env.methods.pop(('TaskQueue', 'queue'))

    from datetime import datetime
    env.fn_models[datetime.now] = lambda I: SOpaque(I.fresh_term('now', smt.REF, False), 'now')
    env.exc_str = lambda I, e: SStr(I.fresh_term('str(err)', smt.STR, False))
    env.allow_inline('bert_e.job:Job.complete')
    # BertE.process: any outcome (trusted only as "returns or raises an Exception")
    env.add_contract(Contract('bert_e.bert_e:BertE.process', outcomes=PROCESS_OUTCOMES, returns='opaque'))
    return env


class ArbitraryError(Exception):
    """stands for any exception class that is neither a BertE_Exception nor an
    InternalException"""


PROCESS_OUTCOMES = ['return', X.NothingToDo, X.ApprovalRequired, X.InternalException, X.JobFailure,
                    X.JobSuccess, ArbitraryError, KeyError]


# ---------------------------------------------------------------- put_job
def put_setup(I, args):
    I.ghost['pending'] = I.fresh('pending', 'fseq[QJob]')
    I.ghost['seen'] = None
    I.ghost['appended'] = 0
    I.ghost['reads'] = 0
    I.ghost['job'] = args['job']
    # what put_job must NOT base its decision on: the running job and the finished ones
    I.set_attr(args['self'], 'status', I.alloc_dict({'current job': I.fresh('current_job', 'QJob')}))


def equal_job_in(seq, job):
    return any(j.key == job.key for j in seq)


def ens_put_appended_or_pending(self, job, out, G):
    # appended, or an equal job was in the pending queue at the instant it was read
    return out.returned and (G.appended == 1 or (G.appended == 0 and equal_job_in(G.seen, job)))


def ens_put_appends_unless_equal_pending(self, job, out, G):
    # duplicate suppression drops a job ONLY while an equal job is waiting
    return implies(not equal_job_in(G.seen, job), G.appended == 1)


def ens_put_single_atomic_read(self, job, out, G):
    # the decision is based on one atomic read of the pending queue and on nothing else
    # (reading status['current job'] or tasks_done is not in the schema: it would be flagged)
    return G.reads == 1


# ---------------------------------------------------------------- process_task
def pt_setup(I, args):
    self = args['self']
    I.set_attr(self, 'status', I.alloc_dict({'merged PRs': SOpaque(I.fresh_term('merged', smt.REF, False)),
                                             'merge queue': SOpaque(I.fresh_term('mq', smt.REF, False))}))
    I.ghost['task_done'] = 0
    I.ghost['done'] = ()
    I.ghost['got'] = None


def ens_pt_returns_normally(self, out, G):
    return out.returned and out.value is G.got


def ens_pt_job_recorded_done(self, out, G):
    return len(G.done) == 1 and G.done[0] is G.got and G.task_done == 1


def ens_pt_marker_cleared(self, out, G):
    return 'current job' not in self.status and 'merged PRs' in self.status


def ens_pt_end_time_set(self, out, G):
    return G.got.end_time is not None


# ---------------------------------------------------------------- __eq__
def ens_eq_pr(self, other, out):
    return out.returned and iff(out.value, self.project_repo.full_name == other.project_repo.full_name
                                and self.pull_request.id == other.pull_request.id)


def ens_eq_commit(self, other, out):
    return out.returned and iff(out.value, self.project_repo.full_name == other.project_repo.full_name
                                and self.commit == other.commit)


def ens_eq_false(self, other, out):
    return out.returned and not out.value


def contracts(env):
    cs = [
        Contract('bert_e.bert_e:BertE.put_job', args={'self': 'BertE', 'job': 'QJob'}, setup=put_setup,
                 ensures=[('appended_or_equal_job_was_pending', ens_put_appended_or_pending),
                          ('dropped_only_if_equal_job_pending', ens_put_appends_unless_equal_pending),
                          ('decides_on_one_read_of_pending_only', ens_put_single_atomic_read)],
                 covers=['return']),
        Contract('bert_e.bert_e:BertE.process_task', args={'self': 'BertE'}, setup=pt_setup,
                 ensures=[('worker_survives', ens_pt_returns_normally),
                          ('job_recorded_done_once', ens_pt_job_recorded_done),
                          ('current_job_marker_cleared', ens_pt_marker_cleared),
                          ('end_time_set', ens_pt_end_time_set)],
                 covers=['return']),
        Contract('bert_e.job:PullRequestJob.__eq__', args={'self': 'PRJob', 'other': 'PRJob'},
                 ensures=[('equal_iff_same_repo_and_pr', ens_eq_pr)], covers=['return']),
        Contract('bert_e.job:PullRequestJob.__eq__', args={'self': 'PRJob', 'other': 'CJob'},
                 label='bert_e.job:PullRequestJob.__eq__[other=CommitJob]',
                 ensures=[('pr_job_never_equals_commit_job', ens_eq_false)], covers=['return']),
        Contract('bert_e.job:CommitJob.__eq__', args={'self': 'CJob', 'other': 'CJob'},
                 ensures=[('equal_iff_same_repo_and_sha', ens_eq_commit)], covers=['return']),
        Contract('bert_e.job:CommitJob.__eq__', args={'self': 'CJob', 'other': 'PRJob'},
                 label='bert_e.job:CommitJob.__eq__[other=PullRequestJob]',
                 ensures=[('commit_job_never_equals_pr_job', ens_eq_false)], covers=['return']),
    ]
    return cs


def extra(rep, tier, seed, budget):
    """process_task: job.status must be the class name of whatever was raised
    (checked per outcome through the ghost) - and native replay of the worker."""
    from specs import shared_facts as _sf
    _sf.add_facts(rep, _sf.status_page_only_written_by_berte() + _sf.task_queue_unbounded(), 'writers of BertE.status, task queue')
    from bounded import c13_webhook as _wh
    from pyvc.cli import write_replay as _wr
    _r = _wh.run(tier, seed)
    rep.bounded.append({k: _r.get(k) for k in ('name', 'scope', 'cases', 'distinct_nontrivial', 'n_failures', 'failure_signatures', 'wall_s')})
    for _f in _r['failures'][:3]:
        _k = 'bounded:c13_webhook:%s' % _f['signature']
        if any(v['key'] == _k for v in rep.violations):
            continue
        rep.violations.append({'key': _k, 'what': 'webhook accepted an event without enqueueing a job: %s' % _f['signature'], 'replay': _wr(rep.pid, _k, _f), 'input': _f['case'], 'noinput': False})
    res = native_worker_check()
    rep.bounded.append(res)
    if res['n_failures']:
        from pyvc.cli import write_replay
        path = write_replay(rep.pid, 'bounded:process_task', res)
        rep.violations.append({'key': 'bounded:process_task', 'what': 'process_task outcome', 'replay': path,
                               'input': res['failures'][0], 'noinput': False})


def bounded_for(c, tier, seed):
    """put_job on the real BertE: an equal job running or finished must not suppress the new one."""
    if 'put_job' not in c.label:
        return None
    import itertools
    from collections import deque
    from queue import Queue
    from types import SimpleNamespace
    from bert_e.bert_e import BertE
    from bert_e.job import PullRequestJob
    be = SimpleNamespace(settings={}, project_repo=SimpleNamespace(full_name='o/r'), git_repo=None)

    def mk(i):
        return PullRequestJob(bert_e=be, pull_request=SimpleNamespace(id=i))
    for pend, cur, done in itertools.product([(), (1,), (2,), (2, 1)], [None, 1, 2], [(), (1,), (2,)]):
        b = BertE.__new__(BertE)
        b.task_queue, b.tasks_done, b.status = Queue(), deque(maxlen=1000), {}
        for i in pend:
            b.task_queue.put(mk(i))
        if cur is not None:
            b.status['current job'] = mk(cur)
        for i in done:
            b.tasks_done.appendleft(mk(i))
        before = len(b.task_queue.queue)
        b.put_job(mk(1))
        appended = len(b.task_queue.queue) == before + 1
        if appended != (1 not in pend):
            return {'ok': False, 'input': {'pending_pr_ids': list(pend), 'running_pr_id': cur,
                                           'finished_pr_ids': list(done), 'new_job_pr_id': 1},
                    'expected': 'appended' if 1 not in pend else 'dropped',
                    'got': 'appended' if appended else 'dropped'}
    return None


def native_worker_check():
    """bounded cross-check on the real BertE.process_task / put_job (CPython)."""
    import time
    from collections import deque
    from queue import Queue
    from types import SimpleNamespace
    from bert_e.bert_e import BertE
    from bert_e.job import Job
    t0 = time.time()
    fails, cases = [], 0
    excs = [None, X.NothingToDo(), X.InternalException(), X.JobFailure('boom'), ValueError('v'), KeyError('k'),
            RuntimeError('r'), X.BuildInProgress()]
    # every exception class the code base defines with its own __str__ (a job may raise any of them)
    import importlib
    import inspect
    import pkgutil
    import bert_e
    names = ['bert_e.exceptions', 'bert_e.settings', 'bert_e.job', 'bert_e.lib.git', 'bert_e.lib.simplecmd']
    for pkg in ('bert_e.lib', 'bert_e.git_host'):
        names += [m.name for m in pkgutil.walk_packages(importlib.import_module(pkg).__path__, pkg + '.')]
    for name in sorted(set(names)):
        mi = SimpleNamespace(name=name)
        try:
            mod = importlib.import_module(mi.name)
        except Exception:  # noqa
            continue
        for _, cls in inspect.getmembers(mod, inspect.isclass):
            if cls.__module__ == mi.name and issubclass(cls, Exception) and '__str__' in cls.__dict__:
                e = cls.__new__(cls)
                e.args = ('x',)
                excs.append(e)
    for exc in excs:
        b = BertE.__new__(BertE)
        b.task_queue, b.tasks_done, b.status = Queue(), deque(maxlen=1000), {}
        b.settings = {}
        job = Job(bert_e=SimpleNamespace(settings={}))

        def process(j, exc=exc):
            if exc is not None:
                raise exc
        b.process = process
        b.task_queue.put(job)
        cases += 1
        try:
            r = b.process_task()
            ok = (r is job and list(b.tasks_done) == [job] and 'current job' not in b.status
                  and job.end_time is not None and (exc is None or job.status == type(exc).__name__))
        except BaseException as e:  # the worker died
            ok = False
        if not ok:
            fails.append({'exception': repr(exc)})
    return {'name': 'process_task_native', 'scope': 'every kind of job outcome (silent, template, internal, '
            'JobFailure, arbitrary exceptions) on the real BertE.process_task', 'cases': cases,
            'distinct_nontrivial': cases, 'n_failures': len(fails), 'failures': fails, 'exhaustive': True,
            'wall_s': round(time.time() - t0, 2)}


META = {
    'level': 'proof',
    'explanation': 'Step contracts: put_job under the rely R_worker (the pending queue is havocked with '
                   '"a prefix removed, anything appended" before each access), process_task for every '
                   'outcome of process(), and the two __eq__ methods that define "equal job".',
    'assumptions': [
        'Queue.put/get, reading Queue.queue and `in` on a deque are atomic (CPython raises RuntimeError '
        'rather than answer wrongly when the deque is mutated during the scan)',
        'interference is at statement granularity and limited to R_worker (worker pops the head, other '
        'threads append); real scheduler behaviour beyond that is not modelled',
        'process() raises only Exception subclasses (BaseException such as KeyboardInterrupt excluded)',
        'equality of queued jobs is abstracted by a dedup key; PullRequestJob.__eq__/CommitJob.__eq__ '
        'are verified to compute (class, repository full_name, pr id / sha)',
        'liveness (the worker eventually takes the appended job) is not a contract property and is not claimed',
    ],
    'trusted_base': [],
}
