"""C11 - the ticket gate.  Contracts on jira_checks and its five helpers
(bert_e/workflow/gitwaterflow/jira.py); jira_checks is verified modularly
against the helper contracts."""
import re

from pyvc import smt, regex
from pyvc.env import Contract
from pyvc.interp import TargetExc
from pyvc.values import *  # noqa
from specs.common import base_env as _base_env
from specs.intrinsics import implies, iff
from bert_e import exceptions as X
from jira.exceptions import JIRAError

PROPERTY = 'C11'
PLAIN = r'^\d+\.\d+\.\d+$'
FOUR = r'^\d+\.\d+\.\d+\.\d+$'


def matches(pattern, s):
    return re.match(pattern, s) is not None


def _s_matches(I, pattern, s):
    return I.as_bool_value(regex.membership(I, pattern, I.term_of(s)))


def base_env():
    env = _base_env()
    env.intrinsics[matches] = _s_matches
    env.classes['Settings']['fields'].update({
        'bypass_jira_check': 'bool', 'bypass_prefixes': 'set[str]', 'jira_keys': 'set[str]',
        'jira_email': 'str', 'jira_account_url': 'str', 'jira_token': 'str', 'prefixes': 'map[str,str]',
        'disable_version_checks': 'bool'})
    env.add_class('SrcBranch', fields={'prefix': 'str', 'jira_issue_key': 'opt[str]',
                                       'jira_project': 'opt[str]', 'name': 'str'})
    env.add_class('DstBranch', kind='ref', fields={'allow_ticketless_pr': 'bool', 'name': 'str'})
    env.add_class('Cascade', fields={'dst_branches': 'seq[DstBranch]', 'target_versions': 'seq[str]'})
    env.add_class('GitNS', fields={'src_branch': 'SrcBranch', 'cascade': 'Cascade'})
    env.classes['PullRequestJob']['fields'].update({'git': 'GitNS'})
    env.add_class('Version', kind='ref', fields={'name': 'str'})
    env.add_class('IssueType', fields={'name': 'str'})
    env.add_class('Fields', fields={'issuetype': 'IssueType', 'fixVersions': 'seq[Version]'})
    env.add_class('Issue', fields={'fields': 'Fields', 'key': 'str'})
    from bert_e.lib import jira as jira_api

    def jira_issue(I, cls, **kw):
        I.ghost['jira_calls'] = I.ghost['jira_calls'] + 1
        k = I.choose_n(3, 'jira answer')
        if k == 1:
            I.ghost['jira_answer'] = 'not-found'
            raise TargetExc(I.make_exception(JIRAError, [], {'status_code': 404}))
        if k == 2:
            code = I.fresh('jira_status', 'int')
            I.assume(smt.Not(smt.Eq(code.t, smt.IntC(404))))
            I.ghost['jira_answer'] = 'error'
            raise TargetExc(I.make_exception(JIRAError, [], {'status_code': code}))
        I.ghost['jira_answer'] = 'ok'
        return I.fresh('issue', 'Issue')
    env.ctors[jira_api.JiraIssue] = jira_issue
    env.trusted.append('lib.jira.JiraIssue(...): returns an issue (type name, fixVersions names) or raises '
                       'JIRAError with a status code')

    class Pat:
        def __init__(self, p):
            self.p = p

    def re_compile(I, pattern):
        o = I.alloc_obj(None, None, {'pattern': pattern})

        def match(I2, s):
            hit = regex.membership(I2, pattern, I2.term_of(s))
            return SOpt(smt.Not(hit), SOpaque(smt.Var('matchobj', smt.REF), 'match'))
        I.heap[o.oid]['match'] = ModelMethod(match, 're.Pattern.match')
        return o
    env.fn_models[re.compile] = re_compile
    env.abstract_sets.update({'job.git.cascade.target_versions', 'issue.fields.fixVersions'})
    env.loop('bert_e.workflow.gitwaterflow.jira:check_issue_reference', 0, inv_issue_reference)
    env.allow_inline('bert_e.workflow.gitwaterflow.utils:bypass_jira_check',
                     'bert_e.job:PullRequestJob.author_bypass')
    return env


def setup(I, args):
    I.ghost['trace'] = ()
    I.ghost['jira_calls'] = 0
    I.ghost['jira_answer'] = 'none'


# ---------------------------------------------------------------- spec vocabulary (from the statement)
def bypassed(job):
    return (bool(job.settings.bypass_jira_check) or bool(job.author_bypass.get('bypass_jira_check', False))
            or job.git.src_branch.prefix in job.settings.bypass_prefixes)


def configured(job):
    return bool(job.settings.jira_keys) and bool(job.settings.jira_email) and bool(job.settings.jira_account_url)


def has_ticket(job):
    return bool(job.git.src_branch.jira_issue_key)


def ticket_mandatory(job):
    return any(not b.allow_ticketless_pr for b in job.git.cascade.dst_branches)


def fix_names(issue):
    return set(v.name for v in issue.fields.fixVersions)


def expected(job):
    return set(job.git.cascade.target_versions)


def hotfix_target(job):
    """the expected versions are the single x.y.z.n of a hotfix destination"""
    e = expected(job)
    return len(e) == 1 and all(matches(FOUR, v) for v in e)


def c09_versions(job):
    """what C09 guarantees about target_versions: plain x.y.z versions, or one hotfix x.y.z.n"""
    return hotfix_target(job) or all(matches(PLAIN, v) for v in expected(job))


# ---------------------------------------------------------------- regular-language lemmas
def code_patterns():
    """the two patterns check_fix_versions compiles, extracted from its current source"""
    import ast
    import inspect
    from bert_e.workflow.gitwaterflow import jira as J
    tree = ast.parse(inspect.getsource(J.check_fix_versions))
    pats = [n.args[0].value for n in ast.walk(tree)
            if isinstance(n, ast.Call) and isinstance(n.func, ast.Attribute) and n.func.attr == 'compile'
            and n.args and isinstance(n.args[0], ast.Constant)]
    return pats


VFILTER, HFILTER = (code_patterns() + [None, None])[:2]


def lem_checked_is_plain_or_four(x):
    return implies(matches(VFILTER, x), matches(PLAIN, x) or matches(FOUR, x))


def lem_plain_is_checked(x):
    return implies(matches(PLAIN, x), matches(VFILTER, x))


def lem_plain_four_disjoint(x):
    return not (matches(PLAIN, x) and matches(FOUR, x))


def lem_hotfix_filter_is_four(x):
    return iff(matches(HFILTER, x), matches(FOUR, x))


def lem_four_nonempty(x):
    return implies(matches(FOUR, x), x != '')


LEMMAS = [lem_four_nonempty, lem_checked_is_plain_or_four, lem_plain_is_checked, lem_plain_four_disjoint, lem_hotfix_filter_is_four]


def req_no_newline(x):
    return '\n' not in x


def ens_lemma(x, out):
    return out.returned and out.value


# ---------------------------------------------------------------- check_issue_reference
def inv_issue_reference(_i, _seq):
    return all(_seq[j].allow_ticketless_pr for j in range(_i))


def ens_cir(job, out, G):
    return (iff(out.returned and out.value is True, has_ticket(job))
            and iff(out.returned and out.value is False, not has_ticket(job) and not ticket_mandatory(job))
            and iff(out.raised(X.MissingJiraId), not has_ticket(job) and ticket_mandatory(job))
            and (out.returned or out.raised(X.MissingJiraId)) and G.jira_calls == 0)


# ---------------------------------------------------------------- get_jira_issue
def ens_gji(job, out, G):
    return (G.jira_calls == 1
            and iff(out.returned, G.jira_answer == 'ok')
            and iff(out.raised(X.JiraIssueNotFound), G.jira_answer == 'not-found')
            and (out.returned or out.raised(X.JiraIssueNotFound) or out.raised(JIRAError))
            and (not out.raised(JIRAError) or out.exc.status_code != 404))


# ---------------------------------------------------------------- check_project / check_issue_type
def ens_cp(job, issue, out, G):
    return (iff(out.returned, job.git.src_branch.jira_project in job.settings.jira_keys)
            and (out.returned or out.raised(X.IncorrectJiraProject)))


def ens_cit(job, issue, out, G):
    ok = not job.settings.prefixes or issue.fields.issuetype.name in job.settings.prefixes
    return iff(out.returned, ok) and (out.returned or out.raised(X.IssueTypeNotSupported))


# ---------------------------------------------------------------- check_fix_versions
def req_cfv(job, issue):
    return c09_versions(job)


def plain_fix(issue):
    return set(v for v in fix_names(issue) if matches(PLAIN, v))


def ens_cfv_hotfix(job, issue, out, G):
    return not hotfix_target(job) or iff(out.returned, expected(job).issubset(fix_names(issue)))


def ens_cfv_pass_means_equal(job, issue, out, G):
    # suffixed versions ignored: a pass means the plain x.y.z fix versions are exactly the expected ones
    return implies(not hotfix_target(job) and out.returned, plain_fix(issue) == expected(job))


def ens_cfv_equal_means_pass(job, issue, out, G):
    # (silent about fix versions of the form x.y.z.n on a non-hotfix target, see DESIGN.md C11)
    no_four = all(not matches(FOUR, v) for v in fix_names(issue))
    return implies(not hotfix_target(job) and plain_fix(issue) == expected(job) and no_four, out.returned)


def ens_cfv_outcomes(job, issue, out, G):
    return out.returned or out.raised(X.IncorrectFixVersion)


# ---------------------------------------------------------------- jira_checks
def ens_jc_skipped(job, out, G):
    return implies(bypassed(job) or not configured(job), out.returned and G.jira_calls == 0)


def ens_jc_ticketless(job, out, G):
    return implies(not bypassed(job) and configured(job) and not has_ticket(job),
                   G.jira_calls == 0 and iff(out.raised(X.MissingJiraId), ticket_mandatory(job))
                   and iff(out.returned, not ticket_mandatory(job)))


def ens_jc_order(job, out, G):
    # with a ticket: the issue is fetched exactly once; each failure has its own exception class
    return implies(not bypassed(job) and configured(job) and has_ticket(job),
                   G.jira_calls == 1 and (out.returned or out.raised(
                       X.JiraIssueNotFound, X.IncorrectJiraProject, X.IssueTypeNotSupported,
                       X.IncorrectFixVersion, JIRAError)))


def ens_jc_project_before_type(job, out, G):
    return implies(not bypassed(job) and configured(job) and has_ticket(job)
                   and job.git.src_branch.jira_project not in job.settings.jira_keys,
                   out.raised(X.JiraIssueNotFound, X.IncorrectJiraProject, JIRAError))


def ens_jc_pass_needs_project(job, out, G):
    return implies(out.returned and not bypassed(job) and configured(job) and has_ticket(job),
                   job.git.src_branch.jira_project in job.settings.jira_keys)


def ens_jc_untouched(job, out, G):
    return len(G.trace) == 0


def contracts(env):
    J = 'bert_e.workflow.gitwaterflow.jira:'
    a = {'job': 'PullRequestJob'}
    ai = {'job': 'PullRequestJob', 'issue': 'Issue'}
    cir = Contract(J + 'check_issue_reference', args=a, setup=setup, returns='bool',
                   outcomes=['return', X.MissingJiraId],
                   ensures=[('true_iff_ticket_false_iff_optional_raise_iff_mandatory', ens_cir)],
                   covers=['return', 'raise:MissingJiraId'])
    def gji_effect(I, loc, oc):
        I.ghost['jira_calls'] = I.ghost['jira_calls'] + 1
        I.ghost['jira_answer'] = 'ok' if oc == 'return' else 'not-found' if oc is X.JiraIssueNotFound else 'error'
    gji = Contract(J + 'get_jira_issue', args=a, setup=setup, returns='Issue', effect=gji_effect,
                   exc_fields={JIRAError: {'status_code': 'int'}},
                   outcomes=['return', X.JiraIssueNotFound, JIRAError],
                   ensures=[('one_lookup_404_is_JiraIssueNotFound', ens_gji)],
                   covers=['return', 'raise:JiraIssueNotFound', 'raise:JIRAError'])
    cp = Contract(J + 'check_project', args=ai, setup=setup, outcomes=['return', X.IncorrectJiraProject],
                  ensures=[('passes_iff_project_configured', ens_cp)],
                  covers=['return', 'raise:IncorrectJiraProject'])
    cit = Contract(J + 'check_issue_type', args=ai, setup=setup, outcomes=['return', X.IssueTypeNotSupported],
                   ensures=[('passes_iff_type_configured_or_unrestricted', ens_cit)],
                   covers=['return', 'raise:IssueTypeNotSupported'])
    cfv = Contract(J + 'check_fix_versions', args=ai, setup=setup, requires=req_cfv, lemmas=LEMMAS,
                   overrides={'abstract_regex': True},
                   outcomes=['return', X.IncorrectFixVersion],
                   ensures=[('hotfix_target_version_must_be_listed', ens_cfv_hotfix),
                            ('pass_means_plain_fix_versions_equal_expected', ens_cfv_pass_means_equal),
                            ('equal_versions_pass', ens_cfv_equal_means_pass),
                            ('only_IncorrectFixVersion', ens_cfv_outcomes)],
                   covers=['return', 'raise:IncorrectFixVersion'])
    for c in (cir, gji, cp, cit, cfv):
        env.add_contract(c)
    jc = Contract(J + 'jira_checks', args=a, setup=setup, requires=c09_versions, lemmas=LEMMAS,
                  overrides={'abstract_regex': True},
                  ensures=[('bypassed_or_unconfigured_passes_without_jira', ens_jc_skipped),
                           ('ticketless_blocked_iff_some_target_needs_ticket', ens_jc_ticketless),
                           ('one_lookup_each_failure_its_own_message', ens_jc_order),
                           ('wrong_project_never_reaches_later_checks', ens_jc_project_before_type),
                           ('pass_requires_configured_project', ens_jc_pass_needs_project),
                           ('repository_untouched', ens_jc_untouched)],
                  covers=['return', 'raise:MissingJiraId', 'raise:JiraIssueNotFound',
                          'raise:IncorrectJiraProject', 'raise:IssueTypeNotSupported',
                          'raise:IncorrectFixVersion'])
    lems = [Contract('specs.c11:%s' % f.__name__, args={'x': 'str'}, requires=req_no_newline,
                     label='lemma/regular languages: %s' % f.__name__,
                     ensures=[('holds_for_every_string', ens_lemma)], covers=['return']) for f in LEMMAS]
    return [cir, gji, cp, cit, cfv, jc] + lems


def native_fresh_ticket_each_evaluation():
    """bounded stand-in: the gate judges the ticket AS IT IS NOW - two evaluations of the same pull request around an
    edit of the ticket (fix versions corrected / broken, type changed) follow the ticket"""
    problems, cases = [], 0
    base = {'src': 'bugfix/PRJ-12-x', 'expected': ['4.3.18'], 'jira_keys': ['PRJ'], 'prefixes': {'Bug': 'bugfix'}}
    good = {'type': 'Bug', 'fix': ['4.3.18']}
    for before, after in ((dict(good, fix=['4.3.17']), good), (good, dict(good, fix=['9.9.9'])),
                          (dict(good, type='Story'), good), (None, good), (good, None)):
        cases += 1
        first = _native_case(dict(base, issue=before))
        second = _native_case(dict(base, issue=after))
        # each evaluation must answer what the oracle says for the ticket of THAT moment
        if first[1] not in first[0] or second[1] not in second[0]:
            problems.append({'ticket_before': before, 'ticket_after': after, 'first': [sorted(first[0]), first[1]],
                             'second': [sorted(second[0]), second[1]]})
    return {'name': 'native_fresh_ticket_each_evaluation', 'scope': '5 ticket edits between two evaluations', 'cases': cases,
            'distinct_nontrivial': cases, 'ok': not problems, 'problems': problems[:3]}


def extra(rep, tier, seed, budget):
    from bounded import author_options as _ao
    _ao.integrate(rep)
    from pyvc.cli import write_replay as _wr
    _ft = native_fresh_ticket_each_evaluation()
    rep.bounded.append(_ft)
    if not _ft['ok']:
        rep.violations.append({'key': 'bounded:stale_ticket', 'what': 'the ticket gate judged a stale copy of the ticket: %s'
                               % str(_ft['problems'][0])[:200], 'replay': _wr(rep.pid, 'bounded:stale_ticket', _ft),
                               'input': _ft['problems'][0], 'noinput': False})


META = {
    'level': 'proof',
    'explanation': 'jira_checks and its five helpers verified against the statement; jira_checks is checked '
                   'against the helper contracts (modular), the helpers against their own bodies. Fix versions '
                   'are finite sets of strings filtered by regular-language membership.',
    'assumptions': [
        'the Jira client returns an issue with a type name and fixVersions names, or raises JIRAError(status_code)',
        'target_versions obey the C09 postcondition: plain x.y.z versions, or the single x.y.z.n of a hotfix target',
        'version strings are ASCII without newline (python $ and \\d caveats)',
        'the contract is deliberately silent about fixVersions x.y.z.n on a non-hotfix target (statement silent)',
        'option values are booleans; jira_keys / prefixes / bypass_prefixes are finite sets of strings',
    ],
    'trusted_base': [],
}


# ---------------------------------------------------------------- native oracle / bounded stand-in
def _native_case(case):
    """run the real jira_checks on a stub job with a fake Jira; return (expected outcomes, got)"""
    from types import SimpleNamespace
    from unittest import mock
    from bert_e.lib.settings_dict import SettingsDict
    from bert_e.workflow.gitwaterflow import jira as J
    from bert_e.workflow.gitwaterflow.branches import branch_factory
    src = branch_factory(None, case['src'])
    settings = {'bypass_jira_check': case.get('bypass', False), 'bypass_prefixes': case.get('bypass_prefixes', []),
                'jira_keys': case.get('jira_keys', ['PRJ']), 'jira_email': 'e', 'jira_account_url': 'u',
                'jira_token': 't', 'prefixes': case.get('prefixes', {}), 'pr_author_options': {},
                'disable_version_checks': case.get('disable_version_checks', False)}
    dsts = [SimpleNamespace(allow_ticketless_pr=t, name='development/%d' % i)
            for i, t in enumerate(case.get('ticketless', [False]))]
    cascade = SimpleNamespace(dst_branches=dsts, target_versions=list(case['expected']))
    job = SimpleNamespace(settings=SettingsDict({}, settings), active_options=[],
                          git=SimpleNamespace(src_branch=src, cascade=cascade),
                          pull_request=SimpleNamespace(author='dev'), author_bypass={})
    issue = case.get('issue')        # None -> 404, else dict(type=, fix=[...])
    calls = []

    def fake_issue(**kw):
        calls.append(kw)
        if issue is None:
            raise JIRAError(status_code=404)
        return SimpleNamespace(key=kw['issue_id'], fields=SimpleNamespace(
            issuetype=SimpleNamespace(name=issue['type']),
            fixVersions=[SimpleNamespace(name=v) for v in issue['fix']]))
    with mock.patch.object(J.jira_api, 'JiraIssue', fake_issue):
        try:
            J.jira_checks(job)
            got = 'return'
        except Exception as e:
            got = 'raise:' + type(e).__name__
    # ---- oracle, from the statement
    exp = None
    if settings['bypass_jira_check'] or src.prefix in settings['bypass_prefixes'] or not settings['jira_keys']:
        exp = {'return'}
    elif not src.jira_issue_key:
        exp = {'raise:MissingJiraId'} if not all(case.get('ticketless', [False])) else {'return'}
    elif issue is None:
        exp = {'raise:JiraIssueNotFound'}
    elif src.jira_project not in settings['jira_keys']:
        exp = {'raise:IncorrectJiraProject'}
    elif settings['prefixes'] and issue['type'] not in settings['prefixes']:
        exp = {'raise:IssueTypeNotSupported'}
    elif settings['disable_version_checks']:
        exp = {'return'}
    else:
        expected = set(case['expected'])
        fix = set(issue['fix'])
        hot = len(expected) == 1 and all(re.match(FOUR, v) for v in expected)
        if hot:
            exp = {'return'} if expected <= fix else {'raise:IncorrectFixVersion'}
        else:
            plain = {v for v in fix if re.match(PLAIN, v)}
            four = {v for v in fix if re.match(FOUR, v)}
            if plain != expected:
                exp = {'raise:IncorrectFixVersion'}
            elif not four:
                exp = {'return'}
            else:
                exp = {'return', 'raise:IncorrectFixVersion'}    # statement silent
    return exp, got, calls


def replay(case):
    exp, got, calls = _native_case(case)
    return {'ok': got in exp, 'expected': sorted(exp), 'got': got, 'jira_lookups': len(calls)}


def bounded_for(c, tier, seed):
    import itertools
    universe = ['4.3.18', '4.3.19', '5.1.4', '5.1.4_rc1', '4.3.18.0', '4.3.18.1']
    subsets = [list(s) for r in range(len(universe) + 1) for s in itertools.combinations(universe, r)]
    expecteds = [['4.3.19'], ['4.3.19', '5.1.4'], ['4.3.18.1'], ['5.1.4']]
    srcs = ['bugfix/PRJ-12-x', 'bugfix/prj-12-x', 'bugfix/OTHER-1', 'bugfix/nothing', 'dependabot/x']
    for src in srcs:
        for issue in [None] + [{'type': t, 'fix': f} for t in ('Bug', 'Epic') for f in subsets]:
            for expd in expecteds:
                for extra in ({}, {'prefixes': {'Bug': 'bugfix'}}, {'disable_version_checks': True},
                              {'bypass': True}, {'bypass_prefixes': ['dependabot']}, {'ticketless': [True, True]},
                              {'ticketless': [True, False]}):
                    case = dict(src=src, issue=issue, expected=expd, **extra)
                    r = replay(case)
                    if not r['ok']:
                        r['input'] = case
                        return r
    return None


def replay_file(data):
    if isinstance(data.get('input'), dict) and 'src' in data['input']:
        return replay(data['input'])
    return None
