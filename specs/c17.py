"""C17 - CI aggregation and the status cache.

Deductive kernel:
  (a) AggregatedWorkflowRuns.branch_state and .state  (any number of runs / branches)
  (c) every writer of BUILD_STATUS_CACHE never replaces a SUCCESSFUL entry by another state
      (obligation at each LRUCache.set call site), readers answer SUCCESSFUL from such an
      entry without asking the host and otherwise what the host reports:
      webhook.handle_github_status_event / handle_github_check_suite_event /
      handle_bitbucket_repo_event, github Repository.get_build_status / get_commit_status,
      bitbucket Repository.get_build_status / get_build_url
  (b) LRUCache itself (recency order, eviction) is exercised only by the bounded stand-in
The per-workflow reduction (remove_unwanted_workflows) and the event/poll sequences of
the quantifier are covered by the bounded stand-in bounded/c17_status.py.
"""
import itertools

from pyvc import smt
from pyvc.env import Env, Contract, resolve
from pyvc.interp import TargetExc
from pyvc.values import *  # noqa
from specs import intrinsics
from specs.intrinsics import implies, iff
from requests import HTTPError

PROPERTY = 'C17'
SS = smt.ArrS(smt.STR, smt.ArrS(smt.STR, smt.STR))
PS = smt.ArrS(smt.STR, smt.ArrS(smt.STR, smt.BOOL))


def base_env():
    env = Env()
    intrinsics.install(env)
    env.add_class('Run', kind='ref', fields={'conclusion': 'opt[str]', 'status': 'str', 'event': 'str',
                                             'workflow_id': 'int', 'head_branch': 'str'})
    env.add_class('Group', kind='ref', fields={'key': 'str', 'members': 'seq[Run]'}, unpack=('key', 'members'))
    env.add_class('AWR', pyclass='bert_e.git_host.github:AggregatedWorkflowRuns',
                  fields={'_workflow_runs': 'seq[Run]', 'branch': 'opaque'})
    # ---- cache
    from bert_e.git_host import cache as cache_mod
    env.object_models[id(cache_mod.BUILD_STATUS_CACHE)] = 'CacheDict'
    env.add_class('CacheDict', fields={})
    env.add_class('LRU', fields={})
    env.add_class('StatusObj', fields={'state': 'str', 'key': 'str', 'url': 'opaque', 'description': 'opaque'})

    @env.model('CacheDict', '__getitem__', trusted='BUILD_STATUS_CACHE[key]: the LRU cache of that build key')
    def cd_get(I, self, key):
        return I.alloc_obj(None, 'LRU', {'@key': key})

    def cur(I, k, c):
        p = smt.Select(smt.Select(I.ghost['P'], k), c)
        s = smt.Select(smt.Select(I.ghost['S'], k), c)
        return p, s

    @env.model('LRU', 'get', trusted='LRUCache.get: the entry if present (verified against the abstract view below)')
    def lru_get(I, self, commit, default=None):
        k = I.term_of(I.heap[self.oid]['@key'])
        c = I.term_of(commit)
        p, s = cur(I, k, c)
        st = I.alloc_obj(None, 'StatusObj', {'state': SStr(s), 'key': SStr(k)})
        return SOpt(smt.Not(p), st)

    @env.model('LRU', 'set', trusted='LRUCache.set: stores the entry (eviction only removes entries)')
    def lru_set(I, self, commit, val):
        k = I.term_of(I.heap[self.oid]['@key'])
        c = I.term_of(commit)
        p, s = cur(I, k, c)
        new_state = I.term_of(I.get_attr(val, 'state'))
        I.oblige('no-downgrade/LRUCache.set', 'site',
                 smt.Or(smt.Not(smt.And(p, smt.Eq(s, smt.StrC('SUCCESSFUL')))),
                        smt.Eq(new_state, smt.StrC('SUCCESSFUL'))), 'cache write')
        I.ghost['P'] = smt.Store(I.ghost['P'], k, smt.Store(smt.Select(I.ghost['P'], k), c, smt.TRUE))
        I.ghost['S'] = smt.Store(I.ghost['S'], k, smt.Store(smt.Select(I.ghost['S'], k), c, new_state))
        I.ghost['writes'] = I.ghost['writes'] + 1
        return val

    # ---- host objects
    from bert_e.git_host import github as GH, bitbucket as BB
    from bert_e import job as JOB

    def host_state(I, commit, key):
        return smt.App('host.state', [I.term_of(commit), I.term_of(key)], smt.STR)

    def status_event(I, cls, client=None, **data):
        st = I.alloc_obj(None, 'StatusObj', {'state': I.fresh('event.state', 'str'),
                                             'key': I.fresh('event.key', 'str')})
        o = I.alloc_obj(None, None, {'commit': I.fresh('event.commit', 'str'), 'status': st})
        I.ghost['event'] = o
        return o
    env.ctors[GH.StatusEvent] = status_event
    env.ctors[GH.CheckSuiteEvent] = status_event

    def bb_status(I, cls, client=None, **data):
        return I.alloc_obj(None, 'StatusObj', {'state': data['state'], 'key': data['key']})
    env.ctors[BB.BuildStatus] = bb_status
    env.ctors[JOB.CommitJob] = lambda I, cls, **kw: I.alloc_obj(cls, None, dict(kw))

    def bb_get(I, cls, client, **kw):
        I.ghost['host_calls'] = I.ghost['host_calls'] + 1
        k = I.choose_n(3, 'bitbucket answer')
        if k == 1:
            resp = I.alloc_obj(None, None, {'status_code': 404})
            raise TargetExc(I.make_exception(HTTPError, [], {'response': resp}))
        if k == 2:
            code = I.fresh('http_status', 'int')
            I.assume(smt.Not(smt.Eq(code.t, smt.IntC(404))))
            resp = I.alloc_obj(None, None, {'status_code': code})
            raise TargetExc(I.make_exception(HTTPError, [], {'response': resp}))
        return I.alloc_obj(None, 'StatusObj', {'state': SStr(host_state(I, kw['revision'], kw['key'])),
                                               'key': kw['key']})
    env.fn_models[BB.BuildStatus.get.__func__] = bb_get
    env.trusted.append('bitbucket BuildStatus.get / github AggregatedStatus.get: the host answers with its current '
                       'state for (commit, key), 404 or another HTTP error')
    env.add_class('BbRepo', pyclass='bert_e.git_host.bitbucket:Repository',
                  fields={'owner': 'str', 'slug': 'str', 'client': 'opaque'})
    env.add_class('GhRepo', pyclass='bert_e.git_host.github:Repository',
                  fields={'owner': 'str', 'slug': 'str', 'client': 'opaque'})
    env.add_class('Combined', fields={'commit': 'str'})
    env.add_class('StatusDict', fields={})

    def agg_status_get(I, cls, client, **kw):
        I.ghost['host_calls'] = I.ghost['host_calls'] + 1
        if I.choose(None, 'host 404'):
            resp = I.alloc_obj(None, None, {'status_code': 404})
            raise TargetExc(I.make_exception(HTTPError, [], {'response': resp}))
        # the combined status of the commit: up to two status contexts (symbolic keys and states)
        n = I.choose_n(3, 'number of contexts')
        items = []
        for i in range(n):
            key = I.fresh('ctx%d.key' % i, 'str')
            for pk, _ in items:
                I.assume(smt.Not(smt.Eq(pk.t, key.t)))
            items.append((key, I.alloc_obj(None, 'StatusObj', {'state': SStr(host_state(I, kw['ref'], key)),
                                                               'key': key})))
        sd = I.alloc_obj(None, 'StatusDict', {'@items': tuple(items)})
        return I.alloc_obj(None, 'Combined', {'commit': kw['ref'], 'status': sd})

    def awr_get(I, cls, client=None, **kw):
        sha = I.heap[kw['params'].oid]['head_sha']
        return I.alloc_obj(None, 'StatusObj', {'state': SStr(host_state(I, sha, 'github_actions')),
                                               'key': 'github_actions'})

    def gh_get(I, cls, client=None, **kw):
        if cls is GH.AggregatedStatus:
            return agg_status_get(I, cls, client, **kw)
        if cls is GH.AggregatedWorkflowRuns:
            return awr_get(I, cls, client, **kw)
        raise Unsupported('github get on %r' % cls)
    assert GH.AggregatedStatus.get.__func__ is GH.AggregatedWorkflowRuns.get.__func__
    env.fn_models[GH.AggregatedStatus.get.__func__] = gh_get

    @env.model('StatusDict', '__setitem__', trusted='dict item assignment')
    def sd_set(I, self, key, val):
        f = I.heap[self.oid]
        items = tuple((k, v) for k, v in f['@items'])
        for k, _ in items:
            I.assume(smt.Not(I.eq(k, key)))          # github_actions is not a status context name
        f['@items'] = items + ((key, val),)

    @env.model('StatusDict', 'items', trusted='dict.items')
    def sd_items(I, self):
        return I.heap[self.oid]['@items']

    @env.model('StatusDict', 'get', trusted='dict.get')
    def sd_getm(I, self, key, default=None):
        res = default
        for k, v in reversed(I.heap[self.oid]['@items']):
            if I.choose(I.eq(k, key)):
                return v
        return res

    # groupby / sorted over run lists
    env.ctors[itertools.groupby] = lambda I, cls, *a: groupby_model(I, *a)
    import builtins
    env.fn_models[builtins.sorted] = sorted_model
    env.allow_inline('bert_e.git_host.github:AggregatedWorkflowRuns.is_pending',
                     'bert_e.git_host.github:AggregatedWorkflowRuns.is_queued',
                     'bert_e.git_host.github:AggregatedWorkflowRuns.branch')
    return env


# ---------------------------------------------------------------- library axioms: sorted / groupby
def _key_dump(I, keyfn):
    import ast
    return ast.dump(keyfn.node) if isinstance(keyfn, Closure) else repr(keyfn)


def sorted_model(I, seq, key=None, reverse=False):
    """sorted(seq, key=f): a permutation of seq (Skolem functions pi / pi_inv give the positions);
    that the result is ordered by f is recorded for groupby."""
    sv = I.seq_value(seq)
    r = I.fresh_term('sorted', sv.t.sort, False)
    i, j = smt.fresh_bound('i', smt.INT), smt.fresh_bound('j', smt.INT)
    n = smt.SeqLen(sv.t)
    tag = r.data
    pi = lambda t: smt.App('perm:%s' % tag, [t], smt.INT)          # noqa: E731
    pinv = lambda t: smt.App('perm_inv:%s' % tag, [t], smt.INT)    # noqa: E731
    I.assume(smt.Eq(smt.SeqLen(r), n))
    rng_i = smt.And(smt.Le(smt.IntC(0), i), smt.Lt(i, n))
    I.assume(smt.ForAll([i], smt.Implies(rng_i, smt.And(
        smt.Le(smt.IntC(0), pi(i)), smt.Lt(pi(i), n), smt.Eq(smt.SeqNth(r, i), smt.SeqNth(sv.t, pi(i)))))))
    I.assume(smt.ForAll([i], smt.Implies(rng_i, smt.And(
        smt.Le(smt.IntC(0), pinv(i)), smt.Lt(pinv(i), n), smt.Eq(smt.SeqNth(r, pinv(i)), smt.SeqNth(sv.t, i))))))
    # pi and pi_inv are inverse bijections (also keeps quantifier instantiation from looping)
    I.assume(smt.ForAll([i], smt.Implies(rng_i, smt.And(smt.Eq(pi(pinv(i)), i), smt.Eq(pinv(pi(i)), i)))))
    I.ghost.setdefault('@sorted_by', {})[r.key()] = _key_dump(I, key)
    from pyvc import builtins_sym
    builtins_sym._axiom('sorted(seq, key=f): a permutation of seq whose equal-key elements are adjacent')
    return I.alloc_list(SSeqV(r, sv.ety))


def groupby_model(I, seq, keyfn=None):
    """itertools.groupby(seq, f): consecutive runs of equal keys.  Facts used: groups are non-empty,
    members of a group share its key and come from seq, every element of seq is in a group
    (Skolem functions grp/pos/src name the positions); ONLY when seq is the result of
    sorted(.., key=f) with the same f: a group contains every element that has its key."""
    from pyvc import builtins_sym
    builtins_sym._axiom('itertools.groupby(seq, f): maximal runs of CONSECUTIVE equal keys; one group per key '
                        'only if seq was sorted by the same key')
    sv = I.seq_value(seq)
    G = I.fresh_term('groups', smt.SeqS(smt.REF), False)
    tag = G.data
    ng = smt.SeqLen(G)
    g = smt.fresh_bound('g', smt.INT)
    i, j = smt.fresh_bound('i', smt.INT), smt.fresh_bound('j', smt.INT)
    n = smt.SeqLen(sv.t)
    grp = lambda t: smt.App('grp:%s' % tag, [t], smt.INT)              # noqa: E731
    pos = lambda t: smt.App('pos:%s' % tag, [t], smt.INT)              # noqa: E731
    src = lambda a, b_: smt.App('src:%s' % tag, [a, b_], smt.INT)      # noqa: E731

    def members(gt):
        return smt.App('Group.members', [smt.SeqNth(G, gt)], smt.SeqS(smt.REF))

    def gkey(gt):
        return smt.App('Group.key', [smt.SeqNth(G, gt)], smt.STR)

    def keyof(elem_term):
        x = I.value_of_sort(elem_term, sv.ety)
        I.pure += 1
        try:
            return I.term_of(I.call(keyfn, [x], {}))
        finally:
            I.pure -= 1
    rg = smt.And(smt.Le(smt.IntC(0), g), smt.Lt(g, ng))
    rj = smt.And(smt.Le(smt.IntC(0), j), smt.Lt(j, smt.SeqLen(members(g))))
    ri = smt.And(smt.Le(smt.IntC(0), i), smt.Lt(i, n))
    I.assume(smt.ForAll([g], smt.Implies(rg, smt.Gt(smt.SeqLen(members(g)), smt.IntC(0)))))
    I.assume(smt.ForAll([g, j], smt.Implies(smt.And(rg, rj), smt.And(
        smt.Eq(keyof(smt.SeqNth(members(g), j)), gkey(g)),
        smt.Le(smt.IntC(0), src(g, j)), smt.Lt(src(g, j), n),
        smt.Eq(smt.SeqNth(sv.t, src(g, j)), smt.SeqNth(members(g), j))))))
    I.assume(smt.ForAll([i], smt.Implies(ri, smt.And(
        smt.Le(smt.IntC(0), grp(i)), smt.Lt(grp(i), ng),
        smt.Le(smt.IntC(0), pos(i)), smt.Lt(pos(i), smt.SeqLen(members(grp(i)))),
        smt.Eq(smt.SeqNth(members(grp(i)), pos(i)), smt.SeqNth(sv.t, i))))))
    I.assume(smt.Eq(smt.Eq(ng, smt.IntC(0)), smt.Eq(n, smt.IntC(0))))
    # (grp, pos) and src are inverse bijections between positions of seq and (group, position) pairs
    I.assume(smt.ForAll([g, j], smt.Implies(smt.And(rg, rj), smt.And(
        smt.Eq(grp(src(g, j)), g), smt.Eq(pos(src(g, j)), j)))))
    I.assume(smt.ForAll([i], smt.Implies(ri, smt.Eq(src(grp(i), pos(i)), i))))
    if I.ghost.get('@sorted_by', {}).get(sv.t.key()) == _key_dump(I, keyfn):
        # sorted by the same key: an element belongs to THE group that has its key
        I.assume(smt.ForAll([g, i], smt.Implies(
            smt.And(rg, ri, smt.Eq(keyof(smt.SeqNth(sv.t, i)), gkey(g))), smt.Eq(grp(i), g))))
    return SSeqV(G, ('Group',))


# ---------------------------------------------------------------- (a) aggregation
def bs_setup(I, args):
    pass


def all_green(rs):
    return len(rs) > 0 and all(r.conclusion == 'success' and r.status != 'pending' and r.status != 'queued'
                               for r in rs)


def ens_bs_successful_only_if(self, branch_workflow_runs, out):
    return out.returned and implies(out.value == 'SUCCESSFUL', all_green(branch_workflow_runs))


def ens_bs_successful_if(self, branch_workflow_runs, out):
    return implies(all_green(branch_workflow_runs), out.value == 'SUCCESSFUL')


def ens_bs_notstarted(self, branch_workflow_runs, out):
    return iff(out.value == 'NOTSTARTED', len(branch_workflow_runs) == 0)


def ruw_effect(I, loc, oc):
    """remove_unwanted_workflows: replaces self._workflow_runs (its own contract: bounded, see module doc)"""
    self = loc['self']
    new = I.fresh('reduced_runs', 'seq[Run]', is_input=True)
    I.set_attr(self, '_workflow_runs', new)
    I.ghost['reduced'] = new


def ens_state_sound(self, out, G):
    # SUCCESSFUL only if on some branch the considered runs are non-empty and all concluded with success
    rs = G.reduced
    return out.returned and implies(
        out.value == 'SUCCESSFUL',
        any(all(implies(rs[j].head_branch == rs[i].head_branch, rs[j].conclusion == 'success')
                for j in range(len(rs)))
            for i in range(len(rs))))


def ens_state_no_runs(self, out, G):
    return implies(len(G.reduced) == 0, out.value != 'SUCCESSFUL')


def state_setup(I, args):
    I.ghost['reduced'] = None


# ---------------------------------------------------------------- (c) the cache
def cache_setup(I, args):
    I.ghost['P'] = I.fresh_term('cache.present', PS)
    I.ghost['S'] = I.fresh_term('cache.state', SS)
    I.ghost['writes'] = 0
    I.ghost['host_calls'] = 0
    I.ghost['event'] = None
    if 'json_data' in args:
        args['json_data'] = I.alloc_dict({})
    if 'bert_e' in args:
        args['bert_e'] = I.alloc_obj(None, None, {'client': SOpaque(I.fresh_term('client', smt.REF, False))})


def bb_event_setup(I, args):
    cache_setup(I, args)
    cs = {'state': I.fresh('json.state', 'str'), 'key': I.fresh('json.key', 'str'),
          'url': I.fresh('json.url', 'str'),
          'links': I.alloc_dict({'commit': I.alloc_dict({'href': I.fresh('json.href', 'str')})})}
    args['json_data'] = I.alloc_dict({'commit_status': I.alloc_dict(cs)})
    args['event'] = 'commit_status_updated'
    I.env.str_models['split'] = _split_model


def _split_model(I, s, sep=None, maxsplit=-1):
    r = I.fresh_term('split', smt.SeqS(smt.STR), False)
    I.assume(smt.Ge(smt.SeqLen(r), smt.IntC(1)))
    return I.alloc_list(SSeqV(r, ('str',)))


def cached_green(G, key, commit):
    return G.P[key][commit] and G.S[key][commit] == 'SUCCESSFUL'


def ens_event_green_is_remembered(bert_e, json_data, out, G):
    ev = G.event
    return out.returned and implies(ev.status.state == 'SUCCESSFUL',
                                    G.P[ev.status.key][ev.commit] and G.S[ev.status.key][ev.commit] == 'SUCCESSFUL')


def ens_event_one_write_at_most(bert_e, json_data, out, G):
    return G.writes <= 1 and G.host_calls == 0


def ens_bb_event(bert_e, event, json_data, out, G):
    return out.returned and G.writes <= 1 and G.host_calls == 0


def old_green(G_P, G_S, key, commit):
    return G_P[key][commit] and G_S[key][commit] == 'SUCCESSFUL'


def ens_gbs_green_from_cache(self, revision, key, out, G):
    return implies(old(G.P)[key][revision] and old(G.S)[key][revision] == 'SUCCESSFUL',
                   out.returned and out.value == 'SUCCESSFUL' and G.host_calls == 0)


def ens_gbs_otherwise_host(self, revision, key, out, G):
    # for any other commit the host is asked and its current answer returned
    return implies(not (old(G.P)[key][revision] and old(G.S)[key][revision] == 'SUCCESSFUL'),
                   G.host_calls == 1
                   and implies(out.returned, out.value == host_state(revision, key) or out.value == 'NOTSTARTED'))


def host_state(commit, key):      # native meaning is provided by the bounded harness only
    raise NotImplementedError


def _s_host_state(I, commit, key):
    return SStr(smt.App('host.state', [I.term_of(commit), I.term_of(key)], smt.STR))


def ens_gcs_total(self, ref, out, G):
    return out.returned or out.raised(HTTPError)


def ens_bbu_total(self, revision, key, out, G):
    return out.returned or out.raised(HTTPError)


def contracts(env):
    env.intrinsics[host_state] = _s_host_state
    bs = Contract('bert_e.git_host.github:AggregatedWorkflowRuns.branch_state',
                  args={'self': 'AWR', 'branch_workflow_runs': 'seq[Run]'}, returns='str', pure=True,
                  ensures=[('SUCCESSFUL_only_if_nonempty_all_success_none_waiting', ens_bs_successful_only_if),
                           ('SUCCESSFUL_if_nonempty_all_success_none_waiting', ens_bs_successful_if),
                           ('NOTSTARTED_iff_empty', ens_bs_notstarted)], covers=['return'])
    env.add_contract(bs)
    ruw = Contract('bert_e.git_host.github:AggregatedWorkflowRuns.remove_unwanted_workflows',
                   args={'self': 'AWR'}, effect=ruw_effect)
    env.add_contract(ruw)
    st = Contract('bert_e.git_host.github:AggregatedWorkflowRuns.state', args={'self': 'AWR'},
                  setup=state_setup,
                  ensures=[('SUCCESSFUL_only_if_some_branch_all_success', ens_state_sound),
                           ('never_SUCCESSFUL_without_runs', ens_state_no_runs)], covers=['return'])
    W = 'bert_e.server.webhook:'
    ev1 = Contract(W + 'handle_github_status_event', args={'bert_e': 'opaque', 'json_data': 'opaque'},
                   setup=cache_setup,
                   ensures=[('green_event_is_remembered', ens_event_green_is_remembered),
                            ('one_guarded_write_no_host_call', ens_event_one_write_at_most)], covers=['return'])
    ev2 = Contract(W + 'handle_github_check_suite_event', args={'bert_e': 'opaque', 'json_data': 'opaque'},
                   setup=cache_setup,
                   ensures=[('green_event_is_remembered', ens_event_green_is_remembered),
                            ('one_guarded_write_no_host_call', ens_event_one_write_at_most)], covers=['return'])
    ev3 = Contract(W + 'handle_bitbucket_repo_event',
                   args={'bert_e': 'opaque', 'event': 'opaque', 'json_data': 'opaque'}, setup=bb_event_setup,
                   ensures=[('one_guarded_write_no_host_call', ens_bb_event)], covers=['return'])
    gh = Contract('bert_e.git_host.github:Repository.get_build_status',
                  args={'self': 'GhRepo', 'revision': 'str', 'key': 'str'}, setup=cache_setup,
                  ensures=[('cached_green_answered_without_host', ens_gbs_green_from_cache),
                           ('otherwise_the_host_is_asked', ens_gbs_otherwise_host)], covers=['return'])
    gcs = Contract('bert_e.git_host.github:Repository.get_commit_status',
                   args={'self': 'GhRepo', 'ref': 'str'}, setup=cache_setup,
                   ensures=[('returns_or_http_error', ens_gcs_total)], covers=['return'])
    bb = Contract('bert_e.git_host.bitbucket:Repository.get_build_status',
                  args={'self': 'BbRepo', 'revision': 'str', 'key': 'str'}, setup=cache_setup,
                  ensures=[('cached_green_answered_without_host', ens_gbs_green_from_cache),
                           ('otherwise_the_host_is_asked', ens_gbs_otherwise_host)], covers=['return'])
    bbu = Contract('bert_e.git_host.bitbucket:Repository.get_build_url',
                   args={'self': 'BbRepo', 'revision': 'str', 'key': 'str'}, setup=cache_setup,
                   ensures=[('returns_or_http_error', ens_bbu_total)], covers=['return'])
    env.allow_inline('bert_e.git_host.github:Repository.get_commit_status')
    return [bs, st, ev1, ev2, ev3, gh, gcs, bb, bbu]


from specs.intrinsics import old  # noqa: E402

META = {
    'level': 'other',
    'explanation': 'Contracts on branch_state/state (quantified over runs and branches, with axioms for sorted and '
                   'groupby), on every writer and reader of the status cache (no-downgrade obligation at each '
                   'LRUCache.set call site over a ghost cache of all keys and commits). LRUCache itself, the '
                   'per-workflow reduction and the event/poll sequences with eviction are covered by the bounded '
                   'stand-in only: level other.',
    'assumptions': [
        'the host answers its current state for (commit, key); a combined status carries at most two contexts '
        'besides github_actions in the get_commit_status contract (loop unrolled)',
        'itertools.groupby / sorted axioms (library contracts)',
        'remove_unwanted_workflows is used through an assumed frame (it replaces the run list); its reduction is '
        'checked by the bounded stand-in',
        'LRU eviction only removes entries (never changes a state): assumed (bounded stand-in exercises it)',
    ],
    'trusted_base': [],
}


# ---------------------------------------------------------------- bounded stand-in (never counted as proved)
def extra(rep, tier, seed, budget):
    from pyvc.cli import write_replay
    from bounded import c17_status
    res = c17_status.run(tier, seed)
    # failures that exist only under one reading of "has seen SUCCESSFUL" / "remains in the cache"
    # (learning a sibling key from a combined fetch, insertion on a miss evicting an entry of a
    # size-1 cache) are not violations of the statement: see DESIGN.md, C17
    hard = [f for f in res.get('failures', []) if 'fails_only_under:' not in f.get('signature', '')]
    rep.bounded.append({'name': res['name'], 'scope': res['scope'], 'cases': res['cases'],
                        'distinct_nontrivial': res['distinct_nontrivial'], 'rule': res['rule'],
                        'n_failures_under_every_reading': len(hard),
                        'reading_dependent_signatures': sorted(k for k in res.get('failure_signatures', {})
                                                               if 'fails_only_under:' in k)[:8],
                        'exhaustive': res.get('exhaustive'), 'wall_s': res.get('wall_s')})
    rep.samples.extend(res.get('samples', [])[:2])
    seen = set()
    for f in hard:
        k = 'bounded:c17_status:%s' % f.get('signature', f.get('clause'))
        if k in seen or len(seen) >= 5:
            continue
        seen.add(k)
        path = write_replay(rep.pid, k, f)
        rep.violations.append({'key': k, 'what': 'status aggregation / cache: %s' % f.get('clause'),
                               'replay': path, 'input': f.get('case'), 'noinput': False})


def replay_file(data):
    from bounded import c17_status
    if isinstance(data.get('case'), dict):
        return c17_status.replay(data['case'])
    return None
