"""Spec-level helper functions.  Each has a native meaning (used when a
contract is evaluated on real objects during replay) and a symbolic meaning
(registered in Env.intrinsics, used when the contract is turned into VCs)."""
from pyvc import smt
from pyvc.values import *  # noqa


def implies(a, b):
    return (not a) or b


def iff(a, b):
    return bool(a) == bool(b)


def old(x):
    return x


def empty_str_set():
    return set()


def ite(c, a, b):
    return a if c else b


def _s_implies(I, a, b):
    return I.as_bool_value(smt.Implies(I.truth(a), I.truth(b)))


def _s_iff(I, a, b):
    return I.as_bool_value(smt.Eq(I.truth(a), I.truth(b)))


def _s_empty_str_set(I):
    return I.alloc_set(SSetV(smt.SetEmpty(smt.STR), ('str',)))


def _s_ite(I, c, a, b):
    return I.ite_val(I.truth(c), a, b)


def install(env):
    env.intrinsics[implies] = _s_implies
    env.intrinsics[iff] = _s_iff
    env.intrinsics[empty_str_set] = _s_empty_str_set
    env.intrinsics[ite] = _s_ite
    env.intrinsics['old'] = old
    env.intrinsics[old] = lambda I, x: x
