"""C19 - integration branches and pull requests are kept one-to-one with their PR.

Step contracts (ghost git/host model): create_integration_branches creates a w/
branch only when it does not exist and names it by (target version, source);
get_pull_request_from_list / get_or_create_pull_request reuse an open pull request
with that source (and destination) and create one, titled after the parent, only
when there is none; create_integration_pull_requests only looks at OPEN pull
requests; handle_parent_pull_request redirects to the parent whose id is the first
number of the child's description (fact: that is what the description template
renders); handle_declined_pull_request declines only OPEN children with matching
source and destination and deletes only this pull request's w/ branches.
"""
import re

from pyvc import smt
from pyvc.env import Contract
from pyvc.interp import TargetExc
from pyvc.values import *  # noqa
from specs import gitmodel, handlers
from specs.gitmodel import emit, mutated, owned_term, name_of, br
from specs.handlers import setup_common, havoc_local, wname, tagged
from specs.intrinsics import implies, iff
from bert_e import exceptions as X
from bert_e.lib import git as GIT
from bert_e.workflow.gitwaterflow import branches as B, integration as INT_
import bert_e.workflow.gitwaterflow as GWF

PROPERTY = 'C19'
CIB = 'bert_e.workflow.gitwaterflow.integration:create_integration_branches'
GPL = 'bert_e.workflow.gitwaterflow.branches:IntegrationBranch.get_pull_request_from_list'
GOC = 'bert_e.workflow.gitwaterflow.branches:IntegrationBranch.get_or_create_pull_request'
CIP = 'bert_e.workflow.gitwaterflow.integration:create_integration_pull_requests'
HDP = 'bert_e.workflow.gitwaterflow:handle_declined_pull_request'
HPP = 'bert_e.workflow.gitwaterflow:handle_parent_pull_request'


def base_env():
    env = handlers.base_env(PROPERTY)
    env.ref_attr_hooks[('Br', 'src_branch')] = lambda I, r: I.ghost['cur_src']
    env.ctors[B.GhostIntegrationBranch] = lambda I, cls, repo, name, dst: br(I, name)
    env.ref_methods[('Br', 'get_pull_request_from_list')] = B.IntegrationBranch.get_pull_request_from_list
    env.yield_specs[CIB] = yield_cib
    env.loop(CIB, 0, None)
    env.loop(GPL, 0, inv_no_match_so_far)
    env.loop(CIP, 0, None, types={'prs': 'seq[ChildPR]'})
    env.loop(HDP, 0, inv_cleanup_will_be_published, havoc=[havoc_local, havoc_pending], types={'changed': 'bool'},
             top_level=True)
    env.loop(HDP, 1, inv_cleanup_will_be_published, havoc=[havoc_pending], types={'changed': 'bool'}, top_level=True)
    from bert_e.lib import template_loader
    env.fn_models[B.render] = lambda I, tpl, **kw: SStr(I.fresh_term('rendered:' + tpl, smt.STR, False))

    @env.model('Host', 'create_pull_request', trusted='host: creates a pull request')
    def create_pr(I, self, **kw):
        emit(I, 'create_pr', kw)
        return SRef(I.fresh_term('created_pr', smt.REF, False), 'ChildPR')
    env.fn_models[re.findall] = lambda I, pat, s: I.ghost['digit_runs']
    base_on_event = env.on_event

    def on_event(I, ev):
        base_on_event(I, ev)
        if ev[0] == 'create_local':
            nm = I.term_of(ev[1])
            tagged(I, 'C19', 'an integration branch is created only when it does not exist yet', 'site',
                   smt.Not(smt.App('local.exists@%d' % I.ghost['lv'], [nm], smt.BOOL)), 'create')
            tagged(I, 'C19', 'only w/<version>/<source> branches are created', 'site',
                   smt.StrPrefixOf(smt.StrC('w/'), nm), 'create')
        if ev[0] in ('decline', 'delete_local') and 'pending' in I.ghost:
            # summary ghost: something was declined / deleted locally and still has to be published
            I.ghost['pending'] = True
        if ev[0] == 'create_pr':
            chk = I.ghost.get('create_pr_check')
            if chk is not None:
                tagged(I, 'C19', 'an integration pull request is created only when no open one exists, and is named '
                       'and titled after its parent', 'site', chk(I, ev[1]), 'create_pr')
    env.on_event = on_event
    return env


def common_setup(I, args):
    setup_common(I, args)
    if 'job' in args:
        I.ghost['cur_src'] = I.get_attr(I.get_attr(args['job'], 'git'), 'src_branch')


# ---------------------------------------------------------------- create_integration_branches
def yield_cib(elem, index, src, job, G):
    dsts = job.git.cascade.dst_branches
    # first: the source branch itself; then one branch per further target, named by (version, source)
    return (index >= 0 and index < len(dsts)
            and implies(index == 0, elem.name == src.name)
            and implies(index >= 1, elem.name == wname(dsts[index].version, src.name)))


def req_cib(job):
    return len(job.git.cascade.dst_branches) >= 1


def ens_cib(job, out, G):
    return (out.returned or out.raised(X.UnrecognizedBranchPattern)) and not mutated(G.trace)


# ---------------------------------------------------------------- get_pull_request_from_list
def pr_matches(self, pr):
    return pr.src_branch == self.name and pr.dst_branch == self.dst_branch.name


def inv_no_match_so_far(_i, _seq, self):
    return all(not pr_matches(self, _seq[j]) for j in range(_i))


def gpl_setup(I, args):
    common_setup(I, args)
    args['self'] = br(I, I.fresh('wbranch', 'str'))


def ens_gpl(self, open_prs, out, G):
    return (out.returned and len(G.trace) == 0
            and iff(out.value is None, all(not pr_matches(self, p) for p in open_prs))
            and (out.value is None or pr_matches(self, out.value)))


# ---------------------------------------------------------------- get_or_create_pull_request
def goc_setup(I, args):
    gpl_setup(I, args)
    self = args['self']
    parent = args['parent_pr']

    def check(I2, kw):
        prs = I2.seq_value(args['open_prs'])
        i = smt.fresh_bound('i', smt.INT)
        selfname = I2.term_of(name_of(I2, self))
        dstname = smt.App('Br.dst_branch', [selfname], smt.STR)
        none_open = smt.ForAll([i], smt.Implies(
            smt.And(smt.Le(smt.IntC(0), i), smt.Lt(i, smt.SeqLen(prs.t))),
            smt.Not(smt.And(smt.Eq(smt.App('ChildPR.src_branch', [smt.SeqNth(prs.t, i)], smt.STR), selfname),
                            smt.Eq(smt.App('ChildPR.dst_branch', [smt.SeqNth(prs.t, i)], smt.STR), dstname)))))
        title = I2.str_concat(['INTEGRATION [PR#', I2.get_attr(parent, 'id'), ' > ', SStr(dstname), '] ',
                               I2.get_attr(parent, 'title')])
        return smt.And(none_open, I2.eq(kw['src_branch'], SStr(selfname)), I2.eq(kw['dst_branch'], SStr(dstname)),
                       I2.eq(kw['title'], title))
    I.ghost['create_pr_check'] = check


def ens_goc(self, parent_pr, open_prs, bitbucket_repo, out, G):
    created = out.value[1]
    return (out.returned
            and iff(created, all(not pr_matches(self, p) for p in open_prs))
            and iff(created, len(G.trace) == 1)
            and (created or pr_matches(self, out.value[0])))


# ---------------------------------------------------------------- handle_parent_pull_request
def hpp_setup(I, args):
    common_setup(I, args)
    nums = I.fresh('description_numbers', 'fseq[str]')
    I.ghost['digit_runs'] = I.alloc_list(nums)
    i = smt.fresh_bound('i', smt.INT)
    # re.findall(r'\d+', s): every element is a run of decimal digits
    I.assume(smt.ForAll([i], smt.Implies(smt.And(smt.Le(smt.IntC(0), i), smt.Lt(i, smt.SeqLen(nums.t))),
                                         smt.Ge(smt.StrToInt(smt.SeqNth(nums.t, i)), smt.IntC(0)))))
    args['is_child'] = True


def hp_model(I, job):
    I.ghost['redirected_to'] = I.get_attr(job, 'pull_request')
    emit(I, 'handle_pull_request')


def ens_hpp(job, child_pr, is_child, out, G):
    nums = G.digit_runs
    # (the code raises messages.ParentPullRequestNotFound, a class that does not exist in exceptions.py:
    #  the evaluation ends with an AttributeError - noted in DESIGN.md; either way nothing is redirected)
    return (iff(not out.returned, len(nums) == 0)
            and iff(out.returned, len([e for e in G.trace if e[0] == 'handle_pull_request']) == 1))


def site_parent_lookup(call_args, ids):
    # the parent looked up is the pull request whose id is the FIRST number of the description
    return call_args[0] == int(ids[0])


# ---------------------------------------------------------------- handle_declined_pull_request
def hdp_setup(I, args):
    common_setup(I, args)
    job = args['job']

    def deletion_scope(I2, nm):
        # w/<version of a target>/<source of this pull request>
        dsts = I2.seq_value(I2.get_attr(I2.get_attr(I2.get_attr(job, 'git'), 'cascade'), 'dst_branches'))
        src = I2.term_of(I2.get_attr(I2.get_attr(job, 'pull_request'), 'src_branch'))
        i = smt.fresh_bound('i', smt.INT)
        return smt.Exists([i], smt.And(
            smt.Le(smt.IntC(0), i), smt.Lt(i, smt.SeqLen(dsts.t)),
            smt.Eq(I2.term_of(nm), smt.StrConcat(smt.StrC('w/'), smt.App('Br.version', [smt.SeqNth(dsts.t, i)], smt.STR),
                                                 smt.StrC('/'), src))))

    def decline_scope(I2, pr):
        return smt.And(I2.eq(I2.get_attr(pr, 'status'), 'OPEN'),
                       deletion_scope(I2, I2.get_attr(pr, 'src_branch')))
    I.ghost['deletion_scope'] = deletion_scope
    I.ghost['decline_scope'] = decline_scope
    I.ghost['pending'] = False


def havoc_pending(I, fr):
    I.ghost['pending'] = SBool(I.fresh_term('pending@loop', smt.BOOL, False))


def inv_cleanup_will_be_published(G, changed=None):
    # whatever was declined or deleted locally so far is remembered for the final pruning push
    return changed is None or not G.pending or bool(changed)


def ens_hdp_cleanup_published(job, out, G):
    # declining the parent removes its integration branches ON THE REMOTE: any decline / local deletion is
    # followed by the pruning push and reported as PullRequestDeclined (a failing push or an unrecognised
    # name aborts the job)
    return ((not G.pending)
            or (out.raised(X.PullRequestDeclined) and any(e == ('push_all', True) for e in G.trace))
            or (not out.returned and not out.raised(X.PullRequestDeclined) and not out.raised(X.NothingToDo)))


def ens_hdp(job, out, G):
    return out.raised(X.PullRequestDeclined, X.NothingToDo, X.UnrecognizedBranchPattern) or not out.returned


def site_open_prs(call_args, open_prs, G):
    # the list searched for an existing integration pull request is exactly the OPEN ones the host knows
    host = G.host_prs
    return (call_args[1] is open_prs
            and all(p.status == 'OPEN' for p in open_prs)
            and all(host[i].status != 'OPEN' or any(open_prs[j] is host[i] for j in range(len(open_prs)))
                    for i in range(len(host))))


def cip_setup(I, args):
    common_setup(I, args)

    def goc_model(I2, self, parent, open_prs, repo):
        return (SRef(I2.fresh_term('child_pr', smt.REF, False), 'ChildPR'), SBool(I2.fresh_term('created', smt.BOOL, False)))
    I.env.ref_methods_models = goc_model


def ens_cip(job, wbranches, out, G):
    return out.returned and not any(e[0] in ('push', 'push_all', 'push_delete', 'decline') for e in G.trace)


def contracts(env):
    a = {'job': 'HJob'}
    env.model('Br', 'get_or_create_pull_request', trusted='IntegrationBranch.get_or_create_pull_request (verified above)')(
        lambda I, self, parent, open_prs, repo: (SRef(I.fresh_term('child_pr', smt.REF, False), 'ChildPR'),
                                                 SBool(I.fresh_term('created', smt.BOOL, False))))
    env.site_hooks[(CIP, 'get_or_create_pull_request')] = site_open_prs
    cip = Contract(CIP, args={'job': 'HJob', 'wbranches': 'seq[Br]'}, setup=common_setup,
                   ensures=[('only_creates_pull_requests', ens_cip)], covers=['return'])
    cib = Contract(CIB, args=a, setup=common_setup, requires=req_cib,
                   ensures=[('no_remote_effect', ens_cib)], covers=['return'])
    gpl = Contract(GPL, args={'self': 'Br', 'open_prs': 'seq[ChildPR]'}, setup=gpl_setup, returns='opt[ChildPR]',
                   ensures=[('finds_the_open_pull_request_of_this_branch_if_any', ens_gpl)], covers=['return'])
    env.add_contract(gpl)
    goc = Contract(GOC, args={'self': 'Br', 'parent_pr': 'HPR', 'open_prs': 'seq[ChildPR]',
                              'bitbucket_repo': 'Host'}, setup=goc_setup,
                   ensures=[('creates_exactly_when_none_is_open', ens_goc)], covers=['return'])
    hpp = Contract(HPP, args={'job': 'HJob', 'child_pr': 'ChildDesc', 'is_child': 'bool'}, setup=hpp_setup,
                   ensures=[('parent_is_the_first_number_of_the_description', ens_hpp)],
                   covers=['raise:AttributeError', 'return'])
    hdp = Contract(HDP, args=a, setup=hdp_setup,
                   ensures=[('only_documented_outcomes', ens_hdp),
                            ('declines_and_deletions_are_published_by_a_pruning_push', ens_hdp_cleanup_published)],
                   covers=['raise:PullRequestDeclined', 'raise:NothingToDo'])
    env.add_class('ChildDesc', fields={'description': 'str', 'id': 'int'})
    env.fn_models[GWF.handle_pull_request] = hp_model
    from bert_e import job as JOB
    env.ctors[JOB.PullRequestJob] = lambda I, cls, **kw: I.alloc_obj(cls, None, dict(kw))
    env.site_hooks[(HPP, 'get_pull_request')] = site_parent_lookup
    return [cib, gpl, goc, cip, hpp, hdp]


def native_handle_commit():
    """bounded stand-in (labelled bounded): the real handle_commit with a fake repository/host.  A commit event on an
    integration or source tip is handled as an event on the PARENT pull request: the pull request is looked up by the
    FEATURE branch (w/<v>/<feature> is mapped back), the oldest matching pull request is evaluated; a commit on a
    queue branch goes to the queue handler when queues are on."""
    from types import SimpleNamespace
    from unittest import mock
    problems, cases = [], 0
    for use_queue in (True, False):
        for branches, want_lookup, want in (
                (['w/5.1/feature/TEST-1-x'], ['feature/TEST-1-x'], 'pr'),
                (['w/5.1/feature/TEST-1-x', 'w/10.0/feature/TEST-1-x'], ['feature/TEST-1-x', 'feature/TEST-1-x'], 'pr'),
                (['feature/TEST-1-x'], ['feature/TEST-1-x'], 'pr'),
                (['bugfix/TEST-2-y', 'w/5.1/feature/TEST-1-x'], ['bugfix/TEST-2-y', 'feature/TEST-1-x'], 'pr'),
                (['q/5.1'], None, 'queue' if use_queue else 'pr'),
                (['q/w/3/5.1/feature/TEST-1-x'], None, 'any'),
                ([], None, 'nothing')):
            cases += 1
            looked, handled = [], []

            def get_prs(src_branch=None):
                looked.append(list(src_branch))
                return [SimpleNamespace(id=7), SimpleNamespace(id=3)] if src_branch else []
            job = SimpleNamespace(
                commit='abc', settings=SimpleNamespace(use_queue=use_queue), bert_e=SimpleNamespace(),
                git=SimpleNamespace(repo=SimpleNamespace(get_branches_from_commit=lambda c: list(branches))),
                project_repo=SimpleNamespace(get_pull_requests=get_prs,
                                             get_pull_request=lambda i: SimpleNamespace(id=i)))
            with mock.patch.object(GWF, 'handle_pull_request', lambda j: handled.append(('pr', j.pull_request.id))), \
                    mock.patch.object(GWF.queueing, 'handle_merge_queues', lambda j: handled.append(('queue',))), \
                    mock.patch.object(GWF, 'PullRequestJob', lambda **kw: SimpleNamespace(**kw)), \
                    mock.patch.object(GWF, 'QueuesJob', lambda **kw: SimpleNamespace(**kw)):
                try:
                    GWF.handle_commit(job)
                    outcome = handled[-1][0] if handled else 'returned'
                except X.NothingToDo:
                    outcome = 'nothing'
                except Exception as e:  # noqa
                    outcome = 'crash:%s' % type(e).__name__
            ok = True
            if want == 'pr':
                ok = outcome == 'pr' and handled[-1] == ('pr', 3)
                if ok and want_lookup is not None:
                    ok = looked and sorted(looked[-1]) == sorted(want_lookup)
            elif want == 'queue':
                ok = outcome == 'queue'
            elif want == 'nothing':
                ok = outcome == 'nothing'
            elif want == 'any':
                ok = not outcome.startswith('crash')
            if not ok:
                problems.append({'use_queue': use_queue, 'branches': branches, 'outcome': outcome, 'looked_up': looked,
                                 'handled': handled, 'expected': want, 'expected_lookup': want_lookup})
    return {'name': 'native_handle_commit', 'scope': 'commit events on w/, feature, q/ and q/w/ tips, queues on/off', 'cases': cases,
            'distinct_nontrivial': cases, 'ok': not problems, 'problems': problems}


def extra(rep, tier, seed, budget):
    """fact: the first number of the rendered integration pull request description is the parent id"""
    from bounded import clone_mirror as _cm
    _cm.integrate(rep)
    hc = native_handle_commit()
    rep.bounded.append(hc)
    if not hc['ok']:
        from pyvc.cli import write_replay as _wr
        path = _wr(rep.pid, 'bounded:handle_commit', hc)
        rep.violations.append({'key': 'bounded:handle_commit', 'what': 'commit event not handled on the parent pull request: %s'
                               % hc['problems'][0], 'replay': path, 'input': hc['problems'][0], 'noinput': False})
    from bounded import integrate as _integ
    _integ.system_histories(rep, tier, seed, ['C19_one_to_one'])
    # handle_merge_queues: "merging it removes them" needs each merged pull request to be closed with its own
    # cascade copy (close_queued_pull_request finalizes the cascade it receives): C19 obligation carried by the
    # C02 contract of the handler
    from pyvc import cli
    from specs import c02
    env2 = c02.base_env()
    env2.prop = 'C19'
    lock = cli.load_lock().get('C19', {})
    for c in c02.contracts(env2):
        if c.label.endswith(':handle_merge_queues'):
            c.label = c.label + ' [C19 one cascade copy per merged pull request]'
            cli.handle_function(rep, c02, env2, c, budget, lock)
    rep.trusted.extend(env2.trusted)
    from types import SimpleNamespace
    from pyvc.cli import write_replay
    from bert_e.lib.template_loader import render
    bad = []
    cases = 0
    for pid in (1, 7, 12, 345, 1000):
        for branch in ('w/5.1/bugfix/PRJ-12-x', 'w/10.0.3/feature/9-lives', 'w/4/improvement/2024-q3'):
            cases += 1
            d = render('pull_request_description.md', pr=SimpleNamespace(id=pid, title='Fix 42 things'), branch=branch)
            ids = re.findall(r'\d+', d)
            if not ids or int(ids[0]) != pid:
                bad.append((pid, branch, ids[:3]))
    rep.obligations += 1
    if not bad:
        rep.discharged += 1
        rep.by_backend.setdefault('python-fact', {'count': 0, 'seconds': 0.0})['count'] += 1
    else:
        k = 'fact:first number of the integration PR description is the parent id'
        path = write_replay(rep.pid, k, {'fact': k, 'data': bad})
        rep.violations.append({'key': k, 'what': k, 'replay': path, 'input': bad, 'noinput': False})
    rep.facts.append({'fact': 'description template renders the parent id as its first number', 'cases': cases,
                      'failed': bad})


def replay_file(data):
    from bounded import integrate as _integ
    return _integ.replay(data)


META = {
    'level': 'other',
    'explanation': 'Step contracts of the one-to-one invariant over the ghost git/host model: creation of w/ '
                   'branches and of integration pull requests is conditional on absence and keyed by (version, '
                   'source) / (source, destination); redirection to the parent; decline/cleanup confined to this '
                   'pull request. That the steps compose into the history invariant relies on jobs being serialised '
                   '(C13) and on the host list being current: level other.',
    'assumptions': [
        'jobs are serialised by the single worker (C13); the host list of pull requests is current',
        'specs/gitmodel.py; render() of templates is opaque except for the fact checked on the description template',
        'handle_commit (commit event -> parent) is not under contract (covered by the system histories harness)',
    ],
    'trusted_base': [],
}
