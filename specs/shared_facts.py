"""Native checks and source facts shared by several properties (each is run on the real code on every
run; counted as obligations with back end `python-fact`; a failing fact is a violation with its data as
the replay input)."""
import ast
import os


def add_facts(rep, facts, label):
    from pyvc.cli import write_replay
    for what, ok, data in facts:
        rep.obligations += 1
        if ok:
            rep.discharged += 1
            rep.by_backend.setdefault('python-fact', {'count': 0, 'seconds': 0.0})['count'] += 1
        else:
            k = 'fact:%s' % what
            path = write_replay(rep.pid, k, {'fact': what, 'data': data})
            rep.violations.append({'key': k, 'what': what, 'replay': path, 'input': data, 'noinput': False})
    rep.facts.append({'fact': label, 'checked': len(facts), 'failed': [w for w, ok, _ in facts if not ok]})


# ---------------------------------------------------------------- option registry
def option_defaults():
    """every option registered by gitwaterflow.setup takes its command-line / settings default from ITS OWN key
    (the whole registry is enumerated: the function has no other input)"""
    import bert_e.workflow.gitwaterflow as gwf
    from bert_e.reactor import Reactor
    gwf.setup({})
    names = sorted(Reactor.get_options())
    base = {k: Reactor.get_options()[k].default for k in names}
    bad = []
    for k in names:
        if not isinstance(base[k], bool):
            continue
        gwf.setup({k: True})
        got = {n: Reactor.get_options()[n].default for n in names}
        if got[k] is not True:
            bad.append('%s: default given for it is ignored (registered default %r)' % (k, got[k]))
        for n in names:
            if n != k and got[n] != base[n]:
                bad.append('%s: its registered default becomes %r when a default is given for %s' % (n, got[n], k))
    gwf.setup({})
    return [('every option is registered with the default given for its own name', not bad,
             {'options': names, 'problems': bad})]


def init_settings_fresh():
    from specs import c10
    w = c10.native_init_settings()
    return [('Reactor.init_settings: every job starts from the registered defaults and shares no mutable object '
             'with the registry or with an earlier job', w['ok'], w)]


# ---------------------------------------------------------------- source facts
def _sources():
    for dp, dn, fn in os.walk('/repo/bert_e'):
        if '/tests' in dp or dp.endswith('/tests'):
            continue
        for f in fn:
            if f.endswith('.py'):
                yield os.path.join(dp, f)


def _is_berte_status(node):
    return (isinstance(node, ast.Attribute) and node.attr == 'status'
            and ((isinstance(node.value, ast.Attribute) and node.value.attr == 'bert_e')
                 or (isinstance(node.value, ast.Name) and node.value.id == 'bert_e')))


def status_page_only_written_by_berte():
    """process_task pops status['current job'] after every job: nobody else may remove or replace that mapping"""
    hits = []
    for path in _sources():
        if path.endswith('bert_e/bert_e.py'):
            continue
        tree = ast.parse(open(path).read())
        for node in ast.walk(tree):
            if isinstance(node, ast.Call) and isinstance(node.func, ast.Attribute) and \
                    node.func.attr in ('clear', 'pop', 'popitem', 'update', 'setdefault', '__setitem__', '__delitem__') \
                    and _is_berte_status(node.func.value):
                hits.append((os.path.relpath(path, '/repo'), node.lineno, ast.unparse(node)[:80]))
            if isinstance(node, (ast.Assign, ast.AugAssign, ast.Delete)):
                targets = node.targets if not isinstance(node, ast.AugAssign) else [node.target]
                for t in targets:
                    if (isinstance(t, ast.Subscript) and _is_berte_status(t.value)) or _is_berte_status(t):
                        hits.append((os.path.relpath(path, '/repo'), node.lineno, ast.unparse(node)[:80]))
    return [('the status mapping of the BertE instance is only written by BertE itself (bert_e/bert_e.py)',
             not hits, hits)]


# ---------------------------------------------------------------- identities on the GitHub host
def github_logins_normalised():
    """the author of a pull request and the author of a comment are compared by handle_comments / check_approvals:
    the GitHub objects must normalise logins the same way"""
    from types import SimpleNamespace
    from bert_e.git_host import github as GH
    bad = []
    for login in ('AdeleM', 'bob', 'X-y'):
        try:
            pr = GH.PullRequest.__new__(GH.PullRequest)
            pr.data = {'user': {'login': login}, 'number': 1}
            co = GH.Comment.__new__(GH.Comment)
            co.data = {'user': {'login': login}, 'body': 'x', 'id': 1}
            a, b = pr.author, co.author
        except Exception as e:  # noqa
            return [('GitHub PullRequest.author and Comment.author normalise logins the same way', True,
                     {'skipped': repr(e)})]
        if a != b:
            bad.append({'login': login, 'pull_request_author': a, 'comment_author': b})
    return [('GitHub PullRequest.author and Comment.author normalise logins the same way', not bad, bad)]


def jobs_do_not_share_settings():
    """each job has its own per-job settings mapping (options set by the comments of one pull request must not be seen
    by the next job of the same process)"""
    from types import SimpleNamespace
    from bert_e.job import Job
    b = SimpleNamespace(settings={})
    j1, j2 = Job(bert_e=b), Job(bert_e=b)
    j1.settings['bypass_peer_approval'] = True
    leaked = 'bypass_peer_approval' in j2.settings and j2.settings['bypass_peer_approval'] is True
    return [('two jobs created without explicit settings do not share their settings mapping',
             j1.settings.maps[0] is not j2.settings.maps[0] and not leaked, {'leaked': leaked})]


def init_settings_resets_options():
    """Reactor.init_settings ASSIGNS every registered option its default: a value left in the mapping by an earlier
    job (bypass_build_status set by an admin on another pull request) does not survive it"""
    import copy
    from types import SimpleNamespace
    import bert_e.workflow.gitwaterflow as gwf
    from bert_e.reactor import Reactor
    from bert_e.lib.settings_dict import SettingsDict
    gwf.setup({})
    opts = Reactor.get_options()
    snapshot = {k: copy.deepcopy(o.default) for k, o in opts.items()}
    stale = {k: (not v if isinstance(v, bool) else 'stale') for k, v in snapshot.items()}
    job = SimpleNamespace(settings=SettingsDict(dict(stale), {}))
    Reactor().init_settings(job)
    kept = sorted(k for k in opts if job.settings[k] != snapshot[k])
    return [('Reactor.init_settings overwrites option values left over from an earlier job', not kept,
             {'options_keeping_a_stale_value': kept})]


def task_queue_unbounded():
    """put_job is called from webhook threads AND from the worker itself (rebuild_queues): a bounded queue would let
    the worker block on its own queue"""
    import ast as _ast
    src = open('/repo/bert_e/bert_e.py').read()
    bad = []
    for node in _ast.walk(_ast.parse(src)):
        if isinstance(node, _ast.Assign) and any(isinstance(t, _ast.Attribute) and t.attr == 'task_queue' for t in node.targets):
            v = node.value
            if not (isinstance(v, _ast.Call) and getattr(v.func, 'id', getattr(v.func, 'attr', '')) == 'Queue'
                    and not v.args and not v.keywords):
                bad.append(_ast.unparse(node))
    return [('BertE.task_queue is an unbounded Queue()', not bad, bad)]
