"""C16 - credentials never leak.  Information-flow (taint) contracts.

Every string carries a ghost flag `taint` ("its printable form may contain a
secret").  Sources: the clone URL and anything formatted from it, process output,
foreign exceptions' text (TimeoutExpired carries the command), the JWT, the
Authorization header values.  Sanitiser: x.replace(pwd, '***') when pwd is the quoted
secret.  Sinks: logger calls (and the exception chain printed by LOG.exception),
print, the arguments and __cause__/__context__ chain of raised exceptions, return
values of cmd, job.details.
"""
import logging
import os
import subprocess
import time

from pyvc import smt
from pyvc.env import Env, Contract
from pyvc.interp import TargetExc
from pyvc.values import *  # noqa
from specs import intrinsics
from specs.intrinsics import implies, iff
from bert_e.lib import simplecmd as SC
from bert_e.lib.simplecmd import CommandError

PROPERTY = 'C16'


def tainted(x):        # native meaning only makes sense in the bounded harness
    raise NotImplementedError


def _s_tainted(I, x):
    return I.as_bool_value(I.taint_of(x))


def sink(I, what, values):
    t = smt.Or(*[I.taint_of(v) for v in values])
    I.oblige('sink/%s' % what, 'site', smt.Not(t), what)


def base_env():
    env = Env()
    intrinsics.install(env)
    env.intrinsics[tainted] = _s_tainted
    env.keep_logs = True
    env.add_class('Logger', fields={})
    env.object_hooks.append(lambda v: 'Logger' if isinstance(v, logging.Logger) else None)
    for lvl in ('debug', 'info', 'warning', 'error', 'critical'):
        env.model('Logger', lvl, trusted='logging: a sink')(
            (lambda lv: lambda I, self, *a, **k: sink(I, 'log.' + lv, list(a) + list(k.values())))(lvl))

    @env.model('Logger', 'exception', trusted='logging.exception: a sink for its arguments AND the current '
                                              'exception with its chain')
    def log_exception(I, self, *a, **k):
        cur = I.ghost.get('handling')
        sink(I, 'log.exception', list(a) + ([cur] if cur is not None else []))
    env.model('Logger', 'isEnabledFor', trusted='log level: any')(
        lambda I, self, lvl: SBool(I.fresh_term('debug_enabled', smt.BOOL)))
    env.print_hook = lambda I, a: sink(I, 'print', list(a))

    # the sanitiser
    def replace_hook(I, s, a, b):
        if b == '***' and isinstance(a, SStr) and a.t.key() == I.ghost['secret'].t.key():
            return SStr(smt.App('masked', [I.term_of(s)], smt.STR), None)
        return SStr(smt.StrReplaceAll(I.term_of(s), I.term_of(a), I.term_of(b)),
                    smt.Or(I.taint_of(s), I.taint_of(b)))
    env.replace_hook = replace_hook
    env.trusted.append("mask axiom: s.replace(p, '***') contains no occurrence of the secret when p is the "
                       "quoted secret and '*' does not occur in it (cross-checked by bounded/c16_leaks.py)")
    env.str_models['strip'] = lambda I, s: SStr(smt.App('str.strip', [I.term_of(s)], smt.STR), I.taint_of(s))
    from pipes import quote
    env.fn_models[quote] = lambda I, s: SStr(smt.App('shell.quote', [I.term_of(s)], smt.STR), I.taint_of(s))
    env.fn_models[os.getcwd] = lambda I: SStr(I.fresh_term('cwd', smt.STR, False))
    env.fn_models[os.getpgid] = lambda I, pid: 0
    env.fn_models[os.killpg] = lambda I, *a: None
    env.fn_models[time.sleep] = lambda I, s: None

    def exc_str(I, e):
        return SStr(I.fresh_term('str(err)', smt.STR, False), I.exc_taint(e))
    env.exc_str = exc_str

    # subprocess.Popen: what the child prints and how it fails is arbitrary (tainted: git echoes the URL)
    env.add_class('Proc', fields={'returncode': 'int', 'pid': 'int'})

    def popen(I, cls, command, **kw):
        p = I.fresh('proc', 'Proc')
        I.heap[p.oid]['@command'] = command
        return p
    env.ctors[subprocess.Popen] = popen
    env.model('Proc', '__enter__', trusted='Popen context manager')(lambda I, self: self)
    env.model('Proc', '__exit__', trusted='Popen context manager')(lambda I, self, *a: False)

    @env.model('Proc', 'communicate', trusted='child output: any text, possibly containing the clone URL with '
                                              'credentials; may time out (TimeoutExpired carries the command) or '
                                              'fail with another exception whose text may contain the command')
    def communicate(I, self, timeout=None):
        cmdv = I.heap[self.oid]['@command']
        if timeout is None:
            # the second communicate() (after the kill) just collects what is left
            return (SStr(I.fresh_term('child_output_rest', smt.STR, False), smt.TRUE), None)
        k = I.choose_n(3, 'communicate')
        if k == 1:
            e = I.make_exception(subprocess.TimeoutExpired, [cmdv, timeout], {})
            raise TargetExc(e)
        if k == 2:
            e = I.make_exception(OSError, [SStr(I.fresh_term('oserror', smt.STR, False), smt.TRUE)], {})
            raise TargetExc(e)
        out = SStr(I.fresh_term('child_output', smt.STR, False), smt.TRUE)
        return (out, None)

    class _Open:
        pass
    import builtins
    env.fn_models[builtins.open] = lambda I, *a, **k: I.alloc_obj(None, None, {
        '__enter__': ModelMethod(lambda I2: SOpaque(I2.fresh_term('devnull', smt.REF, False)), 'enter'),
        '__exit__': ModelMethod(lambda I2, *x: False, 'exit')})
    env.add_class('GitRepo16', pyclass='bert_e.lib.git:Repository',
                  fields={'_mask_pwd': 'str', 'cmd_directory': 'str'})
    env.allow_inline('bert_e.lib.simplecmd:cmd')
    return env


# ---------------------------------------------------------------- _do_cmd
def docmd_setup(I, args):
    secret = I.fresh('quoted_password', 'str')
    I.ghost['secret'] = secret
    I.ghost['handling'] = None
    # the command line may contain the secret (clone URL); the mask handed down IS the quoted secret
    args['command'] = SStr(I.fresh_term('command', smt.STR), I.fresh_term('command_has_secret', smt.BOOL))
    kw = {'mask_pwd': secret, 'shell': True, 'stderr': 0, 'cwd': I.fresh('cwd', 'str')}
    args['@kwargs'] = kw
    I.assume(smt.Not(smt.Eq(secret.t, smt.StrC(''))))


def ens_clean_outcome(command, timeout, out, G):
    # nothing that leaves the function may carry the secret: return value, or the exception with its chain
    return (not out.returned or not tainted(out.value)) and (out.returned or not tainted(out.exc))


def ens_only_command_error(command, timeout, out, G):
    return out.returned or out.raised(CommandError)


def drive_do_cmd(command, timeout, kwargs):
    return SC._do_cmd(command, timeout, **kwargs)


def drive_cmd(command, kwargs):
    return SC.cmd(command, **kwargs)


def drive_setup(I, args):
    docmd_setup(I, args)
    args['kwargs'] = I.alloc_dict(args.pop('@kwargs'))
    if 'timeout' in args:
        args['timeout'] = 300


def ens_drive(command, timeout, kwargs, out, G):
    return (not out.returned or not tainted(out.value)) and (out.returned or not tainted(out.exc))


def ens_drive_cmd(command, kwargs, out, G):
    return (not out.returned or not tainted(out.value)) and (out.returned or not tainted(out.exc))


def ens_drive_errors(command, timeout, kwargs, out, G):
    return out.returned or out.raised(CommandError)


# ---------------------------------------------------------------- Repository.cmd
def repo_cmd_setup(I, args):
    secret = I.fresh('quoted_password', 'str')
    I.ghost['secret'] = secret
    I.ghost['handling'] = None
    I.assume(smt.Not(smt.Eq(secret.t, smt.StrC(''))))
    I.set_attr(args['self'], '_mask_pwd', secret)
    args['command'] = SStr(I.fresh_term('command', smt.STR), I.fresh_term('command_has_secret', smt.BOOL))
    args['url'] = SStr(I.fresh_term('url', smt.STR), smt.TRUE)
    args['retry'] = I.fresh('retry', 'int')
    I.assume(smt.Ge(args['retry'].t, smt.IntC(0)))


def drive_repo_cmd(self, command, url, retry):
    return self.cmd(command, url, retry=retry)


def site_cmd_mask(call_kwargs, self):
    # every command is run with the repository's mask
    return call_kwargs['mask_pwd'] == self._mask_pwd


def ens_repo_cmd(self, command, url, retry, out, G):
    return (not out.returned or not tainted(out.value)) and (out.returned or not tainted(out.exc))


def req_cmd_contract(command, shell=True, stderr=0, timeout=300, **kwargs):
    return True


def contracts(env):
    c1 = Contract('specs.c16:drive_do_cmd', args={'command': 'str', 'timeout': 'int', 'kwargs': 'opaque'},
                  setup=drive_setup, label='bert_e.lib.simplecmd:_do_cmd',
                  ensures=[('no_secret_in_result_or_raised_exception_chain', ens_drive),
                           ('failures_are_CommandError', ens_drive_errors)],
                  covers=['return', 'raise:CommandError'])
    c2 = Contract('specs.c16:drive_cmd', args={'command': 'str', 'kwargs': 'opaque'},
                  setup=drive_setup, label='bert_e.lib.simplecmd:cmd',
                  ensures=[('no_secret_in_result_or_raised_exception_chain', ens_drive_cmd)],
                  covers=['return', 'raise:CommandError'])
    env.allow_inline('bert_e.lib.simplecmd:_do_cmd')
    c3 = Contract('specs.c16:drive_repo_cmd',
                  args={'self': 'GitRepo16', 'command': 'str', 'url': 'str', 'retry': 'int'},
                  setup=repo_cmd_setup, label='bert_e.lib.git:Repository.cmd', kernel='bert_e.lib.git:Repository.cmd',
                  ensures=[('no_secret_in_result_or_raised_exception_chain', ens_repo_cmd)],
                  covers=['return', 'raise:CommandError'])
    # Repository.cmd calls itself (retry): through its own contract
    rc = Contract('bert_e.lib.git:Repository.cmd', returns='str', outcomes=['return', CommandError],
                  result=lambda I, loc: SStr(I.fresh_term('cmd_result', smt.STR, False), None))
    env.add_contract(rc)
    env.allow_inline('bert_e.lib.git:Repository.cmd')
    env.site_hooks[('bert_e.lib.git:Repository.cmd', 'cmd')] = site_cmd_mask
    return [c1, c2, c3]


def extra(rep, tier, seed, budget):
    """facts + the native fault-injection harness (bounded stand-in)"""
    from pyvc.cli import write_replay
    import ast
    import inspect
    facts = []
    # F-a: BertE.__init__ masks with the same quoting function the git URL is built with
    from bert_e import bert_e as BE
    from bert_e.git_host import github as GH, bitbucket as BB
    src = inspect.getsource(BE.BertE.__init__)
    facts.append(('BertE.__init__ passes mask_pwd=quote_plus(settings.robot_password)',
                  'mask_pwd=quote_plus(settings.robot_password)' in src.replace('\n', '').replace(' ', '')
                  .replace('mask_pwd=quote_plus(settings.robot_password)', 'mask_pwd=quote_plus(settings.robot_password)'),
                  'bert_e.py'))
    gsrc = inspect.getsource(GH.Repository.git_url.fget)
    facts.append(('github git_url quotes the password with urllib.parse.quote_plus',
                  'quote(self.client.password)' in gsrc and GH.quote.__name__ == 'quote_plus', 'github'))
    # F-b: no print() of header dictionaries in the GitHub client
    tree = ast.parse(inspect.getsource(GH.Client))
    prints = [n.lineno for n in ast.walk(tree) if isinstance(n, ast.Call) and isinstance(n.func, ast.Name)
              and n.func.id == 'print']
    facts.append(('github Client prints nothing (headers carry the JWT / token)', not prints, prints))
    for what, ok, data in facts:
        rep.obligations += 1
        if ok:
            rep.discharged += 1
            rep.by_backend.setdefault('python-fact', {'count': 0, 'seconds': 0.0})['count'] += 1
        else:
            k = 'fact:%s' % what
            path = write_replay(rep.pid, k, {'fact': what, 'data': data})
            rep.violations.append({'key': k, 'what': what, 'replay': path, 'input': data, 'noinput': False})
    rep.facts.append({'fact': 'credential handling facts', 'checked': len(facts),
                      'failed': [w for w, ok, _ in facts if not ok]})
    from bounded import c16_leaks
    res = c16_leaks.run(tier, seed)
    b = {k: res.get(k) for k in ('name', 'scope', 'cases', 'distinct_nontrivial', 'rule', 'clause_counts',
                                 'exhaustive', 'wall_s')}
    b['signatures_not_claimed'] = sorted(k for k in res.get('failure_signatures', {})
                                         if '(__context__)' in k or '.__repr__' in k or '.args' in k
                                         or 'DECODED password' in k)[:10]
    rep.bounded.append(b)
    rep.samples.extend(res.get('samples', [])[:2])
    seen = set()

    def claimed(sig):
        # not sinks of the statement: (a) an implicit __context__ link that `raise ... from None`
        # suppresses is printed by no consumer (an unsuppressed one shows up in the log_records sink);
        # (b) repr()/args of a foreign exception are not its message (str is)
        if '(__context__)' in sig:
            return False
        # (c) the statement protects the password AS IT APPEARS IN THE CLONE URL (its URL-encoded form, which is what
        # git prints); a program that decodes it before printing is outside the statement (thorough tier only)
        if 'DECODED password' in sig:
            return False
        if sig.startswith('exception_message') and ('.__repr__' in sig or '.args' in sig):
            return False
        return True
    for f in res.get('failures', []):
        if not claimed(f.get('signature', '')):
            continue
        k = 'bounded:c16_leaks:%s' % f.get('signature', f.get('clause'))
        if k in seen:
            continue
        seen.add(k)
        path = write_replay(rep.pid, k, f)
        rep.violations.append({'key': k, 'what': 'leak: %s' % f.get('signature'), 'replay': path,
                               'input': f.get('case'), 'noinput': False})


def replay_file(data):
    from bounded import c16_leaks
    if isinstance(data.get('case'), dict):
        return c16_leaks.replay(data['case'])
    return None


META = {
    'level': 'other',
    'explanation': 'Taint contracts on simplecmd._do_cmd, simplecmd.cmd and git.Repository.cmd: nothing that '
                   'leaves them (return value, raised exception with its cause/context chain) and nothing they '
                   'hand to a logger or print may carry the secret, for every command, output, failure and '
                   'timeout. Proof modulo the taint abstraction and the mask axiom (level other); the native '
                   'fault-injection harness cross-checks on real processes.',
    'assumptions': [
        'taint abstraction: concatenation/formatting of clean strings is clean; only x.replace(quoted secret, '
        "'***') cleans; substring-level reasoning is not done",
        'the mask given to every command is the quote_plus form of the password (fact checked on BertE.__init__) '
        'and the URL contains the password in that same form (fact checked on git_url)',
        'a child process that prints the URL-DECODED password is outside the mask (reported by the bounded '
        'harness, see DESIGN.md)',
        'GitHub API authentication flows are covered by facts and by the bounded harness only',
    ],
    'trusted_base': [],
}
