"""C10 - never the same message twice in a row, commands run once, no leakage
between jobs.  (The convergence clause "at most two more evaluations" is a
liveness statement and is not claimed, see DESIGN.md section 6.)

Kernel: pr_utils.find_comment / _send_comment / notify_user, Reactor.init_settings,
BertE.process (clone reset first), facts over exceptions.py and the command registry.
"""
import ast
import inspect

from pyvc import smt
from pyvc.env import Contract, resolve
from pyvc.interp import TargetExc
from pyvc.values import *  # noqa
from specs.common import base_env as _base_env
from specs.intrinsics import implies, iff
from bert_e import exceptions as X

PROPERTY = 'C10'


def base_env():
    env = _base_env()
    env.add_class('Comment', kind='ref', fields={'author': 'str', 'text': 'str'})
    env.classes['PullRequest']['fields'].update({'comments': 'seq[Comment]'})
    env.classes['Settings']['fields'].update({'no_comment': 'bool', 'interactive': 'bool',
                                              'send_bot_status': 'bool'})
    env.add_class('Msg', fields={'dont_repeat_if_in_history': 'opt[int]', 'status': 'opt[str]', 'title': 'str',
                                 'text': 'str'})
    env.model('Msg', '__str__', trusted='str(exception) = its rendered message')(
        lambda I, self: I.get_attr(self, 'text'))

    @env.model('PullRequest', 'add_comment', trusted='host.add_comment appends a robot comment')
    def add_comment(I, self, msg):
        I.ghost['trace'] = I.ghost['trace'] + (('comment', msg),)

    @env.model('PullRequest', 'set_bot_status', trusted='host status call')
    def set_bot_status(I, self, *a, **k):
        I.ghost['trace'] = I.ghost['trace'] + (('bot_status',),)
    env.fn_model('bert_e.lib.cli:confirm', trusted='interactive confirmation: any answer')(
        lambda I, q: SBool(I.fresh_term('confirmed', smt.BOOL)))
    env.print_hook = lambda I, a: None
    env.allow_inline('bert_e.workflow.pr_utils:_send_bot_status')
    # loop invariant of find_comment (loop #0)
    env.loop('bert_e.workflow.pr_utils:find_comment', 0, inv_find_comment)
    install_reactor(env)
    install_process(env)
    return env


# ---------------------------------------------------------------- BertE.process: a fresh clone for every job
PROC = 'bert_e.bert_e:BertE.process'


def install_process(env):
    from bert_e.bert_e import BertE
    env.add_class('RepoStub', fields={'tmp_directory': 'opt[str]', 'cmd_directory': 'opt[str]'})
    env.add_class('ProcSettings', fields={'backtrace': 'bool', 'quiet': 'bool'})
    env.add_class('BertEProc', pyclass=BertE, fields={'git_repo': 'RepoStub', 'settings': 'ProcSettings'})

    @env.model('RepoStub', 'reset', trusted='Repository.reset (checked natively, see extra())')
    def reset(I, self):
        I.ghost['trace'] = I.ghost['trace'] + (('repo_reset',),)

    @env.model('BertEProc', 'dispatch', trusted='Dispatcher.dispatch: runs the handler of the job')
    def dispatch(I, self, job):
        I.ghost['trace'] = I.ghost['trace'] + (('dispatch',),)
        k = I.choose_n(4, 'dispatch outcome')
        if k == 0:
            return SInt(I.fresh_term('handler_result', smt.INT, False))
        cls = (X.SilentException, X.TemplateException, Exception)[k - 1]
        raise TargetExc(I.make_exception(cls, [], {}))
    env.allow_inline(BertE._process_error)
    env.print_hook = lambda I, a: None


def ens_process_resets_first(self, job, out, G):
    # the job handler runs on a working clone reset for THIS job: the outcome cannot depend on earlier jobs
    return (len(G.trace) >= 2 and G.trace[0] == ('repo_reset',) and G.trace[1] == ('dispatch',)
            and len([e for e in G.trace if e == ('dispatch',)]) == 1)


# ---------------------------------------------------------------- handle_comments
HC = 'bert_e.workflow.gitwaterflow:handle_comments'


def install_reactor(env):
    from bert_e import reactor as R
    env.classes['Settings']['fields'].update({'admins': 'set[str]'})
    env.add_class('ReactorObj', fields={})
    env.ctors[R.Reactor] = lambda I, cls: I.alloc_obj(None, 'ReactorObj', {})
    env.model('ReactorObj', 'init_settings', trusted='Reactor.init_settings (checked natively over the whole option '
                                                     'registry, see extra())')(lambda I, self, job: None)
    excs = (R.NotFound, R.NotPrivileged, R.NotAuthored, TypeError)

    def outcome(I, classes, what):
        k = I.choose_n(len(classes) + 2, what)
        if k < len(classes):
            e = I.make_exception(classes[k], ['kw'], {})
            if classes[k] is not TypeError:
                I.heap[e.oid]['keyword'] = I.fresh('keyword', 'str', is_input=False)
            raise TargetExc(e)
        if k == len(classes):
            # a handler answered with a message
            raise TargetExc(I.make_exception(X.TemplateException, [], {}))

    @env.model('ReactorObj', 'handle_options', trusted='Reactor.handle_options: applies the options of one comment or '
                                                       'raises NotFound / NotPrivileged / NotAuthored / TypeError / a '
                                                       'message')
    def handle_options(I, self, job, text, prefix, privileged=False, authored=False):
        # summary ghost: how many comments have been handed to the option parser so far
        I.ghost['opt_seen'] = SInt(smt.Add(I.term_of(I.ghost['opt_seen']), smt.IntC(1)))
        outcome(I, excs, 'handle_options')

    @env.model('ReactorObj', 'handle_commands', trusted='Reactor.handle_commands: runs the command of one comment (its '
                                                        'handler answers by raising a message) or raises NotFound / '
                                                        'NotPrivileged')
    def handle_commands(I, self, job, text, prefix, privileged=False):
        I.ghost['trace'] = I.ghost['trace'] + (('command_scan', text),)
        outcome(I, excs[:2], 'handle_commands')
    env.exc_str = lambda I, e: SStr(I.fresh_term('str(err)', smt.STR, False))
    env.site_hooks[(HC, 'handle_commands')] = site_commands_after_last_robot_message
    env.loop(HC, 0, inv_every_comment_parsed_for_options, havoc=[havoc_opt_seen], top_level=True)
    env.loop(HC, 1, inv_no_robot_comment_seen, top_level=True)


def havoc_opt_seen(I, fr):
    I.ghost['opt_seen'] = I.fresh('opt_seen@loop', 'int', is_input=False)


def inv_every_comment_parsed_for_options(_i, G):
    # options are looked for in ALL the comments of the pull request: none is skipped (the option parser itself
    # decides, after stripping, whether a comment is addressed to the robot)
    return G.opt_seen == _i


def inv_no_robot_comment_seen(_i, _seq, job):
    # every comment visited so far (most recent first) is not the robot's
    return all(_seq[k].author != job.settings.robot for k in range(_i))


def site_commands_after_last_robot_message(job, comment, _i, _seq, call_args):
    # a comment is looked at for a command only if it was posted after the robot's last message: it is
    # the _i-th most recent comment and neither it nor any more recent comment is the robot's
    cs = job.pull_request.comments
    return (comment is cs[len(cs) - 1 - _i] and comment is _seq[_i] and call_args[1] == comment.text
            and all(_seq[k].author != job.settings.robot for k in range(_i + 1)))


def ens_hc_events(job, out, G):
    return True


# ---------------------------------------------------------------- find_comment
def is_match(c, username, startswith):
    return c.author == username and (not startswith or c.text.startswith(startswith))


def stops_search(c, username, startswith, max_history):
    """a comment at which the backwards search ends: in -1 mode any comment of `username`,
    otherwise a matching one"""
    return c.author == username and (max_history == -1 or not startswith or c.text.startswith(startswith))


def in_window(k, max_history):
    """k-th most recent comment (k = 0 is the newest) is inside the search window"""
    return max_history is None or max_history == -1 or k < max_history


def recent_first(pull_request):
    return list(reversed(pull_request.comments))


def inv_find_comment(_i, _seq, username, startswith, max_history):
    # none of the comments already visited (most recent first) ends the search
    return all(not stops_search(_seq[j], username, startswith, max_history) for j in range(_i))


def req_find(pull_request, username, startswith, max_history):
    return max_history is None or max_history == -1 or max_history >= 1


def ens_fc_result_is_latest_match(pull_request, username, startswith, max_history, out):
    rs = recent_first(pull_request)
    if not out.returned:
        return False
    if out.value is None:
        return True
    return any(rs[k] is out.value and is_match(rs[k], username, startswith)
               and in_window(k, max_history)
               and all(not stops_search(rs[j], username, startswith, max_history) for j in range(k))
               for k in range(len(rs)))


def ens_fc_none_means_no_match(pull_request, username, startswith, max_history, out):
    rs = recent_first(pull_request)
    if not out.returned or out.value is not None:
        return True
    # every comment in the window that would be returned is preceded (more recent) by one that
    # stops the search without matching; in the non -1 modes this means: no match in the window
    return all(not (in_window(k, max_history) and is_match(rs[k], username, startswith))
               or any(stops_search(rs[j], username, startswith, max_history) for j in range(k))
               for k in range(len(rs)))


def ens_fc_repeat_guard(pull_request, username, startswith, max_history, out):
    """the consequence used by 'never the same message twice in a row': in -1 mode, if the most
    recent comment of `username` starts with the message, it is found"""
    rs = recent_first(pull_request)
    return implies(max_history == -1 and bool(startswith),
                   all(not (rs[k].author == username and rs[k].text.startswith(startswith)
                            and all(rs[j].author != username for j in range(k)))
                       or (out.returned and out.value is not None)
                       for k in range(len(rs))))


# ---------------------------------------------------------------- _send_comment
def trace_setup(I, args):
    I.ghost['trace'] = ()
    I.ghost['opt_seen'] = SInt(smt.IntC(0))


def posted(G):
    return len([t for t in G.trace if t[0] == 'comment'])


def last_robot_comment_repeats(settings, pull_request, msg):
    rs = recent_first(pull_request)
    return any(rs[k].author == settings.robot and rs[k].text.startswith(msg)
               and all(rs[j].author != settings.robot for j in range(k)) for k in range(len(rs)))


def req_send(settings, pull_request, msg, dont_repeat_if_in_history):
    return msg != '' and (dont_repeat_if_in_history is None or dont_repeat_if_in_history >= -1)


def ens_sc_never_twice_in_a_row(settings, pull_request, msg, dont_repeat_if_in_history, out, G):
    # with the default setting (-1) a message equal to the robot's most recent comment is not posted
    return implies(dont_repeat_if_in_history == -1 and last_robot_comment_repeats(settings, pull_request, msg),
                   posted(G) == 0 and out.raised(X.CommentAlreadyExists) or bool(settings.no_comment))


def ens_sc_always_repost_posts(settings, pull_request, msg, dont_repeat_if_in_history, out, G):
    # setting 0 ("allow repeating"): posts unless comments are disabled / the operator declines
    return implies(dont_repeat_if_in_history == 0 and not settings.no_comment and not settings.interactive,
                   out.returned and posted(G) == 1 and G.trace[0][1] == msg)


def ens_sc_at_most_one(settings, pull_request, msg, dont_repeat_if_in_history, out, G):
    return posted(G) <= 1 and (out.returned or out.raised(X.CommentAlreadyExists)) \
        and implies(bool(settings.no_comment), posted(G) == 0)


# ---------------------------------------------------------------- notify_user
def ens_nu_total(settings, pull_request, comment, out, G):
    return out.returned and posted(G) <= 1


def ens_nu_command_answer_posted(settings, pull_request, comment, out, G):
    return implies(comment.dont_repeat_if_in_history == 0 and not settings.no_comment
                   and not settings.interactive, posted(G) == 1)


def req_nu(settings, pull_request, comment):
    return comment.text != '' and (comment.dont_repeat_if_in_history is None
                                   or comment.dont_repeat_if_in_history >= -1)


def contracts(env):
    fc = Contract('bert_e.workflow.pr_utils:find_comment',
                  args={'pull_request': 'PullRequest', 'username': 'str', 'startswith': 'opt[str]',
                        'max_history': 'opt[int]'},
                  requires=req_find, returns='opt[Comment]',
                  ensures=[('result_is_most_recent_match_in_window', ens_fc_result_is_latest_match),
                           ('none_means_nothing_to_find', ens_fc_none_means_no_match),
                           ('latest_robot_repeat_is_found', ens_fc_repeat_guard)],
                  covers=['return'])
    env.add_contract(fc)
    sc = Contract('bert_e.workflow.pr_utils:_send_comment',
                  args={'settings': 'Settings', 'pull_request': 'PullRequest', 'msg': 'str',
                        'dont_repeat_if_in_history': 'opt[int]'},
                  requires=req_send, setup=trace_setup, outcomes=['return', X.CommentAlreadyExists],
                  ensures=[('never_same_message_twice_in_a_row', ens_sc_never_twice_in_a_row),
                           ('repeatable_message_is_posted', ens_sc_always_repost_posts),
                           ('at_most_one_comment', ens_sc_at_most_one)],
                  covers=['return', 'raise:CommentAlreadyExists'])
    nu = Contract('bert_e.workflow.pr_utils:notify_user',
                  args={'settings': 'Settings', 'pull_request': 'PullRequest', 'comment': 'Msg'},
                  requires=req_nu, setup=trace_setup,
                  ensures=[('never_raises_posts_at_most_once', ens_nu_total),
                           ('command_answers_are_always_posted', ens_nu_command_answer_posted)],
                  covers=['return'])
    env.allow_inline('bert_e.workflow.pr_utils:_send_comment')
    hc = Contract(HC, args={'job': 'PullRequestJob'}, setup=trace_setup,
                  ensures=[('commands_only_in_comments_after_the_robots_last_message', ens_hc_events)],
                  covers=['return'])
    pr = Contract(PROC, args={'self': 'BertEProc', 'job': 'opaque'}, setup=trace_setup,
                  ensures=[('working_clone_reset_before_the_handler_runs', ens_process_resets_first)],
                  covers=['return'])
    return [fc, sc, nu, hc, pr]


# ---------------------------------------------------------------- facts
def raised_classes(fn, seen=None):
    """exception classes a function may raise directly or through helpers of its module"""
    seen = seen if seen is not None else set()
    if fn in seen:
        return set()
    seen.add(fn)
    src = inspect.getsource(fn)
    tree = ast.parse(inspect.cleandoc('\n' + src) if src.startswith(' ') else src)
    out = set()
    g = fn.__globals__
    for node in ast.walk(tree):
        if isinstance(node, ast.Raise) and node.exc is not None:
            c = node.exc.func if isinstance(node.exc, ast.Call) else node.exc
            if isinstance(c, ast.Name) and isinstance(g.get(c.id), type):
                out.add(g[c.id])
        if isinstance(node, ast.Call) and isinstance(node.func, ast.Name):
            callee = g.get(node.func.id)
            if inspect.isfunction(callee) and callee.__module__ == fn.__module__:
                out |= raised_classes(callee, seen)
        if isinstance(node, ast.Assign) and isinstance(node.value, ast.Call) and \
                isinstance(node.value.func, ast.Name) and isinstance(g.get(node.value.func.id), type) and \
                issubclass(g[node.value.func.id], BaseException):
            out.add(g[node.value.func.id])     # lossy_reset = LossyResetWarning(...); raise lossy_reset
    return out


def extra(rep, tier, seed, budget):
    from bounded import integrate as _integ
    _integ.system_histories(rep, tier, seed, ['C10_no_repeat'])
    from pyvc.cli import write_replay
    import bert_e.workflow.gitwaterflow as gwf
    from bert_e.reactor import Reactor
    gwf.setup({})
    facts = []
    # F-a: every message a command handler answers with is re-postable (dont_repeat == 0), so that a
    # command comment is always followed by a robot comment and is never read again
    for key, cmd in sorted(Reactor.get_commands().items()):
        for cls in sorted(raised_classes(cmd.handler), key=lambda c: c.__name__):
            if not issubclass(cls, X.TemplateException):
                continue
            ok = cls.dont_repeat_if_in_history == 0
            facts.append(('command %r answers with %s: dont_repeat_if_in_history == 0' % (key, cls.__name__),
                          ok, {'command': key, 'class': cls.__name__,
                               'dont_repeat_if_in_history': cls.dont_repeat_if_in_history}))
    # F-b: no message class outside command answers may be posted twice in a row: its setting is
    # -1 (not if it is the robot's last message), None (never twice) or a window >= 1
    command_answers = {c for cmd in Reactor.get_commands().values() for c in raised_classes(cmd.handler)}
    for name, cls in sorted(vars(X).items()):
        if isinstance(cls, type) and issubclass(cls, X.TemplateException) and cls not in command_answers:
            v = cls.dont_repeat_if_in_history
            ok = v is None or v == -1 or v >= 1 or cls is X.PartialMerge
            facts.append(('%s.dont_repeat_if_in_history in {-1, None, n>=1}' % name, ok,
                          {'class': name, 'value': v}))
    from specs import shared_facts as _sf
    facts.extend(_sf.jobs_do_not_share_settings())
    # F-d: Repository.reset forgets everything a previous job learnt about the remote (no other input)
    w2 = native_repository_reset()
    facts.append(('Repository.reset: new working directory and empty remote-branch caches', w2['ok'], w2))
    # F-c: Reactor.init_settings gives every job its own copy of every registered default (the function has
    # no other input than the option registry: run natively over the whole registry)
    w = native_init_settings()
    facts.append(('Reactor.init_settings: every job starts from the registered defaults and shares no mutable '
                  'object with the registry or with an earlier job', w['ok'], w))
    for what, ok, data in facts:
        rep.obligations += 1
        if ok:
            rep.discharged += 1
            rep.by_backend.setdefault('python-fact', {'count': 0, 'seconds': 0.0})['count'] += 1
        else:
            key = 'fact:%s' % what
            path = write_replay(rep.pid, key, {'fact': what, 'data': data,
                                               'native_witness': 'see specs/c10.py replay_command_rerun'})
            rep.violations.append({'key': key, 'what': what, 'replay': path, 'input': data, 'noinput': False})
    rep.facts.append({'fact': 'exceptions.py / command registry repost settings', 'checked': len(facts),
                      'failed': [w for w, ok, _ in facts if not ok]})


META = {
    'level': 'other',
    'explanation': 'Contracts on find_comment (loop invariant over the reversed comment list, any length), '
                   '_send_comment and notify_user; facts extracted from exceptions.py and the command registry '
                   '(every answer to a command is re-postable, every other message is guarded). The convergence '
                   'clause of C10 (fixed point within two evaluations) is liveness and is not claimed.',
    'assumptions': [
        'the host returns the comment list in posting order; comment authors/texts are strings',
        'messages are non-empty; dont_repeat_if_in_history is None, -1, 0 or >= 1 (asserted by '
        'TemplateException.__init__)',
        '"at most two more evaluations reach a fixed point" and independence from earlier jobs beyond the '
        'settings/clone reset are not decided by contracts',
    ],
    'trusted_base': [],
}


def native_repository_reset():
    import os
    from bert_e.lib import git as GIT
    r = GIT.Repository('https://example.invalid/owner/repo.git')
    problems = []
    try:
        r.reset()
        first = r.tmp_directory
        # what a job leaves behind
        r._remote_heads['0123456789ab'].add('w/5.1/feature/x')
        r._remote_branches['w/5.1/feature/x'] = '0123456789ab'
        r.cmd_directory = os.path.join(first, 'repo')
        r.reset()
        if r.tmp_directory == first or os.path.isdir(first):
            problems.append('working directory of the previous job is kept')
        if r.cmd_directory != r.tmp_directory:
            problems.append('cmd_directory still points into the previous job')
        if len(r._remote_heads) or len(r._remote_branches):
            problems.append('remote branch caches survive: %r %r' % (dict(r._remote_heads), r._remote_branches))
    finally:
        if r.tmp_directory:
            r.delete()
    return {'ok': not problems, 'problems': problems}


def native_init_settings():
    import copy
    from types import SimpleNamespace
    import bert_e.workflow.gitwaterflow as gwf
    from bert_e.reactor import Reactor
    from bert_e.lib.settings_dict import SettingsDict
    gwf.setup({})
    opts = Reactor.get_options()
    snapshot = {k: copy.deepcopy(o.default) for k, o in opts.items()}
    r = Reactor()
    job1 = SimpleNamespace(settings=SettingsDict({}, {}))
    r.init_settings(job1)
    bad = []
    for k in opts:
        if k not in job1.settings or job1.settings[k] != snapshot[k]:
            bad.append('%s: first job starts from %r, registered default %r' % (k, job1.settings.get(k), snapshot[k]))
    # what option handlers do: mutate the job's values in place
    for k in opts:
        v = job1.settings[k]
        if isinstance(v, set):
            v.add('polluted')
        elif isinstance(v, list):
            v.append('polluted')
        elif isinstance(v, dict):
            v['polluted'] = True
    job2 = SimpleNamespace(settings=SettingsDict({}, {}))
    r.init_settings(job2)
    for k, o in opts.items():
        if o.default != snapshot[k]:
            bad.append('%s: registered default changed to %r by a job' % (k, o.default))
        if job2.settings[k] != snapshot[k]:
            bad.append('%s: second job starts from %r instead of %r' % (k, job2.settings[k], snapshot[k]))
        if isinstance(snapshot[k], (set, list, dict)) and (job2.settings[k] is o.default
                                                           or job2.settings[k] is job1.settings[k]):
            bad.append('%s: mutable default object shared between jobs' % k)
    return {'ok': not bad, 'options': sorted(opts), 'problems': bad}


# ---------------------------------------------------------------- native witness for the command facts
def replay_command_rerun(cls_name='ResetComplete'):
    """Real handle_comments + notify_user on a stub pull request: the robot's last comment is the
    answer to a first `reset`; the user sends `reset` again.  Counts how many evaluations execute
    the second command comment (statement: at most once)."""
    from types import SimpleNamespace
    from unittest import mock
    import bert_e.workflow.gitwaterflow as gwf
    from bert_e.workflow.gitwaterflow import commands
    from bert_e.workflow.pr_utils import notify_user
    from bert_e.lib.settings_dict import SettingsDict
    gwf.setup({})
    cls = getattr(X, cls_name)
    executions = []

    def fake_reset(job, force=False):
        executions.append(len(job.pull_request.comments))
        kw = {'couldnt_decline': []} if cls is X.ResetComplete else {}
        raise cls(active_options=[], **kw)
    comments = []
    pr = SimpleNamespace(author='dev', id=1, comments=comments,
                         add_comment=lambda msg: comments.append(SimpleNamespace(author='robot', text=msg)),
                         set_bot_status=lambda *a, **k: None)

    def evaluate():
        job = SimpleNamespace(settings=SettingsDict({}, {'robot': 'robot', 'admins': [], 'no_comment': False,
                                                         'interactive': False, 'send_bot_status': False}),
                              pull_request=pr, active_options=[], bert_e=SimpleNamespace(client=SimpleNamespace(login='robot')))
        try:
            gwf.handle_comments(job)
        except X.TemplateException as err:
            notify_user(job.settings, pr, err)
    with mock.patch.object(commands, '_reset', fake_reset):
        comments.append(SimpleNamespace(author='dev', text='@robot reset'))
        evaluate()                       # first reset: answered
        comments.append(SimpleNamespace(author='dev', text='@robot reset'))
        before = len(executions)
        for _ in range(3):               # three evaluations after the second command comment
            evaluate()
    reruns = len(executions) - before
    return {'ok': reruns <= 1, 'executions_of_second_command': reruns,
            'robot_comments': sum(1 for c in comments if c.author == 'robot')}


def replay_file(data):
    from bounded import integrate as _integ
    if isinstance(data.get('case'), dict) and ('events' in data['case'] or 'fault' in data['case']):
        return _integ.replay(data)
    if 'fact' in data and data.get('data', {}).get('class'):
        return replay_command_rerun(data['data']['class'])
    return None


def _oracle_find(comments, username, startswith, max_history):
    """statement-level reading: scan from the newest comment; in -1 mode only the newest comment of
    `username` counts; otherwise the newest matching comment inside the window"""
    rs = list(reversed(comments))
    if max_history not in (None, -1):
        rs = rs[:max_history]
    for c in rs:
        if c.author != username:
            continue
        good = (not startswith) or c.text.startswith(startswith)
        if good:
            return c
        if max_history == -1:
            return None
    return None


def bounded_for(c, tier, seed):
    """bounded stand-in on the real find_comment / _send_comment (comment lists up to length 4)."""
    import itertools
    from types import SimpleNamespace
    from bert_e.workflow import pr_utils
    if 'find_comment' not in c.label and '_send_comment' not in c.label:
        return None
    alphabet = [('robot', 'MSG x'), ('robot', 'OTHER'), ('dev', 'MSG x')]
    for n in range(0, 5):
        for combo in itertools.product(alphabet, repeat=n):
            comments = [SimpleNamespace(author=a, text=t) for a, t in combo]
            pr = SimpleNamespace(comments=comments)
            for sw in (None, 'MSG'):
                for mh in (None, -1, 1, 2, 3):
                    got = pr_utils.find_comment(pr, username='robot', startswith=sw, max_history=mh)
                    exp = _oracle_find(comments, 'robot', sw, mh)
                    if got is not exp:
                        return {'ok': False, 'input': {'comments': list(combo), 'startswith': sw, 'max_history': mh},
                                'expected': None if exp is None else comments.index(exp),
                                'got': None if got is None else comments.index(got)}
    return None
