"""C04 - the review gate.  Contract on bert_e.workflow.gitwaterflow:check_approvals
(+ the bypass_* helpers and PullRequestJob.author_bypass, interpreted from source
at the call sites: they are 1-2 line functions without independent behaviour).
"""
from types import SimpleNamespace

from pyvc import smt
from pyvc.env import Env, Contract, resolve
from pyvc.values import *  # noqa
from specs import intrinsics
from specs.intrinsics import implies, iff, empty_str_set, ite

PROPERTY = 'C04'


# ----------------------------------------------------------------------------
# spec functions (interpreted symbolically for the VCs, executed natively on
# replay).  Written from the property statement, not from the code.
def bypassed(job, key):
    """admin comment / command line (both land in job.settings) or per-author setting"""
    return bool(job.settings[key]) or bool(job.author_bypass.get(key, False))


def approvers(job):
    """A = host approvals, plus the author when the `approve` option is on."""
    a = set(job.pull_request.get_approvals())
    return ite(job.settings.approve, a | {job.pull_request.author}, a)


def author_ok(job):
    return (not job.settings.need_author_approval
            or bypassed(job, 'bypass_author_approval')
            or bool(job.settings.approve)
            or job.pull_request.author in approvers(job))


def peers_ok(job):
    return (bypassed(job, 'bypass_peer_approval')
            or len(approvers(job) - {job.pull_request.author})
            >= job.settings.required_peer_approvals)


def leaders_ok(job):
    leaders = set(job.settings.project_leaders)
    author = job.pull_request.author
    bonus = ite(author in leaders and author not in approvers(job), 1, 0)
    return (bypassed(job, 'bypass_leader_approval')
            or len(approvers(job) & leaders) + bonus
            >= job.settings.required_leader_approvals)


def unanimity_ok(job):
    participants = set(job.pull_request.get_participants()) - {job.settings.robot}
    return (not job.settings.unanimity) or participants.issubset(approvers(job))


def waived(job):
    """every review requirement is met without consulting the host's review data"""
    return ((not job.settings.need_author_approval
             or bypassed(job, 'bypass_author_approval') or bool(job.settings.approve))
            and (bypassed(job, 'bypass_peer_approval')
                 or job.settings.required_peer_approvals <= 0)
            and (bypassed(job, 'bypass_leader_approval')
                 or job.settings.required_leader_approvals <= 0)
            and not job.settings.unanimity)


def passes(job):
    no_cr = len(set(job.pull_request.get_change_requests())) == 0
    return (author_ok(job) and peers_ok(job) and leaders_ok(job) and unanimity_ok(job)
            and (no_cr or waived(job)))


# ---- contract clauses
def requires(job):
    # SettingsSchema.validate_inter_settings (settings.py:210) + non-negative counts
    s = job.settings
    # a pull request authored by the robot never reaches check_approvals
    # (handle_pull_request redirects it to its parent): input validity
    return (s.robot != job.pull_request.author
            and 0 <= s.required_leader_approvals
            and s.required_leader_approvals <= s.required_peer_approvals
            and s.required_leader_approvals <= len(set(s.project_leaders)))


def ens_returns_iff_approved(job, out):
    return iff(out.returned, passes(job))


def ens_otherwise_approval_required(job, out):
    return implies(not out.returned, out.raised(ApprovalRequired))


def ens_posts_nothing(job, out, G):
    return len(G.trace) == 0


# ----------------------------------------------------------------------------
from bert_e.exceptions import ApprovalRequired  # noqa: E402


from specs.common import base_env  # noqa: E402


def setup(I, args):
    I.ghost['trace'] = I.alloc_list(())


def contracts(env):
    c = Contract(
        'bert_e.workflow.gitwaterflow:check_approvals',
        args={'job': 'PullRequestJob'},
        requires=requires, setup=setup,
        ensures=[('returns_iff_approvals_suffice', ens_returns_iff_approved),
                 ('otherwise_ApprovalRequired', ens_otherwise_approval_required),
                 ('posts_nothing_itself', ens_posts_nothing)],
        covers=['return', 'raise:ApprovalRequired'],
        replay=replay)
    env.keep_logs = False
    return [c]


# ----------------------------------------------------------------------------
# native replay / bounded enumeration on the real function
def build_job(inp):
    """inp: abstract input (names of the symbolic inputs) -> stub job for the real function"""
    from bert_e.lib.settings_dict import SettingsDict
    g = inp.get
    author = g('job.pull_request.author', 'author')
    settings = {
        'required_peer_approvals': g('job.settings.required_peer_approvals', 0),
        'required_leader_approvals': g('job.settings.required_leader_approvals', 0),
        'need_author_approval': g('job.settings.need_author_approval', False),
        'approve': g('job.settings.approve', False),
        'unanimity': g('job.settings.unanimity', False),
        'bypass_peer_approval': g('job.settings.bypass_peer_approval', False),
        'bypass_leader_approval': g('job.settings.bypass_leader_approval', False),
        'bypass_author_approval': g('job.settings.bypass_author_approval', False),
        'robot': g('job.settings.robot', 'robot'),
        'project_leaders': list(g('job.settings.project_leaders', [])),
        'pr_author_options': {},
    }
    if g('pr_author_options.has_author', False):
        dom = g('author_bypass.dom', [])
        settings['pr_author_options'] = {author: {k: bool(g('author_bypass[%s]' % k, True)) for k in dom}}
    trace = []
    pr = SimpleNamespace(
        author=author, id=1,
        get_approvals=lambda: iter(g('pull_request.get_approvals', [])),
        get_participants=lambda: iter(g('pull_request.get_participants', [])),
        get_change_requests=lambda: iter(g('pull_request.get_change_requests', [])),
        add_comment=lambda msg: trace.append(('comment', msg)))
    job = SimpleNamespace(settings=SettingsDict({}, settings), pull_request=pr, active_options=[])
    job.author_bypass = settings['pr_author_options'].get(author, {})
    return job, trace


def replay(inp):
    """Run the real check_approvals on the input and evaluate the contract natively."""
    from bert_e.workflow.gitwaterflow import check_approvals
    job, trace = build_job(inp)
    if not requires(job):
        return {'ok': True, 'skipped': 'precondition does not hold'}
    expected = passes(job)
    try:
        check_approvals(job)
        got = 'return'
    except ApprovalRequired:
        got = 'raise:ApprovalRequired'
    except Exception as e:  # any other exception breaks clause 2
        got = 'raise:' + type(e).__name__
    ok = (got == 'return') == expected and got in ('return', 'raise:ApprovalRequired') and not trace
    return {'ok': ok, 'expected': 'return' if expected else 'raise:ApprovalRequired', 'got': got,
            'trace': trace}


META = {
    'level': 'proof',
    'explanation': 'check_approvals (and the bypass_* helpers / author_bypass property it calls, '
                   'interpreted from source) verified against the statement of C04 for sets of '
                   'users of any size: one VC per clause and execution path, discharged by cvc5 '
                   '(finite sets with cardinality).',
    'assumptions': [
        'job.settings option values are booleans and counts are integers (the type SettingsSchema '
        'and the option registry give them); a textual option argument such as approve=yes is outside '
        'this contract',
        'user handles are plain strings compared by equality',
        'host review data (approvals, participants, change requests) are arbitrary finite sets, '
        'independent of one another, constant during one evaluation',
        'settings satisfy SettingsSchema.validate_inter_settings (0 <= leaders <= peers, leaders <= '
        '|project_leaders|); the pull request author is not the robot',
        'reading of "every review requirement above is waived": each requirement is met without '
        'consulting host review data (DESIGN.md, C04)',
    ],
    'trusted_base': [],
}


def bounded_for(c, tier, seed):
    """Bounded stand-in / cross-check: enumerate the 5-user universe of the property's
    quantifier on the real function; returns the first failing case or None."""
    import itertools
    users = ['author', 'peer1', 'peer2', 'leader', 'robot']
    subsets = [list(s) for r in range(len(users) + 1) for s in itertools.combinations(users, r)]
    import random
    rnd = random.Random(seed)
    n = 0
    for _ in range(4000 if tier == 'quick' else 60000):
        inp = {
            'job.pull_request.author': 'author', 'job.settings.robot': 'robot',
            'job.settings.required_peer_approvals': rnd.randint(0, 3),
            'job.settings.required_leader_approvals': rnd.randint(0, 2),
            'job.settings.need_author_approval': rnd.random() < .5,
            'job.settings.approve': rnd.random() < .3, 'job.settings.unanimity': rnd.random() < .3,
            'job.settings.bypass_peer_approval': rnd.random() < .2,
            'job.settings.bypass_leader_approval': rnd.random() < .2,
            'job.settings.bypass_author_approval': rnd.random() < .2,
            'job.settings.project_leaders': rnd.choice([['leader'], ['leader', 'author'], ['leader', 'peer1']]),
            'pull_request.get_approvals': rnd.choice(subsets),
            'pull_request.get_participants': rnd.choice(subsets),
            'pull_request.get_change_requests': rnd.choice(subsets[:6]),
        }
        r = replay(inp)
        n += 1
        if not r.get('ok', True):
            r['input'] = inp
            return r
    return None


# ---------------------------------------------------------------- the per-author bypass map (an input of the contract)
def extra(rep, tier, seed, budget):
    # the approval / change-request sets are inputs of the contract; on GitHub they are computed by the adapter's
    # review summary (bounded stand-in, labelled bounded)
    from bounded import github_adapter as _gh
    _gh.integrate(rep, ('review_summary',))
    from bounded import userdict as _ud
    _ud.integrate(rep)
    from specs import shared_facts as _sf
    _sf.add_facts(rep, _sf.option_defaults(), 'option registry defaults')
    # job.author_bypass is an input above; the map it reads is built by settings.PrAuthorsOptions.deserialize,
    # checked by a bounded stand-in on the real function (labelled bounded, not counted as proved)
    from bounded import author_options
    author_options.integrate(rep)


def replay_file(data):
    from bounded import author_options
    if isinstance(data.get('case'), dict) and data.get('clause') in ('map', 'authors', 'crash', 'unknown'):
        return author_options.replay(data['case'])
    return None
