"""Schemas and trusted models shared by the GitWaterFlow specs (the typed view of
bert-e's dynamically typed objects; every entry is an assumption about call
sites outside the verified kernel and is listed in the evidence)."""
from pyvc import smt
from pyvc.env import Env, Contract, resolve
from pyvc.values import *  # noqa
from specs import intrinsics


def base_env():
    env = Env()
    intrinsics.install(env)
    env.add_class('Settings', kind='obj', pyclass='bert_e.lib.settings_dict:SettingsDict', fields={
        'required_peer_approvals': 'int', 'required_leader_approvals': 'int',
        'need_author_approval': 'bool', 'approve': 'bool', 'unanimity': 'bool',
        'bypass_peer_approval': 'bool', 'bypass_leader_approval': 'bool',
        'bypass_author_approval': 'bool', 'bypass_build_status': 'bool',
        'robot': 'str', 'project_leaders': 'set[str]', 'pr_author_options': 'AuthorOptions',
        'build_key': 'str', 'repository_host': 'str', 'repository_owner': 'str',
        'repository_slug': 'str',
    })
    env.add_class('AuthorOptions', kind='obj', fields={})
    env.add_class('PullRequest', kind='obj', fields={'author': 'str', 'id': 'int'})
    env.add_class('PullRequestJob', kind='obj', pyclass='bert_e.job:PullRequestJob', fields={
        'settings': 'Settings', 'pull_request': 'PullRequest', 'active_options': 'opaque',
    })

    @env.model('Settings', '__getitem__', trusted='SettingsDict item access = attribute access (ChainMap lookup)')
    def settings_getitem(I, self, key):
        return I.get_attr(self, key)

    @env.model('AuthorOptions', 'get',
               trusted='pr_author_options.get(author, {}) is either {} or a str->bool mapping')
    def ao_get(I, self, key, default=None):
        f = I.heap[self.oid]
        if '@get' not in f:
            f['@get'] = (I.fresh_term('pr_author_options.has_author', smt.BOOL),
                         SMapV(I.fresh_term('author_bypass.dom', smt.SetS(smt.STR)),
                               I.fresh_term('author_bypass.val', smt.ArrS(smt.STR, smt.BOOL)),
                               ('str',), ('bool',)))
        present, m = f['@get']
        return I.ite_val(present, m, default)

    def host_set(name):
        def model(I, self):
            f = I.heap[self.oid]
            k = '@' + name
            if k not in f:
                f[k] = I.fresh_term('pull_request.%s' % name, smt.SetS(smt.STR))
            return I.alloc_set(SSetV(f[k], ('str',)))
        return model
    for n in ('get_approvals', 'get_participants', 'get_change_requests'):
        env.model('PullRequest', n, trusted='git host review data: an arbitrary finite set of user '
                                            'handles, constant during one evaluation')(host_set(n))
    env.allow_inline('bert_e.workflow.gitwaterflow.utils:bypass_peer_approval',
                     'bert_e.workflow.gitwaterflow.utils:bypass_leader_approval',
                     'bert_e.workflow.gitwaterflow.utils:bypass_author_approval',
                     'bert_e.workflow.gitwaterflow.utils:bypass_build_status',
                     'bert_e.job:PullRequestJob.author_bypass')
    env.native.add(locals)
    env.fn_models[locals] = lambda I: SOpaque(I.fresh_term('locals()', smt.REF, False), 'locals')
    install_git_host(env)
    return env




def install_git_host(env):
    """Branch objects seen through a symbolic sequence (immutable view) and the
    git-host repository object."""
    env.add_class('Branch', kind='ref', fields={'name': 'str'})
    env.add_class('HostRepo', kind='obj', fields={})
    env.classes['PullRequestJob']['fields']['project_repo'] = 'HostRepo'

    @env.model('Branch', 'get_latest_commit',
               trusted='Branch.get_latest_commit() = git rev-parse of the local ref: a function of the '
                       'branch, constant while no git command runs')
    def tip(I, self):
        return SStr(smt.App('Branch.tip', [self.t], smt.STR))

    @env.model('HostRepo', 'get_build_status',
               trusted='host.get_build_status(commit, key): a function of (commit, key) during one job')
    def build_status(I, self, commit, key):
        I.ghost.setdefault('status_queries', []).append(commit)
        return SStr(smt.App('host.build_status', [I.term_of(commit), I.term_of(key)], smt.STR))

    @env.model('HostRepo', 'get_build_url', trusted='pure read')
    def build_url(I, self, commit, key):
        return SOpt(smt.App('host.build_url?none', [I.term_of(commit), I.term_of(key)], smt.BOOL),
                    SStr(smt.App('host.build_url', [I.term_of(commit), I.term_of(key)], smt.STR)))

    @env.model('HostRepo', 'get_commit_url', trusted='pure read')
    def commit_url(I, self, commit):
        return SStr(smt.App('host.commit_url', [I.term_of(commit)], smt.STR))
