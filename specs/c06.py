"""C06 - the build gate.  Contract on bert_e.workflow.gitwaterflow:check_build_status
for a sequence of integration branches of ANY length (>= 1)."""
from types import SimpleNamespace

from pyvc import smt
from pyvc.env import Contract
from pyvc.values import *  # noqa
from specs.common import base_env  # noqa
from specs.intrinsics import implies, iff
from bert_e.exceptions import BuildFailed, BuildNotStarted, BuildInProgress

PROPERTY = 'C06'
FIVE = ('SUCCESSFUL', 'INPROGRESS', 'NOTSTARTED', 'STOPPED', 'FAILED')


# -- spec functions (from the statement)
def tip_status(job, b):
    """status, under the configured key, of the CURRENT tip of integration branch b"""
    return job.project_repo.get_build_status(b.get_latest_commit(), job.settings.build_key)


def gate_off(job):
    return (bool(job.settings.bypass_build_status)
            or bool(job.author_bypass.get('bypass_build_status', False))
            or not job.settings.build_key)


def any_bad(job, wbranches):
    return any(tip_status(job, b) in ('FAILED', 'STOPPED') for b in wbranches)


def any_waiting(job, wbranches):
    return any(tip_status(job, b) in ('NOTSTARTED', 'INPROGRESS') for b in wbranches)


def all_green(job, wbranches):
    return all(tip_status(job, b) == 'SUCCESSFUL' for b in wbranches)


def names_distinct(wbranches):
    return all(implies(i != j, wbranches[i].name != wbranches[j].name)
               for i in range(len(wbranches)) for j in range(len(wbranches)))


def requires(job, wbranches):
    # >= 1 integration branch (the source branch itself); the host answers one of its five states
    return (len(wbranches) >= 1
            and all(tip_status(job, b) in FIVE for b in wbranches))


def ens_passes_iff_all_green(job, wbranches, out):
    return iff(out.returned, gate_off(job) or all_green(job, wbranches))


def ens_failed_reported(job, wbranches, out):
    return iff(out.raised(BuildFailed), not gate_off(job) and any_bad(job, wbranches))


def ens_waits_silently(job, wbranches, out):
    return iff(out.raised(BuildNotStarted, BuildInProgress),
               not gate_off(job) and not any_bad(job, wbranches) and any_waiting(job, wbranches))


def ens_only_these_outcomes(job, wbranches, out):
    return out.returned or out.raised(BuildFailed, BuildNotStarted, BuildInProgress)


def ens_posts_nothing(job, wbranches, out, G):
    return len(G.trace) == 0


def setup(I, args):
    I.ghost['trace'] = I.alloc_list(())
    # names of the integration branches of one pull request are pairwise distinct
    # (w/<version>/<src> for distinct versions + the source branch): assumed, see META
    sv = I.seq_value(args['wbranches'])
    i, j = smt.fresh_bound('i', smt.INT), smt.fresh_bound('j', smt.INT)
    n = smt.SeqLen(sv.t)
    I.assume(smt.ForAll([i, j], smt.Implies(
        smt.And(smt.Le(smt.IntC(0), i), smt.Lt(i, n), smt.Le(smt.IntC(0), j), smt.Lt(j, n),
                smt.Not(smt.Eq(i, j))),
        smt.Not(smt.Eq(smt.App('Branch.name', [smt.SeqNth(sv.t, i)], smt.STR),
                       smt.App('Branch.name', [smt.SeqNth(sv.t, j)], smt.STR))))))
    # outputs for replay: status of each of the first branches
    key = I.get_attr(I.get_attr(args['job'], 'settings'), 'build_key')
    for k in range(5):
        e = smt.SeqNth(sv.t, smt.IntC(k))
        tipk = smt.App('Branch.tip', [e], smt.STR)
        I.extra_outputs['status[%d]' % k] = smt.App('host.build_status', [tipk, key.t], smt.STR)
        I.extra_outputs['tip[%d]' % k] = tipk


def contracts(env):
    return [Contract(
        'bert_e.workflow.gitwaterflow:check_build_status',
        args={'job': 'PullRequestJob', 'wbranches': 'seq[Branch]'},
        requires=requires, setup=setup,
        ensures=[('passes_iff_gate_off_or_all_green', ens_passes_iff_all_green),
                 ('BuildFailed_iff_some_failed_or_stopped', ens_failed_reported),
                 ('waits_silently_iff_some_pending_and_none_failed', ens_waits_silently),
                 ('no_other_outcome', ens_only_these_outcomes),
                 ('posts_nothing_itself', ens_posts_nothing)],
        covers=['return', 'raise:BuildFailed', 'raise:BuildNotStarted', 'raise:BuildInProgress'],
        replay=replay)]


# -- native replay
def build(inp):
    from bert_e.lib.settings_dict import SettingsDict
    g = inp.get
    n = max(1, min(int(g('wbranches.len', 1)), 5))
    key = g('job.settings.build_key', 'pre-merge')
    names, tips, sts = [], [], {}
    for k in range(n):
        nm = g('wbranches[%d].name' % k, 'w/%d' % k)
        if nm in names:
            nm = '%s~%d' % (nm, k)
        names.append(nm)
        tip = g('tip[%d]' % k) or 'sha%d' % k
        tips.append(tip)
    for k in range(n):
        sts.setdefault(tips[k], g('status[%d]' % k, 'SUCCESSFUL'))
    author = g('job.pull_request.author', 'author')
    settings = {'bypass_build_status': g('job.settings.bypass_build_status', False),
                'build_key': key, 'pr_author_options': {}, 'repository_host': 'h',
                'repository_owner': 'o', 'repository_slug': 's'}
    if g('pr_author_options.has_author', False):
        settings['pr_author_options'] = {author: {k: True for k in g('author_bypass.dom', [])}}
    queries = []

    def get_build_status(commit, k):
        queries.append((commit, k))
        return sts.get(commit, 'NOTSTARTED') if k == key else 'NOTSTARTED'
    repo = SimpleNamespace(get_build_status=get_build_status, get_build_url=lambda c, k: None,
                           get_commit_url=lambda c: 'url')
    wbranches = [SimpleNamespace(name=names[k], get_latest_commit=(lambda t=tips[k]: t))
                 for k in range(n)]
    pr = SimpleNamespace(author=author, id=1)
    job = SimpleNamespace(settings=SettingsDict({}, settings), pull_request=pr, active_options=[],
                          project_repo=repo)
    job.author_bypass = settings['pr_author_options'].get(author, {})
    return job, wbranches, sts, tips


def expected_outcome(job, wbranches, sts, tips):
    off = bool(job.settings.bypass_build_status) or bool(job.author_bypass.get('bypass_build_status')) \
        or not job.settings.build_key
    vals = [sts[t] for t in tips]
    if off or all(v == 'SUCCESSFUL' for v in vals):
        return {'return'}
    if any(v in ('FAILED', 'STOPPED') for v in vals):
        return {'raise:BuildFailed'}
    return {'raise:BuildNotStarted', 'raise:BuildInProgress'}


def replay(inp):
    from bert_e.workflow.gitwaterflow import check_build_status
    job, wbranches, sts, tips = build(inp)
    if not all(v in FIVE for v in sts.values()):
        return {'ok': True, 'skipped': 'precondition'}
    exp = expected_outcome(job, wbranches, sts, tips)
    try:
        check_build_status(job, wbranches)
        got = 'return'
    except Exception as e:
        got = 'raise:' + type(e).__name__
    return {'ok': got in exp, 'expected': sorted(exp), 'got': got,
            'statuses': [sts[t] for t in tips]}


def bounded_for(c, tier, seed):
    import itertools
    for n in range(1, 5):
        for vec in itertools.product(FIVE, repeat=n):
            for bypass, key in ((False, 'k'), (True, 'k'), (False, '')):
                inp = {'wbranches.len': n, 'job.settings.build_key': key,
                       'job.settings.bypass_build_status': bypass}
                for k, v in enumerate(vec):
                    inp['status[%d]' % k] = v
                    inp['tip[%d]' % k] = 'sha%d' % k
                r = replay(inp)
                if not r['ok']:
                    r['input'] = inp
                    return r
    return None


META = {
    'level': 'proof',
    'explanation': 'check_build_status verified against the statement of C06 for a sequence of '
                   'integration branches of any length: the dict comprehension, max(key=...) and the '
                   'severity table are symbolically executed from the real AST; quantified VCs over '
                   'branch indices.',
    'assumptions': [
        'the host answers one of SUCCESSFUL/INPROGRESS/NOTSTARTED/STOPPED/FAILED for every (commit, key)',
        'integration branch names of one pull request are pairwise distinct',
        'get_build_status is a function of (commit, key) during one evaluation; get_latest_commit is '
        'the current local tip (that the statuses consulted are those of the tips at evaluation time '
        'is part of the contract: the commit argument of every query is branch.get_latest_commit())',
        'option values are booleans, build_key is a string',
    ],
    'trusted_base': [],
}


# ---------------------------------------------------------------- the per-author bypass map (an input of the contract)
def extra(rep, tier, seed, budget):
    # the build status the gate reads on GitHub (build key github_actions) is the aggregation of the workflow runs:
    # its contracts (C17) are run here as well
    from pyvc import cli as _cli
    from specs import c17 as _c17
    _e17 = _c17.base_env()
    for _c in _c17.contracts(_e17):
        if _c.label.endswith('AggregatedWorkflowRuns.branch_state'):
            _c.label = _c.label + ' [C06 github_actions verdict]'
            _cli.handle_function(rep, _c17, _e17, _c, budget, _cli.load_lock().get('C06', {}))
    rep.trusted.extend(_e17.trusted)
    _c17.extra(rep, tier, seed, budget)   # bounded stand-in of the aggregation (labelled bounded)
    # job.author_bypass is an input above; the map it reads is built by settings.PrAuthorsOptions.deserialize,
    # checked by a bounded stand-in on the real function (labelled bounded, not counted as proved)
    from bounded import author_options
    author_options.integrate(rep)
    # job.settings.bypass_build_status is an input of the gate as well: it must come from THIS pull request's
    # comments - every job starts from the registered defaults and shares no mapping with another job
    from specs import shared_facts as _sf
    from pyvc.cli import write_replay
    for what, ok, data in _sf.jobs_do_not_share_settings() + _sf.init_settings_resets_options():
        rep.obligations += 1
        if ok:
            rep.discharged += 1
            rep.by_backend.setdefault('python-fact', {'count': 0, 'seconds': 0.0})['count'] += 1
        else:
            key = 'fact:%s' % what
            rep.violations.append({'key': key, 'what': what, 'replay': write_replay(rep.pid, key, {'fact': what, 'data': data}),
                                   'input': data, 'noinput': False})
    rep.facts.append({'fact': 'per-job option state (Job settings mapping, Reactor.init_settings)', 'checked': 2})


def replay_file(data):
    if isinstance(data.get('case'), dict) and ('runs' in data['case'] or 'steps' in data['case'] or 'events' in data['case']):
        from specs import c17 as _c17
        return _c17.replay_file(data)
    from bounded import author_options
    if isinstance(data.get('case'), dict) and data.get('clause') in ('map', 'authors', 'crash', 'unknown'):
        return author_options.replay(data['case'])
    return None
