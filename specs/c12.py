"""C12 - held-back, finished and foreign pull requests are left alone.

Kernel: early_checks, check_dependencies (k = 0..3 dependencies, everything else
symbolic), and the prefix of _handle_pull_request up to clone_git_repo composed
modularly from the callee contracts (early_checks, send_greetings,
handle_comments, check_dependencies).
"""
from pyvc import smt
from pyvc.env import Contract
from pyvc.interp import TargetExc
from pyvc.values import *  # noqa
from specs.common import base_env as _base_env
from specs.intrinsics import implies, iff
from bert_e import exceptions as X

PROPERTY = 'C12'


class ReachedClone(Exception):
    """spec marker: the evaluation went on to clone the repository (= proceeds normally)"""


# ---------------------------------------------------------------- spec predicates
def recognized(name):      # native meaning: the C18 grammar; symbolic: uninterpreted
    from bert_e.workflow.gitwaterflow.branches import branch_factory
    try:
        branch_factory(None, name)
        return True
    except X.UnrecognizedBranchPattern:
        return False


def producer(name):
    from bert_e.workflow.gitwaterflow.branches import branch_factory
    return branch_factory(None, name).cascade_producer


def consumer(name):
    from bert_e.workflow.gitwaterflow.branches import branch_factory
    return branch_factory(None, name).cascade_consumer


def handled(pr):
    """Bert-E handles this pull request (statement: open or declined, source a producer,
    destination development/stabilization/hotfix)"""
    return (pr.status in ('OPEN', 'DECLINED') and recognized(pr.src_branch) and recognized(pr.dst_branch)
            and producer(pr.src_branch) and consumer(pr.dst_branch))


def base_env():
    env = _base_env()
    for name in ('recognized', 'producer', 'consumer'):
        fn = globals()[name]
        env.intrinsics[fn] = (lambda nm: lambda I, s: SBool(smt.App('gwf.' + nm, [I.term_of(s)], smt.BOOL)))(name)
    env.classes['PullRequest']['fields'].update({'status': 'str', 'src_branch': 'str', 'dst_branch': 'str',
                                                 'author_display_name': 'str'})
    env.classes['Settings']['fields'].update({'wait': 'bool', 'after_pull_request': 'opaque'})
    env.add_class('GitRepo', fields={})
    env.add_class('GitNS', fields={'repo': 'GitRepo'})
    env.add_class('DepPR', kind='ref', fields={'status': 'str'})
    env.classes['PullRequestJob']['fields'].update({'git': 'GitNS'})

    @env.model('GitRepo', 'remote_branch_exists', trusted='git ls-remote --heads: pure read of the remote')
    def rbe(I, self, name):
        return SBool(smt.App('remote.has_branch', [I.term_of(name)], smt.BOOL))

    @env.model('HostRepo', 'get_pull_request',
               trusted='host.get_pull_request(id): raises for an unknown id, otherwise a PR with a status')
    def get_pr(I, self, pr_id):
        known = smt.App('host.pr_exists', [I.int_term(pr_id)], smt.BOOL)
        if not I.choose(known):
            raise TargetExc(I.make_exception(Exception, ['not found'], {}))
        return SRef(smt.App('host.pr', [I.int_term(pr_id)], smt.REF), 'DepPR')

    def cascade_query(which):
        def model(I, name):
            rec = smt.App('gwf.recognized', [I.term_of(name)], smt.BOOL)
            if not I.choose(rec):
                raise TargetExc(I.make_exception(X.UnrecognizedBranchPattern, [name], {}))
            return SBool(smt.App('gwf.' + which, [I.term_of(name)], smt.BOOL))
        return model
    env.fn_model('bert_e.workflow.gitwaterflow.branches:is_cascade_producer',
                 trusted='contract of is_cascade_producer in terms of the classification predicates '
                         '(their meaning on names is C18)')(cascade_query('producer'))
    env.fn_model('bert_e.workflow.gitwaterflow.branches:is_cascade_consumer',
                 trusted='contract of is_cascade_consumer (C18)')(cascade_query('consumer'))

    @env.fn_model('bert_e.workflow.gitwaterflow.branches:branch_factory', trusted='branch_factory (C18)')
    def bf(I, repo, name):
        rec = smt.App('gwf.recognized', [I.term_of(name)], smt.BOOL)
        if not I.choose(rec):
            raise TargetExc(I.make_exception(X.UnrecognizedBranchPattern, [name], {}))
        return I.alloc_obj(None, None, {'name': name})
    from bert_e.workflow.gitwaterflow.branches import BranchCascade
    env.ctors[BranchCascade] = lambda I, cls: I.alloc_obj(None, None, {})

    @env.fn_model('bert_e.workflow.git_utils:clone_git_repo', trusted='marks the point where the repository is cloned')
    def clone(I, job):
        I.ghost['trace'] = I.ghost['trace'] + (('clone',),)
        raise TargetExc(I.make_exception(ReachedClone, [], {}))

    @env.fn_model('bert_e.workflow.gitwaterflow:send_greetings',
                  trusted='send_greetings posts at most the greeting comment (contract from its body: '
                          'find_comment + notify_user(InitMessage))')
    def greet(I, job):
        if I.choose(None, 'greeting already posted'):
            return None
        I.ghost['trace'] = I.ghost['trace'] + (('comment', 'InitMessage'),)

    @env.fn_model('bert_e.workflow.gitwaterflow:handle_comments',
                  trusted='handle_comments (C07/C10): sets options from comments (wait, after_pull_request, ...), '
                          'may execute a command, may raise a TemplateException; it never creates integration '
                          'branches, queue entries or merges')
    def comments(I, job):
        s = I.get_attr(job, 'settings')
        I.set_attr(s, 'wait', I.fresh('wait_after_comments', 'bool'))
        I.ghost['deps'] = None
        k = I.choose_n(3, 'handle_comments outcome')
        if k == 1:
            raise TargetExc(I.make_exception(X.UnknownCommand, [], {}))
        if k == 2:
            I.ghost['trace'] = I.ghost['trace'] + (('command',),)
            raise TargetExc(I.make_exception(X.HelpMessage, [], {}))
    env.allow_inline('bert_e.workflow.gitwaterflow:early_checks', 'bert_e.workflow.gitwaterflow:check_dependencies')
    return env


# ---------------------------------------------------------------- early_checks
def trace_setup(I, args):
    I.ghost['trace'] = ()


def ens_ec_unhandled_silent(job, out, G):
    pr = job.pull_request
    return implies(not handled(pr),
                   out.raised(X.SilentException, X.UnrecognizedBranchPattern) and len(G.trace) == 0)


def ens_ec_status(job, out, G):
    return implies(job.pull_request.status not in ('OPEN', 'DECLINED'), out.raised(X.NothingToDo))


def ens_ec_handled_goes_on(job, out, G):
    pr = job.pull_request
    return implies(handled(pr), (out.returned or out.raised(X.WrongDestination)) and len(G.trace) == 0)


# ---------------------------------------------------------------- check_dependencies (k deps)
def deps_setup_k(k):
    def setup(I, args):
        I.ghost['trace'] = ()
        ids = tuple(I.fresh('dep%d' % i, 'str') for i in range(k))
        for a in range(k):
            for b in range(a + 1, k):
                I.assume(smt.Not(smt.Eq(ids[a].t, ids[b].t)))
        s = I.get_attr(args['job'], 'settings')
        I.set_attr(s, 'after_pull_request', ids)
        I.ghost['deps'] = ids
    return setup


def dep_merged(job, pr_id):
    """the dependency names an existing pull request that is MERGED"""
    try:
        n = int(pr_id)
    except ValueError:
        return False
    try:
        return job.project_repo.get_pull_request(n).status == 'MERGED'
    except Exception:
        return False


def ens_cd_returns_iff_free(job, out, G):
    return iff(out.returned,
               not job.settings.wait and all(dep_merged(job, d) for d in G.deps))


def ens_cd_wait_silent(job, out, G):
    return implies(bool(job.settings.wait), out.raised(X.NothingToDo)) and len(G.trace) == 0


def ens_cd_outcomes(job, out, G):
    return out.returned or out.raised(X.NothingToDo, X.AfterPullRequest, X.IncorrectPullRequestNumber)


# ---------------------------------------------------------------- _handle_pull_request prefix
def hp_setup(I, args):
    I.ghost['trace'] = ()
    job = args['job']
    I.set_attr(I.get_attr(job, 'git'), 'cascade', None)
    I.set_attr(I.get_attr(job, 'settings'), 'after_pull_request', ())   # dependencies: see check_dependencies
    I.ghost['deps'] = ()


def no_mutation(trace):
    return all(t[0] in ('comment', 'command') for t in trace)


def ens_hp_unhandled_no_comment(job, out, G):
    return implies(not handled(job.pull_request),
                   out.raised(X.SilentException, X.UnrecognizedBranchPattern) and len(G.trace) == 0)


def ens_hp_hold_blocks_before_clone(job, out, G):
    # settings.wait here is the value after the comments were read
    return implies(handled(job.pull_request) and bool(job.settings.wait),
                   not out.raised(ReachedClone) and no_mutation(G.trace))


def ens_hp_free_proceeds(job, out, G):
    # hold lifted and nothing else objects: the evaluation goes on to the repository
    return (not out.raised(ReachedClone)) or (
        handled(job.pull_request) and not job.settings.wait and len(G.trace) > 0
        and G.trace[-1][0] == 'clone' and no_mutation(G.trace[:-1]))


def contracts(env):
    cs = [
        Contract('bert_e.workflow.gitwaterflow:early_checks', args={'job': 'PullRequestJob'}, setup=trace_setup,
                 ensures=[('unhandled_pr_silent_no_comment', ens_ec_unhandled_silent),
                          ('finished_pr_NothingToDo', ens_ec_status),
                          ('handled_pr_goes_on_or_wrong_destination', ens_ec_handled_goes_on)],
                 covers=['return', 'raise:NothingToDo', 'raise:NotMyJob', 'raise:WrongDestination',
                         'raise:UnrecognizedBranchPattern']),
    ]
    for k in range(0, 4):
        cs.append(Contract(
            'bert_e.workflow.gitwaterflow:check_dependencies', args={'job': 'PullRequestJob'},
            setup=deps_setup_k(k), label='bert_e.workflow.gitwaterflow:check_dependencies[%d dependencies]' % k,
            ensures=[('returns_iff_no_wait_and_all_dependencies_merged', ens_cd_returns_iff_free),
                     ('wait_is_silent', ens_cd_wait_silent),
                     ('only_documented_outcomes', ens_cd_outcomes)],
            covers=['return', 'raise:NothingToDo'] + (['raise:AfterPullRequest'] if k else [])))
    cs.append(Contract(
        'bert_e.workflow.gitwaterflow:_handle_pull_request', args={'job': 'PullRequestJob'}, setup=hp_setup,
        ensures=[('unhandled_pr_gets_no_comment_at_all', ens_hp_unhandled_no_comment),
                 ('wait_blocks_before_clone_without_mutation', ens_hp_hold_blocks_before_clone),
                 ('reaches_repository_only_when_free', ens_hp_free_proceeds)],
        covers=['raise:ReachedClone', 'raise:NothingToDo', 'raise:NotMyJob']))
    cs.append(Contract(
        'bert_e.workflow.gitwaterflow.commands:after_pull_request',
        args={'job': 'PullRequestJob', 'pr_id': 'opt[str]'}, setup=apr_setup,
        ensures=[('records_exactly_the_given_numeric_id_as_a_dependency', ens_apr)],
        covers=['return', 'raise:IncorrectCommandSyntax']))
    return cs


# ---------------------------------------------------------------- the after_pull_request option handler
def apr_setup(I, args):
    job = args['job']
    I.heap[job.oid]['bert_e'] = I.alloc_obj(None, None, {'client': I.alloc_obj(None, None, {'login': 'robot'})})
    deps = I.alloc_set(I.fresh('after_pull_request', 'fset[str]'))
    I.set_attr(I.get_attr(job, 'settings'), 'after_pull_request', deps)
    I.ghost['deps0'] = I.set_value(deps)


def ens_apr(job, pr_id, out, G):
    deps = job.settings.after_pull_request
    if pr_id is None:
        return out.raised(X.IncorrectCommandSyntax)
    # a numeric id is recorded as ONE dependency (the id itself); anything else changes nothing
    return out.returned and (deps == G.deps0 or deps == G.deps0 | {pr_id}) \
        and all(x in deps for x in G.deps0) and all(x in G.deps0 or x == pr_id for x in deps)


def extra(rep, tier, seed, budget):
    from pyvc import cli as _cli
    from specs import c10 as _m07
    _e07 = _m07.base_env()
    for _c in _m07.contracts(_e07):
        if 'handle_comments' in _c.label:
            _c.label = _c.label + ' [C12 every comment is scanned for options]'
            _cli.handle_function(rep, _m07, _e07, _c, budget, _cli.load_lock().get('C12', {}))
    rep.trusted.extend(_e07.trusted)
    from pyvc import cli as _cli
    from specs import c19 as _m19
    _e19 = _m19.base_env()
    for _c in _m19.contracts(_e19):
        if 'handle_declined_pull_request' in _c.label:
            _c.label = _c.label + ' [C12 a declined pull request never proceeds]'
            _cli.handle_function(rep, _m19, _e19, _c, budget, _cli.load_lock().get('C12', {}))
    rep.trusted.extend(_e19.trusted)
    from specs import shared_facts as _sf
    _sf.add_facts(rep, _sf.init_settings_fresh(), 'Reactor.init_settings (whole option registry)')
    from bounded import integrate as _integ
    _integ.system_histories(rep, tier, seed, ['C12_holds'])
    # what holds a pull request back is read from the comments: every declared dependency (and `wait`) must reach
    # job.settings - the end-to-end oracle of the comment stand-in (bounded/c07_tokenizer.py, real handle_comments),
    # restricted to the options that hold a pull request back
    from bounded import c07_tokenizer as _tk
    from pyvc.cli import write_replay as _wr
    _r = _tk.run(tier, seed)
    rep.bounded.append({'name': _r['name'] + ' [C12: holding options reach the job]', 'scope': _r['scope'],
                        'cases': _r['cases'], 'exhaustive': _r.get('exhaustive'), 'wall_s': _r.get('wall_s')})
    _seen = set()
    for _f in _r.get('failures', []):
        _e, _g = _f.get('expected'), _f.get('got')
        if _f.get('clause') != 'outcome_mismatch' or not isinstance(_e, dict) or not isinstance(_g, dict):
            continue
        if _e.get('outcome') != _g.get('outcome'):
            continue
        _eo, _go = _e.get('options') or {}, _g.get('options') or {}
        _lost = [k for k in ('after_pull_request', 'wait') if _eo.get(k) and _eo.get(k) != _go.get(k)]
        if not _lost or len(_seen) >= 3:
            continue
        _k = 'bounded:c07_tokenizer:holding_option_lost:%s' % _lost[0]
        if _k in _seen:
            continue
        _seen.add(_k)
        rep.violations.append({'key': _k, 'what': 'a declared %s does not reach the job: expected %r, got %r'
                               % (_lost[0], _eo.get(_lost[0]), _go.get(_lost[0])),
                               'replay': _wr(rep.pid, _k, _f), 'input': _f.get('case'), 'noinput': False})


def replay_file(data):
    from bounded import integrate as _integ
    return _integ.replay(data)


META = {
    'level': 'proof',
    'explanation': 'early_checks and check_dependencies verified against the statement (the latter for 0..3 '
                   'dependencies, each symbolic); the prefix of _handle_pull_request up to clone_git_repo is '
                   'verified modularly: holds and foreign pull requests raise before the repository is cloned, '
                   'foreign ones with an empty effect trace.',
    'assumptions': [
        'classification of names (recognized / cascade producer / consumer) is abstract here; its meaning is C18',
        'number of after_pull_request dependencies <= 3 in the check_dependencies contract (loop unrolled; '
        'ids, existence and statuses symbolic); a non-numeric dependency argument is not a dependency',
        'handle_comments and send_greetings are used through assumed contracts (their own properties: C07, C10)',
        'the host answers get_pull_request consistently during one evaluation',
    ],
    'trusted_base': [],
}
