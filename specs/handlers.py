"""Contracts shared by the repository-level properties on the pull-request and queue
handlers (C02 C08 C15 C19; C01/C03 add the ancestry part in their own modules).

One symbolic execution of each handler carries obligations for several properties;
an obligation is emitted only when its property tag equals env.prop.
"""
from pyvc import smt
from pyvc.env import Env, Contract
from pyvc.interp import TargetExc
from pyvc.values import *  # noqa
from specs import intrinsics, gitmodel
from specs.gitmodel import emit, mutated, owned_term, name_of, cls_of, br
from specs.intrinsics import implies, iff
from bert_e import exceptions as X
from bert_e.lib import git as GIT
from bert_e.workflow.gitwaterflow import branches as B

STR, BOOL, INT = smt.STR, smt.BOOL, smt.INT


def wname(version, src):
    return 'w/{}/{}'.format(version, src)


def base_env(prop):
    env = Env()
    env.prop = prop
    intrinsics.install(env)
    gitmodel.install(env)
    env.add_class('HSettings', fields={'robot': 'str', 'use_queue': 'bool', 'no_octopus': 'bool',
                                       'always_create_integration_pull_requests': 'bool',
                                       'create_pull_requests': 'bool', 'build_key': 'str'})
    env.add_class('HPR', fields={'id': 'int', 'src_branch': 'str', 'dst_branch': 'str', 'status': 'str',
                                 'title': 'str', 'author_display_name': 'str'})
    env.add_class('Host', fields={})
    env.add_class('Casc', fields={'dst_branches': 'seq[Br]', 'ignored_branches': 'opaque'})
    env.add_class('GitNS', fields={'src_branch': 'Br', 'dst_branch': 'Br', 'cascade': 'Casc'})
    env.add_class('BertEObj', fields={})
    env.add_class('HJob', fields={'settings': 'HSettings', 'pull_request': 'HPR', 'project_repo': 'Host',
                                  'git': 'GitNS', 'bert_e': 'BertEObj', 'active_options': 'opaque'})
    env.attr_models[('GitNS', 'repo')] = ModelMethod(lambda I, self: I.ghost['repo'], 'job.git.repo')
    env.add_class('ChildPR', kind='ref', fields={'status': 'str', 'src_branch': 'str', 'dst_branch': 'str',
                                                 'id': 'int'})
    env.add_class('Commit', kind='ref', fields={'author': 'str', 'parents': 'seq[Commit]'})
    env.fn_models[B.build_branch_cascade] = lambda I, job: I.get_attr(I.get_attr(job, 'git'), 'cascade')

    @env.model('Host', 'get_pull_requests', trusted='host: the pull requests whose source branch is one of the names')
    def get_prs(I, self, src_branch=None):
        prs = I.fresh('host_prs', 'fseq[ChildPR]', is_input=True)
        names = I.seq_value(src_branch)
        i = smt.fresh_bound('i', INT)
        k = smt.fresh_bound('k', INT)
        # every returned pull request has one of the requested source names
        I.assume(smt.ForAll([i], smt.Implies(
            smt.And(smt.Le(smt.IntC(0), i), smt.Lt(i, smt.SeqLen(prs.t))),
            smt.Exists([k], smt.And(smt.Le(smt.IntC(0), k), smt.Lt(k, smt.SeqLen(names.t)),
                                    smt.Eq(smt.App('ChildPR.src_branch', [smt.SeqNth(prs.t, i)], STR),
                                           smt.SeqNth(names.t, k)))))))
        I.ghost['host_prs'] = prs
        return prs

    @env.model('ChildPR', 'decline', trusted='host: decline a pull request')
    def decline(I, self):
        emit(I, 'decline', self)
        if I.choose(None, 'decline fails'):
            raise TargetExc(I.make_exception(Exception, ['host error'], {}))

    @env.model('Host', 'get_pull_request', trusted='host lookup')
    def get_pr(I, self, pr_id):
        return I.fresh('looked_up_pr', 'HPR', is_input=False)
    # commits
    env.model('Br', 'get_commit_diff', trusted='git log a..b: some sequence of commits')(
        lambda I, self, other, ignore_merges=True: I.alloc_list(I.fresh(
            'commit_diff', 'fseq[Commit]', is_input=False)))
    env.allow_inline(B.IntegrationBranch.remove, B.GhostIntegrationBranch.remove)
    env.ref_methods[('Br', 'remove')] = B.IntegrationBranch.remove     # w/ branches; plain branches: below
    env.on_event = on_event
    return env


# ---------------------------------------------------------------- obligations attached to events
def tagged(I, prop, name, kind, term, where=''):
    if I.env.prop == prop or (isinstance(prop, tuple) and I.env.prop in prop):
        I.oblige('[%s] %s' % (I.env.prop, name), kind, term, where)


def on_event(I, ev):
    kind = ev[0]
    if I.ghost.get('callee_level'):
        return
    if kind == 'delete_local':
        nm = I.term_of(ev[1])
        tagged(I, 'C08', 'local deletion only of an owned branch (w/, q/, tmp/)', 'site', owned_term(nm), 'delete')
        scope = I.ghost.get('deletion_scope')
        if scope is not None:
            tagged(I, ('C15', 'C19'), 'deletes only the integration branches of this pull request', 'site',
                   scope(I, ev[1]), 'delete')
    elif kind == 'push_all':
        x = smt.fresh_bound('x', STR)
        d = I.ghost['deleted'].t
        tagged(I, 'C08', 'push --all --prune propagates only deletions of owned branches', 'site',
               smt.Eq(smt.SetFilter(d, x, smt.Not(owned_term(x))), smt.SetEmpty(STR)), 'push_all')
        tagged(I, 'C02', 'destination branches are published by the single atomic push at the end', 'site',
               smt.BoolC(not any(e[0] in ('push_all',) for e in I.ghost['trace'][:-1])), 'push_all')
    elif kind == 'push':
        items = I.concrete_items(ev[1])
        if items is not None:
            t = smt.And(*[owned_term(I.term_of(name_of(I, b))) for b in items])
        else:
            sv = I.seq_value(ev[1])
            i = smt.fresh_bound('i', INT)
            t = smt.ForAll([i], smt.Implies(smt.And(smt.Le(smt.IntC(0), i), smt.Lt(i, smt.SeqLen(sv.t))),
                                            owned_term(smt.SeqNth(sv.t, i))))
        tagged(I, ('C02', 'C08'), 'named pushes only write owned branches (w/, q/)', 'site', t, 'push')
    elif kind == 'push_delete':
        tagged(I, ('C02', 'C08'), 'remote deletion only of owned branches', 'site',
               owned_term(I.term_of(ev[1])), 'push_delete')
    elif kind == 'push_refspec':
        tagged(I, ('C02', 'C08'), 'no raw push', 'site', smt.FALSE, 'push')
    elif kind == 'decline':
        scope = I.ghost.get('decline_scope')
        if scope is not None:
            tagged(I, ('C15', 'C19'), 'declines only open integration pull requests of this pull request', 'site',
                   scope(I, ev[1]), 'decline')


# ---------------------------------------------------------------- loop invariants over the summary ghosts
def inv_deleted_owned(G):
    return all(x.startswith('w/') or x.startswith('q/') or x.startswith('tmp/') for x in G.deleted)


def havoc_local(I, fr):
    I.ghost['deleted'] = SSetV(I.fresh_term('deleted@loop', smt.SetS(STR), False), ('str',))
    I.ghost['lv'] += 1


def setup_common(I, args):
    gitmodel.setup_ghost(I)
    I.ghost['last_failed'] = False
    I.ghost['deletion_scope'] = None
    I.ghost['decline_scope'] = None
