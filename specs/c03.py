"""C03 - with queues on, destination branches only advance to CI-validated commits.

Deductive (ghost ancestry model of specs/c01.py, real code):
  * merge_queues moves each destination EXACTLY onto the first listed queue entry of its version
    (fast-forward: the destination ends on the very commit that was built) - contract shared with C01;
  * queueing.is_needed answers "no queue needed" only when queues are on with skip_queue_when_not_needed,
    nothing is queued, and the source and EVERY integration branch already include their destination
    branch - the precondition under which the direct merge is a fast-forward onto the built commits;
  * the build gate in front of both paths is C06.
Bounded (labelled bounded, not counted as proved): bounded/c05_queue.py runs the real
QueueCollection selection + merge_queues on an in-memory repository for every status matrix of its
scope and checks that every destination moved onto a SUCCESSFUL commit (clause c).
Known findings: F4 (QueueCollection._process never re-checks a path after another path shortened the
selection) and F10 (direct merge with no_octopus creates new, unbuilt merge commits).
"""
from pyvc import smt
from pyvc.env import Contract
from pyvc.values import *  # noqa
from specs import c01, handlers
from specs.c01 import incl, same, equal, unchanged_except, later, old, dst, c01_setup, havoc_R
from specs.handlers import havoc_local
from bert_e.workflow.gitwaterflow import queueing as Q, branches as B

PROPERTY = 'C03'
ISN = 'bert_e.workflow.gitwaterflow.queueing:is_needed'
STR, BOOL, INT = smt.STR, smt.BOOL, smt.INT


def base_env():
    env = c01.base_env()
    env.prop = PROPERTY
    env.fn_models[Q.already_in_queue] = lambda I, job, wbranches: SBool(I.fresh_term('already_in_queue', BOOL, True))
    env.trusted.append('already_in_queue(job, wbranches): reads the local refs only')
    env.classes['HSettings']['fields'].update({'skip_queue_when_not_needed': 'bool'})
    env.loop(ISN, 0, inv_isn, top_level=True)
    return env


def isn_setup_for(with_queues):
    def setup(I, args):
        c01_setup(I, args)
        job = args['job']
        args['queues'] = I.alloc_obj(None, 'QC', {}) if with_queues else None
        wb = I.seq_value(args['wbranches'])
        casc = I.get_attr(I.get_attr(job, 'git'), 'cascade')
        dsts = I.fresh('targets', 'fseq[Br]')
        I.set_attr(casc, 'dst_branches', I.alloc_list(dsts))
        # one integration branch per target, in the same order (C19)
        I.assume(smt.Eq(smt.SeqLen(dsts.t), smt.SeqLen(wb.t)))
        I.assume(smt.Ge(smt.SeqLen(wb.t), smt.IntC(1)))
    return setup


def inv_isn(_i, wbranches, job, G):
    dsts = job.git.cascade.dst_branches
    return all(incl(G.R, dsts[k], G.R, wbranches[k]) for k in range(_i))


def ens_isn_skip_only_when_fast_forward(job, wbranches, queues, out, G):
    dsts = job.git.cascade.dst_branches
    return not (out.returned and out.value is False and queues is not None and job.settings.use_queue) or (
        bool(job.settings.skip_queue_when_not_needed)
        and len(G.queued_prs) == 0
        and incl(G.R, job.git.dst_branch, G.R, job.git.src_branch)
        and all(incl(G.R, dsts[k], G.R, wbranches[k]) for k in range(len(wbranches))))


def ens_isn_reads_only(job, wbranches, queues, out, G):
    return out.returned and unchanged_except(old(G.R), G.R, [])


def ens_isn_queue_when_asked(job, wbranches, queues, out, G):
    # queues on and skipping not allowed: always through the queue
    return not (queues is not None and job.settings.use_queue and not job.settings.skip_queue_when_not_needed) \
        or (out.returned and out.value is True)


def contracts(env):
    cs = []
    all01 = c01.contracts(env)
    for c in all01:
        if ':merge_queues' in c.label:
            c.label = c.label + ' [C03 fast-forward exactness]'
            cs.append(c)
    for wq in (True, False):
        cs.append(Contract(ISN, args={'job': 'HJob', 'wbranches': 'seq[Br]', 'queues': 'opaque'},
                           setup=isn_setup_for(wq), label=ISN + ('[queues]' if wq else '[no queue collection]'),
                           ensures=[('queue_skipped_only_when_every_integration_branch_includes_its_target',
                                     ens_isn_skip_only_when_fast_forward),
                                    ('always_queued_unless_skipping_is_enabled', ens_isn_queue_when_asked),
                                    ('reads_only', ens_isn_reads_only)],
                           covers=['return']))
    install_check_in_sync(env, cs)
    return cs


# ---------------------------------------------------------------- check_in_sync
# the build gate looks at the tips of the integration branches; those tips are what is merged only if the
# branches are chained (each includes the tip of its predecessor, the first one the tip of the source branch):
# otherwise the merge creates a new, never built commit.  check_in_sync is what tells _handle_pull_request so.
CIS = 'bert_e.workflow.gitwaterflow:check_in_sync'


def cis_src(job):
    return job.git.src_branch


def inv_cis(job, wbranches, _i, G, prev=None):
    return ((prev is None or (prev == cis_src(job) if _i == 0 else prev == wbranches[_i - 1]))
            and (_i == 0 or incl(G.R, cis_src(job), G.R, wbranches[0]))
            and all(incl(G.R, wbranches[j], G.R, wbranches[j + 1]) for j in range(_i - 1)))


def ens_cis_exact(job, wbranches, out, G):
    n = len(wbranches)
    chained = ((n == 0 or incl(G.R, cis_src(job), G.R, wbranches[0]))
               and all(incl(G.R, wbranches[j], G.R, wbranches[j + 1]) for j in range(n - 1)))
    return out.returned and out.value == chained


def ens_cis_reads_only(job, wbranches, out, G):
    return unchanged_except(old(G.R), G.R, [])


def install_check_in_sync(env, cs):
    env.loop(CIS, 0, inv_cis)
    for k in (2, 3):
        cs.append(Contract(CIS, args={'job': 'HJob', 'wbranches': 'opaque'}, setup=c01.mib_setup_for(k),
                           label=CIS + '[%d targets]' % k,
                           ensures=[('true_exactly_when_source_and_integration_branches_are_chained', ens_cis_exact),
                                    ('reads_only', ens_cis_reads_only)],
                           covers=['return']))
    cs.append(Contract(CIS, args={'job': 'HJob', 'wbranches': 'seq[Br]'}, setup=c01_setup,
                       ensures=[('true_exactly_when_source_and_integration_branches_are_chained', ens_cis_exact),
                                ('reads_only', ens_cis_reads_only)],
                       covers=['return']))


def extra(rep, tier, seed, budget):
    from bounded import author_options as _ao
    _ao.integrate(rep)
    from bounded import integrate as _integ
    _integ.system_histories(rep, tier, seed, ['C03_green_destinations'])
    from bounded import c05_queue
    from specs import c05
    c05.integrate(rep, c05_queue.run(tier, seed), clauses=('c', 'exception'))
    # direct merge (queue skipped): native witness, real Bert-E + real git, octopus and no_octopus
    from bounded import f10_direct_merge
    from pyvc.cli import write_replay
    res = f10_direct_merge.run(tier, seed)
    rep.bounded.append(res)
    for r in res['results']:
        if r.get('ok'):
            continue
        mode = 'no_octopus' if r.get('no_octopus') else 'octopus'
        k = 'native:direct_merge:%s:%s' % (mode, 'harness_error' if r.get('error') else 'destination_on_unbuilt_commit')
        path = write_replay(rep.pid, k, {'case': {'no_octopus': bool(r.get('no_octopus'))}, 'clause': 'f10', 'result': r})
        rep.violations.append({'key': k, 'what': 'direct merge (%s): %s' % (mode, r.get('error') or r.get('build_status_of_new_tips')),
                               'replay': path, 'input': r, 'noinput': False})


def replay_file(data):
    if data.get('clause') == 'f10':
        from bounded import f10_direct_merge
        return f10_direct_merge.replay(data['case'])
    from bounded import integrate as _integ
    if isinstance(data.get('case'), dict) and ('events' in data['case'] or 'fault' in data['case']):
        return _integ.replay(data)
    from specs import c05
    return c05.replay_file(data)


META = {
    'level': 'other',
    'explanation': __doc__,
    'assumptions': [
        'ghost ancestry model of git (specs/c01.py): fast-forward merges add no commit; equal reach sets = same tip',
        'the build status table of the host is a function of (commit, key) during one job',
        'the direct merge after is_needed() == False is a fast-forward onto the built commits only with octopus '
        'merges (known finding F10 for no_octopus); that step is not under contract',
    ],
    'trusted_base': [],
}
