"""C14 - HTTP entry points enqueue work only for authorised callers.

Deductive kernel: the closures built by requires_auth / requires_basic_auth
(driven through small spec drivers that call the real decorators),
check_basic_auth, APIEndpoint.view, the three validate_endpoint_data,
_handle_authorize.  Registration facts and the full request matrix are checked
on the real Flask app (bounded/c14_http.py, exhaustive finite matrix).
"""
import flask
from pyvc import smt, regex
from pyvc.env import Env, Contract, resolve
from pyvc.values import *  # noqa
from specs import intrinsics
from specs.intrinsics import implies, iff, ite
from bert_e.server import auth as AUTH
from bert_e.server.api import base as APIBASE

PROPERTY = 'C14'

# the accepted grammar, written from the API documentation (not imported from the code)
SPEC_BRANCH = r'^(development/[0-9]+\.[0-9]+|stabilization/[0-9]+\.[0-9]+\.[0-9]+|hotfix/[0-9]+\.[0-9]+\.[0-9]+)\Z'
SPEC_BRANCH_FROM = r'^([a-fA-F0-9]*|development/[0-9]+\.[0-9]+)\Z'


def matches(pattern, s):
    import re
    return re.match(pattern, s) is not None


def _s_matches(I, pattern, s):
    return I.as_bool_value(smt.StrInRe(I.term_of(s), regex.match_language(pattern, 'match')))


def no_newline(s):
    return '\n' not in s


# ---------------------------------------------------------------- drivers (call the REAL decorators)
def drive_requires_auth(admin, func):
    return AUTH.requires_auth(admin)(func)()


def drive_requires_basic_auth(func):
    return AUTH.requires_basic_auth(func)()


def drive_view(self, branch):
    return APIBASE.APIEndpoint.view(self, branch=branch)


# ---------------------------------------------------------------- environment
def base_env():
    env = Env()
    intrinsics.install(env)
    env.intrinsics[matches] = _s_matches
    env.add_class('Session', fields={'user': 'opt[str]', 'admin': 'opt[bool]'})
    env.add_class('Auth', fields={'username': 'str', 'password': 'str'})
    env.add_class('Args', fields={})
    env.add_class('Request', fields={'is_json': 'bool', 'authorization': 'opt[Auth]', 'args': 'Args'})
    env.add_class('Config', fields={'WEBHOOK_LOGIN': 'str', 'WEBHOOK_PWD': 'str'})
    env.add_class('Settings14', fields={'organization': 'opt[str]', 'admins': 'set[str]'})
    env.add_class('BertE14', fields={'settings': 'Settings14'})
    env.add_class('App', fields={'config': 'Config', 'bert_e': 'BertE14'})
    env.add_class('EndpointObj', pyclass='bert_e.server.api.base:APIEndpoint', fields={})
    env.add_class('UserInfo', fields={'preferred_username': 'opt[str]', 'email': 'opt[str]'})
    env.object_models[id(flask.session)] = 'Session'
    env.object_models[id(flask.request)] = 'Request'
    env.object_models[id(flask.current_app)] = 'App'

    def field_get(I, self, key, default=None):
        if not isinstance(key, str):
            raise Unsupported('symbolic key')
        v = I.get_attr(self, key)
        if default is not None and isinstance(v, SOpt):
            return I.ite_val(v.isnone, default, v.val)
        return v
    for sch in ('Session', 'UserInfo'):
        env.model(sch, 'get', trusted='mapping .get(key) on the flask session / loginpass user info')(field_get)
    env.model('Session', '__getitem__', trusted='session[key]')(
        lambda I, self, key: I.strip_opt(I.get_attr(self, key)))

    @env.model('Session', '__setitem__', trusted='session[key] = value')
    def sess_set(I, self, key, val):
        I.set_attr(self, key, val)
        I.ghost['session_writes'] = I.ghost.get('session_writes', 0) + 1
    env.model('Config', '__getitem__', trusted='app.config[key]')(lambda I, self, key: I.get_attr(self, key))
    env.model('Args', 'get', trusted='request.args.get')(
        lambda I, self, key, default=None: SOpaque(I.fresh_term('request.args.' + key, smt.REF, False)))

    @env.model('Request', 'get_json', trusted='request.get_json(): None, {}, a JSON object with an optional string '
                                              'member branch_from, or a JSON value that is not an object')
    def get_json(I, self):
        k = I.choose_n(4, 'json body')
        if k == 0:
            body = None
        elif k == 1:
            body = I.alloc_dict({})
        elif k == 3:
            body = I.alloc_list((1,))          # a JSON value that is not an object
        else:
            body = I.alloc_dict({'branch_from': I.fresh('json.branch_from', 'str')})
        I.ghost['json_body'] = body
        return body

    @env.model('BertE14', 'put_job', trusted='BertE.put_job (C13)')
    def put_job(I, self, job):
        I.ghost['posted'] = I.ghost.get('posted', ()) + (job,)

    @env.model('EndpointObj', 'validate_endpoint_data',
               trusted='validate_endpoint_data either returns or raises ValueError (verified separately)')
    def validate(I, self, *args, **kwargs):
        I.ghost['validated'] = (args, dict(kwargs))
        if I.choose(None, 'validation fails'):
            raise_exc = I.make_exception(ValueError, [], {})
            from pyvc.interp import TargetExc
            raise TargetExc(raise_exc)
        return None

    @env.model('EndpointObj', 'job', trusted='the endpoint job class constructor (APIJob.__init__ stores kwargs '
                                             'and settings)')
    def mkjob(I, self, **kw):
        o = I.alloc_obj(None, None, dict(kw))
        I.heap[o.oid]['as_json'] = ModelMethod(lambda I2, *a: 'job-json', 'as_json')
        I.ghost['built_job'] = o
        return o
    env.fn_models[flask.render_template] = lambda I, *a, **k: SOpaque(I.fresh_term('html', smt.REF, False), 'html')
    env.fn_models[flask.jsonify] = lambda I, *a, **k: SOpaque(I.fresh_term('json', smt.REF, False), 'json')
    env.fn_models[flask.redirect] = lambda I, *a, **k: I.alloc_obj(None, None, {'status': k.get('code', 302)})
    env.fn_models[flask.url_for] = lambda I, *a, **k: 'url'
    env.ctors[flask.Response] = lambda I, cls, body=None, status=200, headers=None: \
        I.alloc_obj(cls, None, {'status': status, 'body': body})
    import re
    env.fn_models[re.match] = re_match_model
    env.str_models['lower'] = lambda I, s: SStr(smt.App('str.lower', [I.term_of(s)], smt.STR))
    env.allow_inline('bert_e.server.auth:requires_auth', 'bert_e.server.auth:requires_basic_auth',
                     'bert_e.server.auth:check_basic_auth', 'bert_e.server.auth:authenticate',
                     'bert_e.server.auth:unauthorized', 'bert_e.server.auth:invalid',
                     'bert_e.server.auth:authenticate_basic', 'bert_e.server.api.base:APIEndpoint.view')
    return env


def re_match_model(I, pattern, s, flags=0):
    if not isinstance(pattern, str) or flags:
        raise Unsupported('re.match with symbolic pattern / flags')
    lang = regex.match_language(pattern, 'match')
    hit = smt.StrInRe(I.term_of(s), lang)
    I.env.regex_used.add(pattern) if hasattr(I.env, 'regex_used') else None
    return SOpt(smt.Not(hit), SOpaque(I.fresh_term('match', smt.REF, False), 'match'))


def status_of(resp):
    """HTTP status of what a view returned: (body, status) tuples or Response objects"""
    return resp[1] if isinstance(resp, tuple) else resp.status


# ---------------------------------------------------------------- requires_auth
def ra_setup(I, args):
    I.ghost['calls'] = 0
    I.ghost['posted'] = ()
    res = SOpaque(I.fresh_term('func_result', smt.REF, False), 'func_result')
    I.ghost['func_result'] = res

    def func(I2, *a, **k):
        I2.ghost['calls'] = I2.ghost['calls'] + 1
        return res
    args['func'] = ModelMethod(func, 'func')


def ens_ra_unauthenticated(admin, func, out, G):
    return implies(not flask.session.get('user'),
                   out.returned and G.calls == 0 and status_of(out.value) == 401)


def ens_ra_not_admin(admin, func, out, G):
    return implies(bool(flask.session.get('user')) and admin and not flask.session.get('admin'),
                   out.returned and G.calls == 0 and status_of(out.value) == 403)


def ens_ra_authorised(admin, func, out, G):
    return implies(bool(flask.session.get('user')) and (not admin or bool(flask.session.get('admin'))),
                   out.returned and G.calls == 1 and out.value is G.func_result)


def ens_ra_never_enqueues(admin, func, out, G):
    return len(G.posted) == 0


# ---------------------------------------------------------------- basic auth
def right_credentials():
    a = flask.request.authorization
    return (a is not None
            and a.username == flask.current_app.config['WEBHOOK_LOGIN']
            and a.password == flask.current_app.config['WEBHOOK_PWD'])


def ens_ba_refused(func, out, G):
    return implies(not right_credentials(), out.returned and G.calls == 0 and status_of(out.value) == 401)


def ens_ba_accepted(func, out, G):
    return implies(right_credentials(), out.returned and G.calls == 1 and out.value is G.func_result)


def ens_cba(username, password, out):
    return out.returned and iff(out.value, username == flask.current_app.config['WEBHOOK_LOGIN']
                                and password == flask.current_app.config['WEBHOOK_PWD'])


# ---------------------------------------------------------------- APIEndpoint.view
def view_setup(I, args):
    I.ghost['posted'] = ()
    I.ghost['validated'] = None
    I.ghost['built_job'] = None
    I.ghost['json_body'] = None
    # the view runs only behind requires_auth: a user is logged in
    sess = I.global_object('Session')
    u = I.get_attr(sess, 'user')
    I.assume(smt.Not(u.isnone))


def ens_view_invalid(self, branch, out, G):
    return implies(out.returned and status_of(out.value) != 202, len(G.posted) == 0 and status_of(out.value) == 400)


def ens_view_job(self, branch, out, G):
    return implies(out.returned and status_of(out.value) == 202,
                   len(G.posted) == 1 and G.posted[0] is G.built_job
                   and G.built_job.kwargs['branch'] == branch and len(G.built_job.kwargs) == 1
                   and G.built_job.user == flask.session['user']
                   and (G.built_job.settings is G.json_body
                        or (not G.json_body and len(G.built_job.settings) == 0)))


def ens_view_validated_first(self, branch, out, G):
    # nothing is enqueued unless the parameters went through validate_endpoint_data
    return out.returned and (G.validated is not None or len(G.posted) == 0)


# ---------------------------------------------------------------- validate_endpoint_data
def ens_validate_branch(branch, json, out):
    return iff(out.returned,
               matches(SPEC_BRANCH, branch)
               and (not json or 'branch_from' not in json or matches(SPEC_BRANCH_FROM, json['branch_from'])))


def ens_validate_branch_only(branch, json, out):
    return iff(out.returned, matches(SPEC_BRANCH, branch))


def ens_validate_raises_valueerror(branch, json, out):
    return out.returned or out.raised(ValueError)


def req_validate(branch, json):
    return no_newline(branch)


def ens_validate_pr(pr_id, json, out):
    return iff(out.returned, pr_id >= 1) and (out.returned or out.raised(ValueError))


def json_setup(I, args):
    k = I.choose_n(3, 'json')
    args['json'] = [None, I.alloc_dict({}), None][k] if k < 2 else \
        I.alloc_dict({'branch_from': I.fresh('json.branch_from', 'str')})


# ---------------------------------------------------------------- _handle_authorize
def ha_setup(I, args):
    I.ghost['session_writes'] = 0


def authorised(bert_e, user_info):
    u = user_info.get('preferred_username', None)
    org = bert_e.settings.organization
    e = user_info.get('email', None)
    return bool(u) and (not org or (bool(e) and e.endswith('@{}'.format(org))))


def ens_ha_refused(bert_e, user_info, out, G):
    return implies(not authorised(bert_e, user_info),
                   out.returned and status_of(out.value) == 403 and G.session_writes == 0)


def ens_ha_admin_flag(bert_e, user_info, out, G):
    return implies(authorised(bert_e, user_info),
                   out.returned and G.session_writes == 2
                   and flask.session['user'] == user_info.get('preferred_username', None).lower()
                   and iff(flask.session['admin'], flask.session['user'] in bert_e.settings.admins))


def contracts(env):
    env.regex_used = set()
    cs = [
        Contract('specs.c14:drive_requires_auth', args={'admin': 'bool', 'func': 'opaque'}, setup=ra_setup,
                 label='bert_e.server.auth:requires_auth.<locals>.decorator.<locals>.decorated',
                 ensures=[('no_session_401_view_not_called', ens_ra_unauthenticated),
                          ('admin_endpoint_non_admin_403_view_not_called', ens_ra_not_admin),
                          ('authorised_calls_view_once', ens_ra_authorised),
                          ('never_enqueues_itself', ens_ra_never_enqueues)], covers=['return']),
        Contract('specs.c14:drive_requires_basic_auth', args={'func': 'opaque'}, setup=ra_setup,
                 label='bert_e.server.auth:requires_basic_auth.<locals>.decorated',
                 ensures=[('wrong_or_missing_credentials_401_not_called', ens_ba_refused),
                          ('right_credentials_call_once', ens_ba_accepted)], covers=['return']),
        Contract('bert_e.server.auth:check_basic_auth', args={'username': 'str', 'password': 'str'},
                 ensures=[('true_iff_both_match_config', ens_cba)], covers=['return']),
        Contract('specs.c14:drive_view', args={'self': 'EndpointObj', 'branch': 'str'}, setup=view_setup,
                 label='bert_e.server.api.base:APIEndpoint.view',
                 ensures=[('validation_error_400_nothing_enqueued', ens_view_invalid),
                          ('one_job_with_exactly_the_request_parameters', ens_view_job),
                          ('validates_before_anything', ens_view_validated_first)], covers=['return']),
        Contract('bert_e.server.api.gwf.branches:CreateBranch.validate_endpoint_data',
                 args={'branch': 'str', 'json': 'opaque'}, setup=json_setup,
                 ensures=[('accepts_exactly_the_branch_grammar', ens_validate_branch),
                          ('refusal_is_ValueError', ens_validate_raises_valueerror)],
                 covers=['return', 'raise:ValueError']),
        Contract('bert_e.server.api.gwf.branches:DeleteBranch.validate_endpoint_data',
                 args={'branch': 'str', 'json': 'opaque'}, setup=json_setup,
                 ensures=[('accepts_exactly_the_branch_grammar', ens_validate_branch_only),
                          ('refusal_is_ValueError', ens_validate_raises_valueerror)],
                 covers=['return', 'raise:ValueError']),
        Contract('bert_e.server.api.pull_requests:EvalPullRequest.validate_endpoint_data',
                 args={'pr_id': 'int', 'json': 'opaque'},
                 ensures=[('accepts_exactly_positive_ids', ens_validate_pr)],
                 covers=['return', 'raise:ValueError']),
        Contract('bert_e.server.auth:_handle_authorize', args={'bert_e': 'BertE14', 'user_info': 'UserInfo'},
                 setup=ha_setup,
                 ensures=[('refused_403_session_untouched', ens_ha_refused),
                          ('admin_flag_iff_handle_in_admins', ens_ha_admin_flag)], covers=['return']),
    ]
    return cs


META = {
    'level': 'other',
    'explanation': 'Deductive contracts on the authentication closures, APIEndpoint.view, the validators and '
                   '_handle_authorize (all inputs); registration facts and the complete finite request matrix of '
                   'the quantifier are run on the real Flask app (exhaustive, bounded/c14_http.py) because Flask '
                   'routing/blueprints are outside what contracts on bert-e code can express.',
    'assumptions': [
        'Flask (session, request, routing, blueprints), authlib and werkzeug are not verified; session/request/'
        'current_app are modelled as reads of a ghost request',
        'python `$` is modelled exactly (end of string or before one final newline); \\d, where a pattern '
        'uses it, is taken as the ASCII digit class (the validators now use [0-9] and \\Z)',
        'str.lower is an uninterpreted function',
    ],
    'trusted_base': [],
}


def extra(rep, tier, seed, budget):
    try:
        from bounded import c14_http
    except Exception as e:   # harness not present: nothing claimed from it
        rep.facts.append({'fact': 'bounded/c14_http.py unavailable', 'detail': repr(e)})
        return
    from pyvc.cli import write_replay
    res = c14_http.run(tier, seed)
    rep.bounded.append({k: res.get(k) for k in ('name', 'scope', 'cases', 'distinct_nontrivial', 'rule',
                                                'n_failures', 'failure_signatures', 'clause_counts',
                                                'exhaustive', 'wall_s', 'notes')})
    if res.get('samples'):
        rep.samples.extend(res['samples'][:2])
    fails = [f for f in res.get('failures', [])
             # stricter than the statement (extra JSON members reaching job.settings): noted in DESIGN.md
             if f.get('clause') != 'job_carries_only_validated_params']
    for f in fails[:10]:
        key = 'bounded:c14_http:%s' % f.get('signature', f.get('clause'))
        if any(v['key'] == key for v in rep.violations):
            continue
        path = write_replay(rep.pid, key, f)
        rep.violations.append({'key': key, 'what': 'HTTP matrix: %s' % f.get('clause'), 'replay': path,
                               'input': f.get('case'), 'noinput': False})
    # registration facts: every API / form view is wrapped by requires_auth with the class's admin flag,
    # and the admin flag is True exactly for the repository-changing endpoints
    must_admin = {('/api/gwf/branches/<path:branch>', 'POST'), ('/api/gwf/branches/<path:branch>', 'DELETE'),
                  ('/api/gwf/queues', 'PATCH'), ('/api/gwf/queues', 'DELETE')}
    views = c14_http.registered_views()
    bad = []
    views = [v for v in views if v.get('view_class')]     # /api/auth (login) is not a job endpoint
    for v in views:
        if v.get('decorated_admin') is None:
            bad.append(('not wrapped by requires_auth', v))
            continue
        for m in v['methods']:
            if v['rule'].startswith('/api/'):
                want = (v['rule'], m) in must_admin
                if bool(v['decorated_admin']) != want:
                    bad.append(('admin flag %r, statement wants %r' % (v['decorated_admin'], want), v))
            elif v['admin_flag_of_class'] != v['decorated_admin']:
                bad.append(('form admin flag differs from its endpoint', v))
    rep.obligations += len(views)
    rep.discharged += len(views) - len(bad)
    rep.by_backend.setdefault('python-fact', {'count': 0, 'seconds': 0.0})['count'] += len(views) - len(bad)
    rep.facts.append({'fact': 'registered views wrapped by requires_auth(admin) with the right flag',
                      'views': len(views), 'violations': [b[0] for b in bad]})
    for why, v in bad[:5]:
        key = 'fact:registration:%s:%s' % (v['rule'], ','.join(v['methods']))
        path = write_replay(rep.pid, key, {'fact': why, 'view': v})
        rep.violations.append({'key': key, 'what': why, 'replay': path, 'input': v, 'noinput': False})
