"""C05 - a queue evaluation merges the longest all-green prefix of the queue, in order.

The statement quantifies over a finite scope ("enumerated exhaustively, not sampled"); the deciding
check is the bounded-exhaustive stand-in bounded/c05_queue.py: the REAL QueueCollection (build by the
real add_to_queue, finalize, validate, mergeable_prs / mergeable_queues) and the real merge_queues on an
in-memory repository, compared with an oracle written from the statement (prefix in entry order per
independent queue, maximality, destinations moved to the queue commit of the newest selected pull
request, all of them SUCCESSFUL, force merge selects everything).  Labelled bounded.
Deductive part (real code): merge_queues (any number of versions) moves each destination exactly onto the
FIRST listed entry of its version and nowhere else (contract shared with C01/C03);
QueueCollection._recursive_lookup (2 versions, any number of listed entries per version; the recursive call is
checked against the same contract and a call-site obligation proves the measure decreases) leaves on every
version a suffix of its entries whose head is SUCCESSFUL and touches nothing when the head row is green;
QueueCollection._remove_unmergeable (same instance, while-loop invariant) cuts every version down to exactly
the suffix that starts at its newest entry of a selected pull request.  What joins these per-function
contracts into the statement (_extract_pr_ids, the per-merge-path loop of _process) stays with the stand-in.
Known finding F4: QueueCollection._process over-selects (and then moves a destination onto a non-green
commit) when a pull request dropped on one merge path was masking a red build on another path.
"""
from pyvc.values import *  # noqa
from specs import c01
from pyvc.env import Contract

PROPERTY = 'C05'


def base_env():
    env = c01.base_env()
    env.prop = PROPERTY
    return env


def contracts(env):
    cs = []
    for c in c01.contracts(env):
        if ':merge_queues' in c.label:
            c.label = c.label + ' [C05 destinations move to the first listed entry]'
            cs.append(c)
    install_remove_unmergeable(env, cs)
    install_recursive_lookup(env, cs)
    return cs


# ---------------------------------------------------------------- QueueCollection._remove_unmergeable
# the step between the selection (mergeable_prs) and what merge_queues receives (mergeable_queues): on every
# version the listed entries are cut down to the suffix that starts at the newest entry of a selected pull request
RU = 'bert_e.workflow.gitwaterflow.branches:QueueCollection._remove_unmergeable'
RU_VERSIONS = 2        # (site_rl_measure spells the sum out for 2 versions)


def install_remove_unmergeable(env, cs):
    from bert_e.workflow.gitwaterflow import branches as B
    env.add_class('RUEntry', kind='ref', fields={'qbranch': 'Br', 'qints': 'seq[Br]'},
                  items={B.QueueBranch: 'qbranch', B.QueueIntegrationBranch: 'qints'})
    env.add_class('RUQueues', fields={})
    env.model('RUQueues', 'keys', trusted='queues.keys(): the versions of the collection (instance: %d versions)'
              % RU_VERSIONS)(lambda I, self: I.alloc_list(tuple(range(RU_VERSIONS))))
    env.model('RUQueues', '__getitem__', trusted='queues[version]: the entry of that version')(
        lambda I, self, version: I.ghost['ru_entries'][version])
    env.loop(RU, 1, inv_ru, havoc=[havoc_ru])
    cs.append(Contract(RU, args={'self': 'QCObj', 'prs': 'seq[int]', 'queues': 'opaque'}, setup=ru_setup,
                       label=RU + '[%d versions, any number of entries]' % RU_VERSIONS,
                       ensures=[('each_version_keeps_exactly_the_suffix_from_its_newest_selected_entry', ens_ru)],
                       covers=['return']))


def ru_setup(I, args):
    ents, init = [], []
    for v in range(RU_VERSIONS):
        r = I.fresh('ru_entry%d' % v, 'RUEntry')
        q = I.fresh('ru_qints%d' % v, 'seq[Br]')
        I.set_attr(r, 'qints', q)
        ents.append(r)
        init.append(I.seq_value(q))
    I.ghost['ru_entries'] = tuple(ents)
    I.ghost['ru_init'] = tuple(init)
    args['queues'] = I.alloc_obj(None, 'RUQueues', {})


def havoc_ru(I, fr):
    v = fr.locals['version']
    e = I.ghost['ru_entries'][v]
    # in place: the code holds aliases of the list object (intqs)
    I.heap[I.get_attr(e, 'qints').oid] = I.seq_value(I.fresh('ru_qints%d@while' % v, 'seq[Br]', is_input=False))


def ru_cut(cur, init, prs):
    """cur is the suffix of init left after popping only entries of pull requests that are not selected"""
    k = len(init) - len(cur)
    return (k >= 0 and all(cur[j] == init[k + j] for j in range(len(cur)))
            and all(init[j].pr_id not in prs for j in range(k)))


def inv_ru(version, prs, G):
    return ru_cut(G.ru_entries[version].qints, G.ru_init[version], prs)


def ens_ru(prs, out, G):
    return out.returned and all(
        ru_cut(G.ru_entries[v].qints, G.ru_init[v], prs)
        and (len(G.ru_entries[v].qints) == 0 or G.ru_entries[v].qints[0].pr_id in prs)
        for v in range(RU_VERSIONS))


# ---------------------------------------------------------------- QueueCollection._recursive_lookup
# DESIGN.md appendix A.2: after the lookup every version keeps a suffix of its listed entries (only entries at
# the head are ever dropped: "prefix in order of entry") and the head of every non-empty remainder is SUCCESSFUL
# ("every one of those commits has a SUCCESSFUL build").  The recursive call is checked against this same
# contract (partial correctness) and the call-site obligation `site/...` proves the measure (total number of
# listed entries) strictly decreases, which is termination.
RL = 'bert_e.workflow.gitwaterflow.branches:QueueCollection._recursive_lookup'


def install_recursive_lookup(env, cs):
    from bert_e.workflow.gitwaterflow import branches as B
    env.add_class('BBRepo', fields={})
    env.classes['QCObj']['fields'].update({'bbrepo': 'BBRepo', 'build_key': 'str'})
    env.model('BBRepo', 'get_build_status', trusted='host.get_build_status(commit, key): a function of the commit '
              'and the key during one evaluation')(
        lambda I, self, commit, key: SStr(smt.App('build_status', [I.term_of(commit), I.term_of(key)], STR)))
    env.loop(RL, 2, inv_rl_while, havoc=[havoc_ru])
    env.site_hooks[(RL, '_recursive_lookup')] = site_rl_measure
    c = Contract(RL, args={'self': 'QCObj', 'queues': 'opaque'}, setup=rl_setup, effect=rl_effect, requires=req_rl,
                 label=RL + '[%d versions, any number of entries]' % RU_VERSIONS,
                 ensures=[('each_version_keeps_a_suffix_of_its_entries', ens_rl_suffix),
                          ('the_head_of_every_remaining_queue_is_SUCCESSFUL', ens_rl_green),
                          ('an_all_green_head_row_is_left_untouched', ens_rl_noop)],
                 covers=['return'])
    env.contracts[c.fn] = c
    cs.append(c)


def rl_setup(I, args):
    c01.c01_setup(I, args)
    ru_setup(I, args)
    I.ghost['rl_entry'] = I.ghost['ru_init']


def rl_effect(I, loc, oc):
    # the recursive call: the lists of every version are whatever the contract (assumed for the callee) allows,
    # relative to their value at the call
    init = []
    for v in range(RU_VERSIONS):
        e = I.ghost['ru_entries'][v]
        init.append(I.seq_value(I.get_attr(e, 'qints')))
        I.heap[I.get_attr(e, 'qints').oid] = I.seq_value(I.fresh('ru_qints%d@rec' % v, 'seq[Br]', is_input=False))
    I.ghost['ru_init'] = tuple(init)


def green(self, q):
    return self.bbrepo.get_build_status(q.get_latest_commit(), self.build_key) == 'SUCCESSFUL'


def is_suffix(cur, init):
    k = len(init) - len(cur)
    return k >= 0 and all(cur[j] == init[k + j] for j in range(len(cur)))


def inv_rl_while(version, first_failed_pr, G):
    cur, init = G.ru_entries[version].qints, G.ru_init[version]
    k = len(init) - len(cur)
    # still searching: nothing popped so far was the failed pull request, so it is among what is left
    return (is_suffix(cur, init) and all(init[j].pr_id != first_failed_pr for j in range(k))
            and not all(init[j].pr_id != first_failed_pr for j in range(k, len(init))))


def site_rl_measure(G):
    return (all(is_suffix(G.ru_entries[v].qints, G.ru_init[v]) for v in range(RU_VERSIONS))
            and len(G.ru_entries[0].qints) + len(G.ru_entries[1].qints) < len(G.ru_init[0]) + len(G.ru_init[1]))


def req_rl(G):
    # pull request ids are positive (the code uses 0 for "no failed pull request"): assumption on the git host
    return all(all(G.ru_entries[v].qints[j].pr_id >= 1 for j in range(len(G.ru_entries[v].qints)))
               for v in range(RU_VERSIONS))


def ens_rl_suffix(self, out, G):
    return out.returned and all(is_suffix(G.ru_entries[v].qints, G.ru_init[v]) for v in range(RU_VERSIONS))


def ens_rl_green(self, out, G):
    return all(len(G.ru_entries[v].qints) == 0 or green(self, G.ru_entries[v].qints[0]) for v in range(RU_VERSIONS))


def ens_rl_noop(self, out, G):
    return (not all(len(G.ru_init[v]) == 0 or green(self, G.ru_init[v][0]) for v in range(RU_VERSIONS))
            or all(len(G.ru_entries[v].qints) == len(G.ru_init[v]) for v in range(RU_VERSIONS)))


def extra(rep, tier, seed, budget):
    # the queue collection keys its queues by the version tuple parsed back from the q/ and q/w/ names: the
    # round trip of those names (bounded/c18_names.py) is a precondition of the evaluation
    from bounded import c18_names as _n
    from specs import c18 as _c18
    from pyvc.cli import write_replay as _wr
    _r = _n.run(tier, seed)
    rep.bounded.append({k: _r.get(k) for k in ('name', 'scope', 'cases', 'distinct_nontrivial', 'exhaustive', 'wall_s')})
    _seen = set()
    for _f in _r.get('failures', []):
        if not str(_f.get('clause', '')).startswith('roundtrip') or _c18.only_key_case(_f):
            continue        # (letter case of ticket keys: not claimed, see C18)
        _k = 'bounded:c18_names:%s' % _f.get('signature', _f.get('clause'))
        if _k in _seen or len(_seen) >= 3:
            continue
        _seen.add(_k)
        rep.violations.append({'key': _k, 'what': 'queue name round trip: %s' % _f.get('clause'), 'replay': _wr(rep.pid, _k, _f), 'input': _f.get('case'), 'noinput': False})
    from bounded import c05_queue
    integrate(rep, c05_queue.run(tier, seed), clauses=None)


def integrate(rep, res, clauses=None):
    """shared with C01 / C02 / C03: `clauses` restricts the failed clauses that count for that property"""
    from pyvc.cli import write_replay
    rep.bounded.append({k: res.get(k) for k in (
        'name', 'scope', 'cases', 'distinct_nontrivial', 'rule', 'n_failures', 'failure_signatures', 'exhaustive',
        'timed_out', 'wall_s', 'represented_4valued_assignments', 'status_abstraction_sound',
        'reported_failures_confirmed_by_replay', 'harness_anomalies', 'harness_crashes')})
    rep.samples.extend(res.get('samples', [])[:2])
    seen = set()
    for f in res.get('failures', []):
        if clauses is not None and f.get('clause') not in clauses:
            continue
        k = 'bounded:c05_queue:%s' % f.get('signature', f.get('clause'))
        if k in seen:
            continue
        seen.add(k)
        path = write_replay(rep.pid, k, f)
        rep.violations.append({'key': k, 'what': 'queue evaluation: clause %s (%s)' % (f.get('clause'), f.get('signature')),
                               'replay': path, 'input': f.get('case'), 'noinput': False})
    for sig in sorted(res.get('failure_signatures') or {}):
        k = 'bounded:c05_queue:%s' % sig
        if k in seen or (clauses is not None and sig.split(':', 1)[0] not in clauses):
            continue
        seen.add(k)
        path = write_replay(rep.pid, k, {'signature': sig, 'count': res['failure_signatures'][sig]})
        rep.violations.append({'key': k, 'what': 'queue evaluation: %s (%d cases)' % (sig, res['failure_signatures'][sig]),
                               'replay': path, 'input': None, 'noinput': False})
    if res.get('status_abstraction_sound') is False:
        # the code no longer treats every non-SUCCESSFUL state alike (it compared a status with something else
        # than SUCCESSFUL): one pattern per matrix does not stand for its 3^k assignments any more, and a state
        # the code forgot would be merged
        k = 'bounded:c05_queue:status_states_distinguished'
        path = write_replay(rep.pid, k, {'comparisons': res.get('rule', '')[-300:]})
        rep.violations.append({'key': k, 'what': 'queue evaluation compares build states with something else than SUCCESSFUL',
                               'replay': path, 'input': None, 'noinput': False})
    for kind in ('harness_crashes', 'harness_anomalies'):
        for c in (res.get(kind) or [])[:2]:
            rep.errors.append('bounded/c05_queue.py %s: %s' % (kind, str(c)[:300]))


def replay_file(data):
    from bounded import c05_queue
    if isinstance(data.get('case'), dict):
        return c05_queue.replay(data['case'])
    return None


META = {
    'level': 'other',
    'explanation': __doc__,
    'assumptions': [
        'in-memory git (harness/fakerepo.py) answers rev-parse / merge-base / merge / branch like git (cross-checked '
        'against real git by its own self-test)',
        'scope bound: up to 4 pull requests (quick: 4-PR tuples sampled), up to 3 development versions with optional '
        'stabilization and hotfix branches, 4 build states; non-green states are interchangeable for the code '
        '(checked: it only ever evaluates status != SUCCESSFUL)',
        'contracts on _recursive_lookup / _remove_unmergeable: instance of 2 versions (entries per version unbounded); '
        'pull request ids are >= 1 (the code uses 0 for "none failed"); the host answers get_build_status as a function '
        'of (commit, key) during one evaluation; _extract_pr_ids and the merge-path loop of _process are not under contract',
    ],
    'trusted_base': [],
}
