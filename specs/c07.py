"""C07 - who may switch options on.

Kernel: Reactor.handle_options / handle_commands (tokenisation abstracted: the
keyword list is an arbitrary list of strings, so the authorisation loop is proved
for every keyword list), gitwaterflow.handle_comments (both loops, any number of
comments), Reactor.init_settings, facts over the option/command registry.
The tokenizer itself is covered by the bounded stand-in bounded/c07_tokenizer.py.
"""
import re

from pyvc import smt, regex
from pyvc.env import Contract
from pyvc.interp import TargetExc
from pyvc.values import *  # noqa
from specs.common import base_env as _base_env
from specs.intrinsics import implies, iff
from bert_e import exceptions as X
from bert_e import reactor as R

PROPERTY = 'C07'
SLASH_FORM = r'^/[\w=]+([\s,.\-:;|+]+/[\w=]+)*\s*$'


def matches(pattern, s):
    return re.match(pattern, s) is not None


def _s_matches(I, pattern, s):
    return I.as_bool_value(regex.membership(I, pattern, I.term_of(s)))


def stripped(text):
    return text.strip()


def base_env():
    env = _base_env()
    env.intrinsics[matches] = _s_matches
    env.add_class('Comment', kind='ref', fields={'author': 'str', 'text': 'str'})
    env.classes['PullRequest']['fields'].update({'comments': 'seq[Comment]'})
    env.classes['Settings']['fields'].update({'admins': 'set[str]'})
    env.add_class('Entry', kind='ref', fields={'is_option': 'bool', 'privileged': 'bool', 'authored': 'bool'})
    env.add_class('ReactorObj', pyclass='bert_e.reactor:Reactor', fields={})
    env.ctors[R.Reactor] = lambda I, cls: I.alloc_obj(cls, 'ReactorObj')

    # ---- string primitives of the tokenizer: uninterpreted (the tokenizer is the bounded part)
    env.str_models['strip'] = lambda I, s: SStr(smt.App('str.strip', [I.term_of(s)], smt.STR))

    def split(I, s, sep=None, maxsplit=-1):
        r = I.fresh_term('split', smt.SeqS(smt.STR), False)
        if sep is not None:
            I.assume(smt.Ge(smt.SeqLen(r), smt.IntC(1)))     # str.split(sep) never returns []
        return I.alloc_list(SSeqV(r, ('str',)))
    env.str_models['split'] = split
    env.trusted.append('str.strip / str.split / re.sub / regex group extraction: uninterpreted; keyword lists are '
                       'arbitrary lists of strings (over-approximates the tokenizer, see bounded/c07_tokenizer.py)')

    def re_match(I, pattern, s, flags=0):
        if isinstance(pattern, str):
            hit = regex.membership(I, pattern, I.term_of(s))
        else:
            hit = I.fresh_term('re.match(symbolic pattern)', smt.BOOL, False)
        mo = I.alloc_obj(None, None, {})
        I.heap[mo.oid]['group'] = ModelMethod(
            lambda I2, name: SStr(I2.fresh_term('group:%s' % name, smt.STR, False)), 're.Match.group')
        return SOpt(smt.Not(hit), mo)
    env.fn_models[re.match] = re_match
    env.fn_models[re.sub] = lambda I, pat, repl, s, *a: SStr(I.fresh_term('re.sub', smt.STR, False))

    # ---- the registry: dispatch(key) is a function of the key
    @env.model('ReactorObj', 'dispatch', trusted='Reactor.dispatch(key): registry lookup, a function of the key')
    def dispatch(I, self, key, default=None):
        kt = I.term_of(key)
        return SOpt(smt.App('registry.missing', [kt], smt.BOOL), SRef(smt.App('registry.entry', [kt], smt.REF), 'Entry'))

    def isinstance_hook(I, v, classes):
        if isinstance(v, SRef) and v.cls == 'Entry':
            if R.Option in classes:
                return I.get_attr(v, 'is_option')
            if R.Command in classes:
                return I.as_bool_value(smt.Not(I.truth(I.get_attr(v, 'is_option'))))
        return None
    env.isinstance_hook = isinstance_hook

    @env.model('Entry', 'handler', trusted='option / command handlers: effects recorded in the ghost')
    def handler(I, entry, job, *args):
        kind_ok = I.truth(I.get_attr(entry, 'is_option')) if I.ghost['mode'] == 'options' else \
            smt.Not(I.truth(I.get_attr(entry, 'is_option')))
        priv_ok = smt.Implies(I.truth(I.get_attr(entry, 'privileged')), I.truth(I.ghost['privileged']))
        auth_ok = smt.Implies(I.truth(I.get_attr(entry, 'authored')), I.truth(I.ghost['authored'])) \
            if I.ghost['mode'] == 'options' else smt.TRUE
        I.oblige('authorised/handler-application', 'pre', smt.And(kind_ok, priv_ok, auth_ok), 'handler call')
        I.ghost['applied'] = I.ghost['applied'] + 1
        # a handler may raise (TypeError on a wrong argument count, a command's own message)
        if I.choose(None, 'handler raises'):
            raise TargetExc(I.make_exception(HandlerRaised, [], {}))
        return None

    # ---- models used by handle_comments
    @env.model('ReactorObj', 'init_settings', trusted='Reactor.init_settings (verified separately below)')
    def init_settings(I, self, job):
        I.ghost['init_done'] = True

    def reactor_call(which):
        def model(I, self, job, text, prefix, privileged=False, authored=False):
            I.ghost['calls'] = I.ghost['calls'] + 1
            k = I.choose_n(5, which)
            if k == 0:
                return None
            cls = [None, R.NotFound, R.NotPrivileged, R.NotAuthored, TypeError][k]
            if which == 'handle_commands' and cls in (R.NotAuthored, TypeError):
                cls = CommandAnswer
            e = I.make_exception(cls, [], {'keyword': I.fresh('err.keyword', 'str', False)})
            raise TargetExc(e)
        return model
    env.rc_models = {n: ModelMethod(reactor_call(n), n) for n in ('handle_options', 'handle_commands')}
    env.loop('bert_e.reactor:Reactor.handle_options', 0, None)
    env.loop('bert_e.workflow.gitwaterflow:handle_comments', 0, None)
    env.loop('bert_e.workflow.gitwaterflow:handle_comments', 1, inv_command_window, top_level=True)
    env.site_hooks[('bert_e.workflow.gitwaterflow:handle_comments', 'handle_options')] = site_handle_options
    env.site_hooks[('bert_e.workflow.gitwaterflow:handle_comments', 'handle_commands')] = site_handle_commands
    env.exc_str = lambda I, e: SStr(I.fresh_term('str(err)', smt.STR, False))
    return env


class HandlerRaised(Exception):
    """whatever a handler raises"""


class CommandAnswer(X.TemplateException):
    """the message a command handler answers with (help, status, reset ...)"""
    def __init__(self):   # never instantiated natively
        pass


# ---------------------------------------------------------------- handle_options
def ho_setup(I, args):
    I.ghost.update({'mode': 'options', 'privileged': args['privileged'], 'authored': args['authored'],
                    'applied': 0})


def addressed(text, prefix):
    raw = stripped(text)
    return raw.startswith(prefix) or matches(SLASH_FORM, raw)


def req_ho(self, job, text, prefix, privileged, authored):
    return prefix != ''


def ens_ho_not_addressed_no_effect(self, job, text, prefix, privileged, authored, out, G):
    return implies(not addressed(text, prefix), out.returned and G.applied == 0)


def ens_ho_refusals(self, job, text, prefix, privileged, authored, out, G):
    return (out.returned or out.raised(R.NotFound, R.NotPrivileged, R.NotAuthored, HandlerRaised)) \
        and implies(out.raised(R.NotPrivileged), not privileged) \
        and implies(out.raised(R.NotAuthored), not authored)


# ---------------------------------------------------------------- handle_commands
def hc_setup(I, args):
    I.ghost.update({'mode': 'commands', 'privileged': args['privileged'], 'authored': False, 'applied': 0})


def req_hc(self, job, text, prefix, privileged):
    return prefix != ''


def ens_hc_not_addressed_no_effect(self, job, text, prefix, privileged, out, G):
    raw = stripped(text)
    return implies(not raw.startswith(prefix) and not matches(r'^/\w', raw), out.returned and G.applied == 0)


def ens_hc_refusals(self, job, text, prefix, privileged, out, G):
    return (out.returned or out.raised(R.NotFound, R.NotPrivileged, HandlerRaised)) \
        and implies(out.raised(R.NotPrivileged), not privileged) and G.applied <= 1


# ---------------------------------------------------------------- handle_comments
def hcm_setup(I, args):
    I.ghost.update({'calls': 0, 'init_done': False})
    job = args['job']
    # the reactor methods are used through their contracts here
    for n, m in I.env.rc_models.items():
        I.env.methods[('ReactorObj', n)] = m


def site_handle_options(author, admins, pr_author, privileged, authored, call_args, comment, text, prefix, job):
    # the flags handed to the reactor are exactly the statement's conditions on the comment's author
    return (iff(call_args[3], author in admins and author != pr_author)
            and iff(call_args[4], author == pr_author)
            and author == comment.author and call_args[1] == comment.text
            and call_args[2] == '@' + job.settings.robot and call_args[0] is job)


def site_handle_commands(author, admins, pr_author, privileged, call_args, comment, job, _i, _seq):
    # commands are only read from comments posted after the robot's last message
    return (iff(call_args[3], author in admins and author != pr_author)
            and author == comment.author and call_args[1] == comment.text
            and all(_seq[j].author != job.settings.robot for j in range(_i + 1)))


def inv_command_window(_i, _seq, job):
    return all(_seq[j].author != job.settings.robot for j in range(_i))


def ens_hcm_outcomes(job, out, G):
    # every refusal of the reactor blocks the pull request with an explanation (a TemplateException)
    return G.init_done and (out.returned or out.raised(X.UnknownCommand, X.NotEnoughCredentials, X.NotAuthor,
                                                       X.IncorrectCommandSyntax, CommandAnswer))


def hcm_cleanup(I):
    for n in I.env.rc_models:
        I.env.methods.pop(('ReactorObj', n), None)


def contracts(env):
    ho = Contract('bert_e.reactor:Reactor.handle_options',
                  args={'self': 'ReactorObj', 'job': 'PullRequestJob', 'text': 'str', 'prefix': 'str',
                        'privileged': 'bool', 'authored': 'bool'}, setup=ho_setup, requires=req_ho,
                  ensures=[('text_not_addressed_to_the_robot_changes_nothing', ens_ho_not_addressed_no_effect),
                           ('refusals_only_for_the_wrong_person_or_unknown_keyword', ens_ho_refusals)],
                  covers=['return', 'raise:NotFound', 'raise:NotPrivileged', 'raise:NotAuthored'])
    hc = Contract('bert_e.reactor:Reactor.handle_commands',
                  args={'self': 'ReactorObj', 'job': 'PullRequestJob', 'text': 'str', 'prefix': 'str',
                        'privileged': 'bool'}, setup=hc_setup, requires=req_hc,
                  ensures=[('text_not_addressed_to_the_robot_runs_nothing', ens_hc_not_addressed_no_effect),
                           ('privileged_commands_need_privilege', ens_hc_refusals)],
                  covers=['return', 'raise:NotFound', 'raise:NotPrivileged'])
    hcm = Contract('bert_e.workflow.gitwaterflow:handle_comments', args={'job': 'PullRequestJob'},
                   setup=hcm_setup,
                   ensures=[('reactor_refusals_become_explanations', ens_hcm_outcomes)],
                   covers=['return', 'raise:UnknownCommand', 'raise:NotEnoughCredentials', 'raise:NotAuthor'])
    return [ho, hc, hcm]


# ---------------------------------------------------------------- facts + bounded tokenizer
def extra(rep, tier, seed, budget):
    from bounded import userdict as _ud
    _ud.integrate(rep)
    from pyvc import cli as _cli
    from specs import c04 as _m04
    _e04 = _m04.base_env()
    for _c in _m04.contracts(_e04):
        if 'check_approvals' in _c.label:
            _c.label = _c.label + ' [C07 a bypass waives only its own requirement]'
            _cli.handle_function(rep, _m04, _e04, _c, budget, _cli.load_lock().get('C07', {}))
    rep.trusted.extend(_e04.trusted)
    from specs import shared_facts as _sf
    _sf.add_facts(rep, _sf.option_defaults() + _sf.github_logins_normalised(), 'option registry defaults, login normalisation')
    from bounded import author_options as _ao
    _ao.integrate(rep)
    from pyvc.cli import write_replay
    import copy
    import bert_e.workflow.gitwaterflow as gwf
    from bert_e.lib.settings_dict import SettingsDict
    from types import SimpleNamespace
    facts = []
    R.Reactor.__callbacks__.maps[0].clear() if False else None
    gwf.setup({})
    opts = R.Reactor.get_options()
    for key, o in sorted(opts.items()):
        want_priv = key.startswith('bypass_')
        want_auth = key == 'approve'
        facts.append(('option %r: privileged == %r' % (key, want_priv), o.privileged == want_priv, key))
        facts.append(('option %r: authored == %r' % (key, want_auth), o.authored == want_auth, key))
    # command-line options become the defaults and nothing else does
    gwf.setup({'bypass_jira_check': True})
    opts2 = R.Reactor.get_options()
    facts.append(('command line option becomes the default', opts2['bypass_jira_check'].default is True, 'setup'))
    facts.append(('other bypass defaults stay off', all(not o.default for k, o in opts2.items()
                                                        if k.startswith('bypass_') and k != 'bypass_jira_check'),
                  'setup'))
    gwf.setup({})
    # init_settings: every registered option starts from a COPY of its default, for every job
    job = SimpleNamespace(settings=SettingsDict({}, {}))
    R.Reactor().init_settings(job)
    for key, o in sorted(R.Reactor.get_options().items()):
        v = job.settings[key]
        ok = v == o.default and (v is not o.default or isinstance(v, (bool, int, str, type(None))))
        facts.append(('init_settings: %r starts at a fresh copy of its default' % key, ok, key))
    for what, ok, key in facts:
        rep.obligations += 1
        if ok:
            rep.discharged += 1
            rep.by_backend.setdefault('python-fact', {'count': 0, 'seconds': 0.0})['count'] += 1
        else:
            k = 'fact:%s' % what
            path = write_replay(rep.pid, k, {'fact': what, 'key': key})
            rep.violations.append({'key': k, 'what': what, 'replay': path, 'input': key, 'noinput': False})
    rep.facts.append({'fact': 'option/command registry flags, defaults, init_settings', 'checked': len(facts),
                      'failed': [w for w, ok, _ in facts if not ok]})
    # bounded stand-in: tokenizer + end-to-end authorisation on the real handle_comments
    from bounded import c07_tokenizer
    res = c07_tokenizer.run(tier, seed)
    claimed = ('privileged_needs_admin_not_author', 'authored_needs_author', 'unknown_blocks',
               'wrong_person_blocks', 'not_addressed_no_effect', 'tokenizer')
    fails = [f for f in res.get('failures', []) if f.get('clause') in claimed]
    rep.bounded.append({'name': res['name'], 'scope': res['scope'], 'cases': res['cases'],
                        'distinct_nontrivial': res['distinct_nontrivial'], 'rule': res['rule'],
                        'clauses_claimed': list(claimed),
                        'clause_failures': res.get('clause_failures'),
                        'n_failures_in_claimed_clauses': len(fails), 'exhaustive': res.get('exhaustive'),
                        'wall_s': res.get('wall_s'),
                        'not_claimed': 'no_partial_application / outcome_mismatch are stricter than the statement '
                                       '(see DESIGN.md, C07)'})
    rep.samples.extend(res.get('samples', [])[:2])
    for f in fails[:5]:
        k = 'bounded:c07_tokenizer:%s' % f.get('signature', f.get('clause'))
        path = write_replay(rep.pid, k, f)
        rep.violations.append({'key': k, 'what': 'comment handling: %s' % f.get('clause'), 'replay': path,
                               'input': f.get('case'), 'noinput': False})


META = {
    'level': 'other',
    'explanation': 'The authorisation loops of Reactor.handle_options / handle_commands are proved for every '
                   'keyword list (tokenisation abstracted), handle_comments for any number of comments (call-site '
                   'obligations on the flags it hands to the reactor and on the command window); registry facts are '
                   'read from the real registry. The tokenizer itself (regex group extraction, split) is only '
                   'covered by the bounded stand-in: level other.',
    'assumptions': [
        'str.strip, str.split, re.sub and regex group extraction are uninterpreted: the keyword list is an arbitrary '
        'list of strings (sound over-approximation for the authorisation loop)',
        'Reactor.dispatch is a function of the keyword; option/command handlers are abstract effects',
        'privileged options granted through pr_author_options or the command line are outside handle_comments '
        '(C04/C06/C11 bypass helpers; defaults checked as facts)',
        'comments are returned by the host in posting order',
    ],
    'trusted_base': [],
}
