"""C02 - a changeset lands on all of its target branches or none, even across crashes.

Decided clause (sentence 1): during one job the destination branches of the remote
are written by AT MOST ONE operation, the atomic `git push --all --atomic` issued
last; every other remote-mutating git operation of the handlers only concerns w/
and q/ names.  A crash is a prefix of the job's effect trace, so every prefix leaves
the destination refs either all old or all new.  Sentence 2 (re-delivery converges
to the uninterrupted result) is a liveness statement and is not claimed.

Kernel: git_utils.push (what it hands to git), merge_integration_branches,
add_to_queue (1..3 targets), handle_merge_queues, QueueCollection.delete, plus the
facts on the command lines of Repository.push / push_all.
"""
import ast
import inspect

from pyvc import smt
from pyvc.env import Contract
from pyvc.interp import TargetExc
from pyvc.values import *  # noqa
from specs import gitmodel, handlers
from specs.gitmodel import emit, mutated, owned_term, name_of, br
from specs.handlers import setup_common, havoc_local, tagged
from specs.intrinsics import implies, iff
from bert_e import exceptions as X
from bert_e.lib import git as GIT
from bert_e.lib import retry as RETRY
from bert_e.workflow import git_utils as GU
from bert_e.workflow.gitwaterflow import branches as B, integration as INT_, queueing as Q

PROPERTY = 'C02'
GIT_MUTATIONS = ('push', 'push_all', 'push_delete', 'push_refspec', 'tag_push')


# "all of its target branches or none" through the queue rests on the evaluation dropping a pull request on every
# version at once: _recursive_lookup only ever pops whole heads down to the failed pull request (a suffix is
# kept on every version) and _remove_unmergeable cuts every version at the newest selected pull request
REUSED_CONTRACTS = (('c05', ('QueueCollection._recursive_lookup', 'QueueCollection._remove_unmergeable')),)


def base_env():
    env = handlers.base_env(PROPERTY)
    env.ref_methods[('Br', 'remove')] = B.IntegrationBranch.remove
    # ---- git_utils.push is REAL code here: model what it calls
    real_push = GU.push
    env.fn_models.pop(real_push, None)
    env.allow_inline(real_push)
    env.constructible.add(RETRY.RetryHandler)
    env.allow_inline(RETRY.RetryHandler.__init__, RETRY.RetryHandler.__enter__, RETRY.RetryHandler.__exit__,
                     RETRY.RetryHandler.reset)
    env.add_class('RetryObj', pyclass=RETRY.RetryHandler, fields={})

    def retry_run(I, self, func, *args, **kwargs):
        kwargs = dict(kwargs)
        kwargs.pop('catch', None)
        kwargs.pop('fail_msg', None)
        return I.call(func, list(args), kwargs)
    env.fn_models[RETRY.RetryHandler.run] = retry_run
    env.trusted.append('RetryHandler.run(f, ...): calls f until it does not raise `catch` (modelled as one call)')

    @env.model('GRepo', 'push_all', trusted='git push --all --atomic [--prune]: atomic')
    def r_push_all(I, self, prune=False):
        emit(I, 'push_all', prune)
        if I.choose(None, 'push fails'):
            raise TargetExc(I.make_exception(GIT.PushFailedException, [], {}))
    env.str_models['join'] = lambda I, sep, it: SStr(smt.App('str.join', [I.term_of(sep), I.seq_value(it).t], smt.STR))

    def merge_model(I, dst, src1, src2):
        if I.choose(None, 'merge conflict'):
            raise TargetExc(I.make_exception(GIT.MergeFailedException, [], {}))
        emit(I, 'merge', dst, (src1, src2))
    env.merge_model = merge_model
    # queue objects (as in C08)
    env.add_class('QEntry', kind='ref', fields={'qbranch': 'Br', 'qints': 'seq[Br]'},
                  items={B.QueueBranch: 'qbranch', B.QueueIntegrationBranch: 'qints'})
    env.add_class('QueuesMap', fields={})
    env.add_class('QCObj', pyclass=B.QueueCollection, fields={'_queues': 'QueuesMap'})
    env.model('QueuesMap', 'values', trusted='queues of the collection')(lambda I, self: I.ghost['entries'])
    env.model('QEntry', 'get', trusted='dict.get')(lambda I, self, key, default=None: I.get_item(self, key))
    env.allow_inline(Q.get_queue_branch, Q.get_queue_integration_branch)
    env.model('QC', 'validate', trusted='QueueCollection.validate: raises IncoherentQueues / QueueOutOfOrder or returns')(
        qc_validate)
    env.attr_models[('QC', 'mergeable_prs')] = ModelMethod(lambda I, self: I.ghost['mergeable_prs'], 'mergeable_prs')
    env.attr_models[('QC', 'failed_prs')] = ModelMethod(lambda I, self: I.ghost['failed_prs'], 'failed_prs')
    env.attr_models[('QC', 'mergeable_queues')] = ModelMethod(lambda I, self: I.alloc_obj(None, 'QueuesMap', {}),
                                                              'mergeable_queues')
    env.model('BertEObj', 'update_queue_status', trusted='status page bookkeeping (in memory)')(lambda I, self, q: None)
    env.model('BertEObj', 'add_merged_pr', trusted='status page bookkeeping (in memory)')(lambda I, self, p: None)
    import copy
    def deepcopy_model(I, x):
        # a copy: a new object; `@copy_serial` orders the copies made during the job
        I.ghost['copy_serial'] = I.ghost.get('copy_serial', 0) + 1
        if isinstance(x, Obj):
            o = I.alloc_obj(x.cls, x.schema, dict(I.heap[x.oid]))
            I.heap[o.oid]['@copy_serial'] = I.ghost['copy_serial']
            return o
        return x
    env.fn_models[copy.deepcopy] = deepcopy_model
    env.trusted.append('copy.deepcopy(cascade): a new object equal to its argument (no repository effect)')
    # the trace does not survive a loop cut: the number of publications and of remote git operations are
    # summary ghosts, kept at zero by every loop that precedes the final push (a clause of the property)
    for fn, ordn in (('bert_e.workflow.gitwaterflow.integration:merge_integration_branches', 0),
                     ('bert_e.workflow.gitwaterflow.integration:merge_integration_branches', 1),
                     ('bert_e.workflow.gitwaterflow.queueing:handle_merge_queues', 0),
                     ('bert_e.workflow.gitwaterflow.queueing:add_to_queue', 0),
                     ('bert_e.workflow.gitwaterflow.queueing:merge_queues', 0),
                     ('bert_e.workflow.gitwaterflow.queueing:merge_queues', 1)):
        env.loop(fn, ordn, inv_nothing_published, havoc=[havoc_local, havoc_counters, mark_loop_entry], top_level=True)
    env.on_event = on_event
    return env


def inv_nothing_published(G):
    return G.writers == 0 and (G.remote_git_ops == 0 or G.remote_allowed)


def mark_loop_entry(I, fr):
    I.ghost['serial_at_loop'] = I.ghost.get('copy_serial', 0)


def havoc_counters(I, fr):
    I.ghost['writers'] = I.fresh('writers@loop', 'int', is_input=False)
    I.ghost['remote_git_ops'] = I.fresh('remote_git_ops@loop', 'int', is_input=False)


def on_event(I, ev):
    handlers.on_event(I, ev)
    if I.ghost.get('callee_level'):
        return
    kind = ev[0]
    if kind in GIT_MUTATIONS:
        w = I.ghost['writers']
        tagged(I, 'C02', 'no remote git operation after the destination branches have been published', 'site',
               smt.Eq(I.term_of(w), smt.IntC(0)), kind)
        I.ghost['remote_git_ops'] = SInt(smt.Add(I.term_of(I.ghost['remote_git_ops']), smt.IntC(1)))
        if kind in ('push_all', 'push_refspec'):
            I.ghost['writers'] = SInt(smt.Add(I.term_of(w), smt.IntC(1)))


def qc_validate(I, self):
    if I.choose(None, 'queues incoherent'):
        raise TargetExc(I.make_exception(X.IncoherentQueues, [[]], {}))


# ---------------------------------------------------------------- git_utils.push
def push_setup_for(kind):
    def setup(I, args):
        c02_setup(I, args)
        I.ghost['callee_level'] = True
        args['repo'] = I.ghost['repo']
        if kind == 'none':
            args['branches'] = None
        elif kind == 'empty':
            args['branches'] = I.alloc_list(())
        else:
            args['branches'] = I.alloc_list(I.fresh('branches', 'fseq[Br]'))
            I.assume(smt.Gt(smt.SeqLen(I.seq_value(args['branches']).t), smt.IntC(0)))
    return setup


def git_ops(G):
    return [e for e in G.trace if e[0] in GIT_MUTATIONS]


def ens_push_all(repo, branches, prune, out, G):
    # no branch list: exactly one atomic push of everything, pruning iff asked
    ops = git_ops(G)
    return len(ops) == 1 and ops[0][0] == 'push_all' and iff(ops[0][1], prune)


def ens_push_empty(repo, branches, prune, out, G):
    return out.returned and len(git_ops(G)) == 0


def ens_push_named(repo, branches, prune, out, G):
    ops = git_ops(G)
    return len(ops) == 1 and ops[0][0] == 'push_refspec'


# ---------------------------------------------------------------- handlers
def one_atomic_publication_last(G):
    """the destination branches are published by at most one operation, an atomic push, issued last"""
    ops = git_ops(G)
    writers = [e for e in ops if e[0] in ('push_all', 'push_refspec')]
    return len(writers) <= 1 and (len(writers) == 0 or ops[-1] is writers[0] or ops[-1] == writers[0])


def c02_setup(I, args, remote_allowed=True):
    setup_common(I, args)
    I.ghost['writers'] = SInt(smt.IntC(0))
    I.ghost['remote_git_ops'] = SInt(smt.IntC(0))
    I.ghost['remote_allowed'] = remote_allowed


def mib_setup(I, args):
    c02_setup(I, args)
    I.env.fn_models[GU.robust_merge] = I.env.merge_model
    I.env.fn_models[GU.consecutive_merge] = I.env.merge_model
    wb = I.seq_value(args['wbranches'])
    i = smt.fresh_bound('i', smt.INT)
    I.assume(smt.ForAll([i], smt.Implies(smt.And(smt.Le(smt.IntC(1), i), smt.Lt(i, smt.SeqLen(wb.t))),
                                         smt.StrPrefixOf(smt.StrC('w/'), smt.SeqNth(wb.t, i)))))
    I.assume(smt.Ge(smt.SeqLen(wb.t), smt.IntC(1)))
    # here git_utils.push is used through its contract (verified above)
    I.env.fn_models[GU.push] = handlers_push


def handlers_push(I, repo, branches=None, prune=False):
    if branches is None:
        emit(I, 'push_all', prune)
    else:
        items = I.concrete_items(branches)
        if items is None or items:
            emit(I, 'push', branches)
    if I.choose(None, 'push fails'):
        raise TargetExc(I.make_exception(GIT.PushFailedException, [], {}))


def ens_mib(job, wbranches, out, G):
    ops = git_ops(G)
    return (one_atomic_publication_last(G) and G.writers <= 1
            and (not out.returned or (G.writers == 1 and len(ops) == 1 and ops[0] == ('push_all', True))))


def atq_setup_for(k):
    def setup(I, args):
        c02_setup(I, args)
        I.env.fn_models[GU.robust_merge] = I.env.merge_model
        I.env.fn_models[GU.consecutive_merge] = I.env.merge_model
        I.env.fn_models[GU.push] = handlers_push
        job = args['job']
        wbs = []
        for i in range(k):
            nm = I.fresh('wbranch%d' % i, 'str')
            wbs.append(br(I, nm))
        args['wbranches'] = I.alloc_list(tuple(wbs))
        casc = I.get_attr(I.get_attr(job, 'git'), 'cascade')
        I.set_attr(casc, 'dst_branches', I.alloc_list(tuple(
            SRef(smt.App('Br.dst_branch', [w.t], smt.STR), 'Br') for w in wbs)))
    return setup


def ens_atq(job, wbranches, out, G):
    # entering the queue only writes q/ branches (event obligations) and never a destination branch
    return G.writers == 0 and not any(e[0] in ('push_all', 'push_refspec', 'tag_push') for e in G.trace)


def mq_setup(I, args):
    c02_setup(I, args, remote_allowed=False)
    entries = I.fresh('queue_entries', 'fseq[QEntry]')
    I.ghost['entries'] = entries
    args['queues'] = I.alloc_obj(None, 'QueuesMap', {})
    e, j = smt.fresh_bound('e', smt.INT), smt.fresh_bound('j', smt.INT)
    qints = smt.App('QEntry.qints', [smt.SeqNth(entries.t, e)], smt.SeqS(smt.STR))
    I.assume(smt.ForAll([e, j], smt.Implies(
        smt.And(smt.Le(smt.IntC(0), e), smt.Lt(e, smt.SeqLen(entries.t)), smt.Le(smt.IntC(0), j),
                smt.Lt(j, smt.SeqLen(qints))),
        smt.StrPrefixOf(smt.StrC('q/w/'), smt.SeqNth(qints, j)))))


def ens_mq(queues, out, G):
    # the destination branches are fast-forwarded in the local clone only
    return G.remote_git_ops == 0 and len(git_ops(G)) == 0


def hmq_setup(I, args):
    c02_setup(I, args)
    I.env.fn_models[GU.push] = handlers_push
    job = args['job']
    I.set_attr(I.get_attr(job, 'git'), 'cascade', None)
    I.ghost['entries'] = I.fresh('queue_entries', 'fseq[QEntry]')

    I.ghost['mergeable_prs'] = I.alloc_list(I.fresh('mergeable_prs', 'fseq[int]'))
    I.ghost['failed_prs'] = I.alloc_list(I.fresh('failed_prs', 'fseq[int]'))
    # merge_queues through its contract (verified above): local merges and deletions, no remote operation
    I.env.fn_models[Q.merge_queues] = lambda I2, queues: emit(I2, 'merge_queues')
    def close_model(I2, j, pr_id, casc):
        # [C19] close_queued_pull_request finalizes (mutates) the cascade it is given for ONE pull request:
        # each merged pull request must get its own copy, made for it inside the loop
        serial = I2.heap[casc.oid].get('@copy_serial', 0) if isinstance(casc, Obj) else 0
        tagged(I2, 'C19', 'each merged pull request is closed with its own fresh copy of the cascade', 'site',
               smt.BoolC(serial > I2.ghost.get('serial_at_loop', 0)), 'close_queued_pull_request')
        emit(I2, 'comment', pr_id)
    I.env.fn_models[Q.close_queued_pull_request] = close_model
    I.env.fn_models[Q.notify_queue_build_failed] = lambda I2, prs, j: emit(I2, 'comment', 'queue build failed')


def ens_hmq(job, out, G):
    ops = git_ops(G)
    return (one_atomic_publication_last(G) and G.writers <= 1
            and (not out.raised(X.Merged) or (G.writers == 1 and len(ops) == 1 and ops[0] == ('push_all', True)))
            and (not out.raised(X.NothingToDo, X.QueueBuildFailed, X.IncoherentQueues)
                 or (G.writers == 0 and len(ops) == 0)))


def contracts(env):
    P = 'bert_e.workflow.git_utils:push'
    pa = {'repo': 'opaque', 'branches': 'opaque', 'prune': 'bool'}
    cs = [
        Contract(P, args=pa, setup=push_setup_for('none'), label=P + '[branches=None]',
                 ensures=[('one_atomic_push_of_everything', ens_push_all)], covers=['return']),
        Contract(P, args=pa, setup=push_setup_for('empty'), label=P + '[branches=[]]',
                 ensures=[('nothing_is_pushed', ens_push_empty)], covers=['return']),
        Contract(P, args=pa, setup=push_setup_for('some'), label=P + '[branches given]',
                 ensures=[('one_named_push', ens_push_named)], covers=['return']),
        Contract('bert_e.workflow.gitwaterflow.integration:merge_integration_branches',
                 args={'job': 'HJob', 'wbranches': 'seq[Br]'}, setup=mib_setup,
                 ensures=[('destinations_published_by_one_atomic_push_last', ens_mib)], covers=['return']),
    ]
    for k in (1, 2, 3):
        cs.append(Contract('bert_e.workflow.gitwaterflow.queueing:add_to_queue',
                           args={'job': 'HJob', 'wbranches': 'opaque'}, setup=atq_setup_for(k),
                           label='bert_e.workflow.gitwaterflow.queueing:add_to_queue[%d targets]' % k,
                           ensures=[('writes_only_queue_branches', ens_atq)], covers=['return']))
    cs.append(Contract('bert_e.workflow.gitwaterflow.queueing:merge_queues', args={'queues': 'opaque'},
                       setup=mq_setup, ensures=[('no_remote_git_operation', ens_mq)], covers=['return']))
    cs.append(Contract('bert_e.workflow.gitwaterflow.queueing:handle_merge_queues', args={'job': 'HJob'},
                       setup=hmq_setup,
                       ensures=[('destinations_published_by_one_atomic_push_last', ens_hmq)],
                       covers=['raise:Merged', 'raise:NothingToDo']))
    from specs import pushcmds
    cs = cs + pushcmds.contracts(env)
    return cs


def extra(rep, tier, seed, budget):
    from bounded import integrate as _integ
    _integ.crash(rep, tier, seed)
    # queue merges: every selected pull request lands on ALL the versions it targets (clause b of the queue
    # evaluation stand-in: each destination moves to the queue commit of the newest selected pull request)
    from bounded import c05_queue
    from specs import c05
    _qres = c05_queue.run(tier, seed)
    c05.integrate(rep, _qres, clauses=('b', 'exception'))
    from pyvc.cli import write_replay
    # ... and a pull request that is NOT selected lands nowhere: the queue commit of a selected pull request
    # contains every earlier entry of the versions they share, so a selection that skips an earlier pull request
    # sharing a version with a selected one publishes the skipped changeset on a strict subset of its targets
    # (judged on the clause (a) failures of the same stand-in; a too long PREFIX - known finding F4 - is not this)
    _seen = set()
    for f in _qres.get('failures', []):
        if f.get('clause') != 'a' or not isinstance(f.get('case'), dict) or not isinstance(f.get('got'), list):
            continue
        shape, prs, _st = c05_queue.case_parts(f['case'])[:3]
        got = set(f['got'])
        tg = {i: set(c05_queue.oracle_targets(shape, d)) for i, d in enumerate(prs, 1)}
        skipped = sorted((q, p_) for p_ in got for q in range(1, p_) if q not in got and tg[q] & tg[p_] and tg[q] - tg[p_])
        if not skipped:
            continue
        k = 'bounded:c05_queue:partial_landing:%s' % f.get('signature', 'a')
        if k in _seen or len(_seen) >= 3:
            continue
        _seen.add(k)
        rep.violations.append({'key': k, 'what': 'queue evaluation selects pull request %d but not the earlier %d: its changeset lands '
                               'on a strict subset of its targets' % (skipped[0][1], skipped[0][0]),
                               'replay': write_replay(rep.pid, k, f), 'input': f.get('case'), 'noinput': False})
    facts = []
    src_all = inspect.getsource(GIT.Repository.push_all)
    facts.append(('Repository.push_all runs `git push --all --atomic`', "'git push --all --atomic %s'" in src_all, src_all))
    src_push = inspect.getsource(GIT.Repository.push)
    facts.append(('Repository.push runs a plain `git push --set-upstream origin <names>`',
                  "'git push --set-upstream origin ' + name" in src_push and '--force' not in src_push, src_push))
    for what, ok, data in facts:
        rep.obligations += 1
        if ok:
            rep.discharged += 1
            rep.by_backend.setdefault('python-fact', {'count': 0, 'seconds': 0.0})['count'] += 1
        else:
            k = 'fact:%s' % what
            path = write_replay(rep.pid, k, {'fact': what, 'data': data})
            rep.violations.append({'key': k, 'what': what, 'replay': path, 'input': data, 'noinput': False})
    rep.facts.append({'fact': 'push command lines', 'checked': len(facts)})


def replay_file(data):
    if isinstance(data.get('case'), dict) and 'prs' in data['case']:
        from specs import c05
        return c05.replay_file(data)
    from bounded import integrate as _integ
    return _integ.replay(data)


META = {
    'level': 'other',
    'explanation': 'Sentence 1 of C02 as a trace property over the ghost git model: in merge_integration_branches '
                   'and handle_merge_queues the only operation that writes destination branches is one '
                   '`git push --all --atomic`, issued last; add_to_queue and every other handler push only w/ and '
                   'q/ names (event obligations shared with C08); git_utils.push hands git exactly one push. A '
                   'crash is a prefix of the trace. Sentence 2 (recovery converges) is not claimed.',
    'assumptions': [
        '`git push --all --atomic` is atomic on the server (git semantics, trusted)',
        'RetryHandler.run modelled as one call; the git/host model of specs/gitmodel.py',
        'the tail of _handle_pull_request is not under contract (it composes the handlers verified here)',
        'recovery / re-delivery (sentence 2) is liveness: not decided by contracts',
    ],
    'trusted_base': [],
}
