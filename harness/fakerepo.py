"""In-memory stand-in for ``bert_e.lib.git.Repository``.

``FakeRepo`` subclasses the REAL ``Repository`` and only replaces the parts
that touch the file system / spawn ``git``: ``__init__``, ``reset``,
``delete``, ``clone`` and ``cmd``.  Everything else (``push``, ``push_all``,
``checkout``, ``remote_branch_exists``, ``get_branches_from_commit``,
``remote_branches``, ``config`` ...) is the real code, whose command strings
end up in :meth:`FakeRepo.cmd`.  The real ``bert_e.lib.git.Branch``, the real
``GWFBranch`` subclasses, ``QueueCollection``, ``BranchCascade`` and the real
functions of ``queueing.py`` / ``git_utils.py`` therefore run unmodified.

Model
-----
* a commit = (sha, parents, author, tree); sha = 40 hex chars derived from a
  counter; ``tree`` = frozenset of the "file tags" reachable from the commit.
  Every non-merge commit adds exactly one new private file, a merge commit's
  tree is the union of its parents' trees -> merges never conflict and
  ``git diff a b`` is empty iff the two trees are equal.
* three ref name spaces, as in a real clone: ``remote`` (the server's
  refs/heads), ``local`` (refs/heads of the clone), ``tracking``
  (refs/remotes/origin/*, refreshed by clone() and by successful pushes),
  plus ``tags`` / ``remote_tags``.
* ``trace`` records every command that mutates the remote.

Unknown command shapes raise ``NotImplementedError(command)``.
"""
import sys

sys.dont_write_bytecode = True
if '/repo' not in sys.path:
    sys.path.insert(0, '/repo')

import fnmatch  # noqa: E402
import hashlib  # noqa: E402
import shlex  # noqa: E402
from collections import defaultdict, namedtuple  # noqa: E402
from pipes import quote  # noqa: E402  (same quoting as the real Repository.cmd)

from bert_e.lib.git import Repository  # noqa: E402
from bert_e.lib.simplecmd import CommandError  # noqa: E402

FakeCommit = namedtuple('FakeCommit', 'sha parents author tree')


_TOKENS = {}    # memo: command string -> shlex tokens (pure function)


def fake_sha(n):
    """Deterministic 40-hex id for the n-th commit (n >= 1)."""
    return hashlib.sha1(b'fake-commit-%d' % n).hexdigest()


class FakeRepo(Repository):
    def __init__(self, url='fake://host/owner/fakerepo.git', mask_pwd=''):
        # deliberately NOT calling Repository.__init__ (it creates a tmp dir)
        self._url = url
        self._mask_pwd = mask_pwd
        self.tmp_directory = None
        self.cmd_directory = None
        self.commits = {}
        self._order = {}          # sha -> creation index
        self._anc = {}            # sha -> frozenset(ancestors incl. itself)
        self._counter = 0
        self.remote = {}
        self.remote_tags = {}
        self.trace = []
        self.cmd_log = None       # set to a list to record every command
        self.reset()

    # ------------------------------------------------------------------ #
    # Repository overrides
    # ------------------------------------------------------------------ #
    def reset(self):
        """Forget the local clone (the remote survives), like the real one."""
        self.tmp_directory = 'fake-tmp'
        self.cmd_directory = self.tmp_directory
        self._remote_heads = defaultdict(set)
        self._remote_branches = dict()
        self.local = {}
        self.tracking = {}
        self.tags = {}
        self.head = None          # name of the checked out branch
        self.detached = None      # sha when HEAD is detached
        self.cloned = False

    def delete(self):
        self.tmp_directory = None
        self.cmd_directory = None
        self.local = {}
        self.tracking = {}
        self.tags = {}
        self.head = None
        self.detached = None
        self.cloned = False

    def clone(self):
        """All remote heads become local branches (mirror clone semantics)."""
        if self.cloned:
            return
        self.cmd_directory = 'fake-tmp/clone'
        self.local = dict(self.remote)
        self.tracking = dict(self.remote)
        self.tags = dict(self.remote_tags)
        self.head = None
        self.detached = None
        self.cloned = True

    def __deepcopy__(self, memo):
        # deep copies of real Repository objects still designate the same
        # on-disk clone; the fake one is therefore shared, not duplicated.
        return self

    # ------------------------------------------------------------------ #
    # history building helpers (not part of the Repository API)
    # ------------------------------------------------------------------ #
    def _new_commit(self, parents, author, own_file=True):
        self._counter += 1
        sha = fake_sha(self._counter)
        tree = frozenset().union(*[self.commits[p].tree for p in parents]) \
            if parents else frozenset()
        if own_file:
            tree = tree | {'f%d' % self._counter}
        self.commits[sha] = FakeCommit(sha, tuple(parents), author, tree)
        self._order[sha] = self._counter
        return sha

    def commit(self, branch_name, author='dev', where='both'):
        """Add a fresh single-file commit on top of ``branch_name``.

        The branch is created as a root if it does not exist.  ``where`` in
        {'both', 'remote', 'local'} tells which ref name space(s) move.
        """
        cur = None
        if where in ('both', 'local') and branch_name in self.local:
            cur = self.local[branch_name]
        elif branch_name in self.remote and where != 'local':
            cur = self.remote[branch_name]
        elif branch_name in self.local:
            cur = self.local[branch_name]
        sha = self._new_commit([cur] if cur else [], author)
        self._set(branch_name, sha, where)
        return sha

    def _resolve_any(self, ref):
        """helper-side resolution: also accepts a remote branch name when
        there is no clone (the command interpreter never does that)."""
        sha = self.resolve(ref, None)
        if sha is None:
            sha = self.remote.get(str(ref))
        if sha is None:
            raise KeyError(ref)
        return sha

    def create_branch(self, name, from_ref, where='both'):
        sha = self._resolve_any(from_ref)
        self._set(name, sha, where)
        return sha

    def set_remote(self, name, sha):
        """Force a remote head (sha=None deletes it), as another user of the
        server would.  Like any out-of-band change this neither moves the
        clone's origin/* refs (see fetch()) nor refreshes the real
        Repository's ls-remote cache (``refresh_cache=True`` / ``reset()``).
        """
        if sha is None:
            self.remote.pop(name, None)
        else:
            self.remote[name] = self._resolve_any(sha)

    def fetch(self):
        """``git remote update origin --prune``: refresh origin/* refs."""
        self.tracking = dict(self.remote)

    def set_tag(self, name, ref, where='both'):
        sha = self._resolve_any(ref)
        if where in ('both', 'remote'):
            self.remote_tags[name] = sha
        if where in ('both', 'local'):
            self.tags[name] = sha

    def _set(self, name, sha, where):
        if where in ('both', 'remote'):
            self.remote[name] = sha
        if where == 'both':
            self.tracking[name] = sha
        if where in ('both', 'local'):
            self.local[name] = sha

    def ancestors(self, sha):
        """Set of all commits reachable from ``sha`` (itself included)."""
        sha = self.resolve(sha)
        got = self._anc.get(sha)
        if got is not None:
            return got
        # iterative post-order to avoid deep recursion
        stack = [sha]
        while stack:
            cur = stack[-1]
            if cur in self._anc:
                stack.pop()
                continue
            missing = [p for p in self.commits[cur].parents
                       if p not in self._anc]
            if missing:
                stack.extend(missing)
                continue
            acc = {cur}
            for p in self.commits[cur].parents:
                acc |= self._anc[p]
            self._anc[cur] = frozenset(acc)
            stack.pop()
        return self._anc[sha]

    def is_ancestor(self, a, b):
        return self.resolve(a) in self.ancestors(b)

    def snapshot(self):
        return (dict(self.remote), dict(self.local), dict(self.tracking),
                dict(self.tags), dict(self.remote_tags), self.head,
                self.detached, self.cloned, len(self.trace))

    def restore(self, snap):
        (remote, local, tracking, tags, rtags, self.head, self.detached,
         self.cloned, ntrace) = snap
        self.remote = dict(remote)
        self.local = dict(local)
        self.tracking = dict(tracking)
        self.tags = dict(tags)
        self.remote_tags = dict(rtags)
        del self.trace[ntrace:]
        self._remote_branches = dict()
        self._remote_heads = defaultdict(set)

    # ------------------------------------------------------------------ #
    # ref resolution
    # ------------------------------------------------------------------ #
    def resolve(self, ref, default=KeyError):
        ref = str(ref)
        if ref == 'HEAD':
            sha = self._head_sha()
            if sha:
                return sha
        elif ref in self.local:
            return self.local[ref]
        elif ref in self.tags:
            return self.tags[ref]
        elif ref.startswith('origin/') and ref[7:] in self.tracking:
            return self.tracking[ref[7:]]
        elif ref.startswith('remotes/origin/') and ref[15:] in self.tracking:
            return self.tracking[ref[15:]]
        elif ref.startswith('refs/heads/') and ref[11:] in self.local:
            return self.local[ref[11:]]
        elif ref in self.commits:
            return ref
        elif 4 <= len(ref) < 40 and all(c in '0123456789abcdef' for c in ref):
            hits = [s for s in self.commits if s.startswith(ref)]
            if len(hits) == 1:
                return hits[0]
        if default is KeyError:
            raise KeyError(ref)
        return default

    def _resolve_or_fail(self, ref, command):
        sha = self.resolve(ref, None)
        if sha is None:
            raise CommandError('Command %s returned with code 128: fatal: '
                               'unknown revision %s' % (command, ref))
        return sha

    def _head_sha(self):
        if self.head is not None:
            return self.local.get(self.head)
        return self.detached

    # ------------------------------------------------------------------ #
    # the command interpreter
    # ------------------------------------------------------------------ #
    def cmd(self, command, *args, **kwargs):
        kwargs.pop('retry', None)
        if args:
            command = command % tuple(
                quote(arg.strip()) if isinstance(arg, str) and arg else arg
                for arg in args
            )
        binary = kwargs.get('universal_newlines', True) is False
        if self.cmd_log is not None:
            self.cmd_log.append(command)
        tokens = _TOKENS.get(command)
        if tokens is None:
            try:
                tokens = shlex.split(command)
            except ValueError:
                raise NotImplementedError(command)
            if len(_TOKENS) < 200000:
                _TOKENS[command] = tokens
        if len(tokens) < 2 or tokens[0] != 'git':
            raise NotImplementedError(command)
        handler = getattr(self, '_git_' + tokens[1].replace('-', '_'), None)
        if handler is None:
            raise NotImplementedError(command)
        out = handler(tokens[2:], command)
        if out is None:
            out = ''
        return out.encode() if binary else out

    # -- plumbing ------------------------------------------------------ #
    @staticmethod
    def _fail(command, code, msg=''):
        raise CommandError('Command %s returned with code %d: %s'
                           % (command, code, msg))

    def _git_config(self, argv, command):
        return ''

    def _git_ls_remote(self, argv, command):
        if len(argv) == 2 and argv[0] == '--heads':
            return ''.join('%s\trefs/heads/%s\n' % (sha, name)
                           for name, sha in sorted(self.remote.items()))
        raise NotImplementedError(command)

    def _git_rev_parse(self, argv, command):
        if len(argv) != 1 or argv[0].startswith('-'):
            raise NotImplementedError(command)
        return self._resolve_or_fail(argv[0], command) + '\n'

    def _git_merge_base(self, argv, command):
        if len(argv) != 3 or argv[0] != '--is-ancestor':
            raise NotImplementedError(command)
        a = self._resolve_or_fail(argv[1], command)
        b = self._resolve_or_fail(argv[2], command)
        if a not in self.ancestors(b):
            self._fail(command, 1)
        return ''

    def _git_checkout(self, argv, command):
        if len(argv) == 1 and not argv[0].startswith('-'):
            name = argv[0]
            if name in self.local:
                self.head, self.detached = name, None
            elif name in self.tracking:
                # git's DWIM: create a local branch tracking origin/<name>
                self.local[name] = self.tracking[name]
                self.head, self.detached = name, None
            else:
                sha = self.resolve(name, None)
                if sha is None:
                    self._fail(command, 1, "pathspec '%s' did not match"
                               % name)
                self.head, self.detached = None, sha
            return ''
        if len(argv) == 3 and argv[0] == '-b':
            name, src = argv[1], argv[2]
            if name in self.local:
                self._fail(command, 128, 'a branch named %s already exists'
                           % name)
            sha = self.resolve(src, None)
            if sha is None:
                self._fail(command, 128, 'not a valid object name %s' % src)
            self.local[name] = sha
            self.head, self.detached = name, None
            return ''
        raise NotImplementedError(command)

    def _git_reset(self, argv, command):
        if len(argv) != 2 or argv[0] != '--hard':
            raise NotImplementedError(command)
        sha = self._resolve_or_fail(argv[1], command)
        if self.head is not None:
            self.local[self.head] = sha
        else:
            self.detached = sha
        return ''

    def reduce_heads(self, shas):
        """git's reduce_heads(): drop duplicates and every commit that is
        reachable from another one of the list; original order is kept."""
        uniq = []
        for s in shas:
            if s not in uniq:
                uniq.append(s)
        return [s for s in uniq
                if not any(o != s and s in self.ancestors(o) for o in uniq)]

    def _git_merge(self, argv, command):
        no_ff = False
        names = []
        for a in argv:
            if a == '--no-edit':
                continue
            elif a == '--no-ff':
                no_ff = True
            elif a.startswith('-'):
                raise NotImplementedError(command)
            else:
                names.append(a)
        if not names:
            raise NotImplementedError(command)
        head = self._head_sha()
        if head is None:
            self._fail(command, 128, 'no HEAD')
        heads = [self.resolve(n, None) for n in names]
        if any(h is None for h in heads):
            self._fail(command, 1, 'not something we can merge')
        # builtin/merge.c: reduce_parents([HEAD] + heads)
        reduced = self.reduce_heads([head] + heads)
        head_subsumed = head not in reduced
        remote_heads = [h for h in reduced if h != head]
        if not remote_heads:
            self.last_merge = 'up-to-date'
            return 'Already up to date.\n'
        if len(remote_heads) == 1 and head_subsumed and not no_ff:
            self._move_head(remote_heads[0])
            self.last_merge = 'fast-forward'
            return 'Fast-forward\n'
        parents = list(remote_heads)
        if not head_subsumed or no_ff:
            parents.insert(0, head)
        sha = self._new_commit(parents, 'bert-e', own_file=False)
        self._move_head(sha)
        self.last_merge = 'merge-commit'
        return 'Merge made.\n'

    def _move_head(self, sha):
        if self.head is not None:
            self.local[self.head] = sha
        else:
            self.detached = sha

    def _git_branch(self, argv, command):
        if len(argv) == 2 and argv[0] == '-D':
            name = argv[1]
            if name not in self.local:
                self._fail(command, 1, "branch '%s' not found" % name)
            if name == self.head:
                self._fail(command, 1, 'cannot delete checked out branch')
            del self.local[name]
            return ''
        if len(argv) == 3 and argv[0] in ('-r', '-a') and argv[1] == '--list':
            pattern = argv[2]
            lines = []
            if argv[0] == '-a':
                for name in sorted(self.local):
                    if fnmatch.fnmatchcase(name, pattern):
                        lines.append(('* ' if name == self.head else '  ')
                                     + name)
                for name in sorted(self.tracking):
                    full = 'remotes/origin/' + name
                    if fnmatch.fnmatchcase(full, pattern):
                        lines.append('  ' + full)
            else:
                for name in sorted(self.tracking):
                    full = 'origin/' + name
                    if fnmatch.fnmatchcase(full, pattern):
                        lines.append('  ' + full)
            return ''.join(line + '\n' for line in lines)
        raise NotImplementedError(command)

    def _git_tag(self, argv, command):
        if not argv:
            return ''.join(t + '\n' for t in sorted(self.tags))
        if len(argv) == 1 and not argv[0].startswith('-'):
            if argv[0] in self.tags:
                self._fail(command, 128, 'tag already exists')
            head = self._head_sha()
            if head is None:
                self._fail(command, 128, 'no HEAD')
            self.tags[argv[0]] = head
            return ''
        raise NotImplementedError(command)

    def _git_log(self, argv, command):
        no_merges = False
        rng = None
        for a in argv:
            if a == '--no-merges':
                no_merges = True
            elif a == '--pretty=%H %P':
                pass
            elif a.startswith('-'):
                raise NotImplementedError(command)
            elif rng is None and '..' in a and '...' not in a:
                rng = a
            else:
                raise NotImplementedError(command)
        if rng is None:
            raise NotImplementedError(command)
        lo, hi = rng.split('..', 1)
        lo = self._resolve_or_fail(lo, command)
        hi = self._resolve_or_fail(hi, command)
        shas = self.ancestors(hi) - self.ancestors(lo)
        out = []
        for sha in sorted(shas, key=lambda s: -self._order[s]):
            parents = self.commits[sha].parents
            if no_merges and len(parents) > 1:
                continue
            out.append(' '.join((sha,) + parents) + '\n')
        return ''.join(out)

    def _git_diff(self, argv, command):
        if len(argv) != 2 or any(a.startswith('-') for a in argv):
            raise NotImplementedError(command)
        a = self._resolve_or_fail(argv[0], command)
        b = self._resolve_or_fail(argv[1], command)
        ta, tb = self.commits[a].tree, self.commits[b].tree
        if ta == tb:
            return ''
        return ''.join('diff --git a/%s b/%s\n' % (f, f)
                       for f in sorted(ta ^ tb))

    def _git_show(self, argv, command):
        if len(argv) == 2 and argv[0] == '--pretty=%aN':
            sha = self._resolve_or_fail(argv[1], command)
            return self.commits[sha].author + '\n\n'
        raise NotImplementedError(command)

    def _git_cat_file(self, argv, command):
        if len(argv) == 2 and argv[0] == '-p':
            sha = self._resolve_or_fail(argv[1], command)
            c = self.commits[sha]
            lines = ['tree %040x' % (hash(c.tree) % (1 << 160))]
            lines += ['parent %s' % p for p in c.parents]
            lines += ['author %s <%s@x> 0 +0000' % (c.author, c.author),
                      'committer %s <%s@x> 0 +0000' % (c.author, c.author),
                      '', 'fake commit']
            return '\n'.join(lines) + '\n'
        raise NotImplementedError(command)

    # -- push ---------------------------------------------------------- #
    def _git_push(self, argv, command):
        # NB: like the real Repository, the ls-remote cache (_remote_branches
        # / _remote_heads) is NOT refreshed by a push.
        flags = [a for a in argv if a.startswith('-')]
        rest = [a for a in argv if not a.startswith('-')]
        if '--all' in flags:
            if set(flags) - {'--all', '--atomic', '--prune'} or rest:
                raise NotImplementedError(command)
            return self._push_all('--atomic' in flags, '--prune' in flags,
                                  command)
        if set(flags) - {'--set-upstream', '-u'}:
            raise NotImplementedError(command)
        if not rest or rest[0] != 'origin' or len(rest) < 2:
            raise NotImplementedError(command)
        rejected = []
        for spec in rest[1:]:
            if spec.startswith(':'):
                name = spec[1:]
                if name in self.remote:
                    del self.remote[name]
                    self.tracking.pop(name, None)
                    self.trace.append(('delete', name))
                elif name in self.remote_tags:
                    del self.remote_tags[name]
                    self.trace.append(('delete-tag', name))
                else:
                    rejected.append(spec)   # "remote ref does not exist"
                continue
            if ':' in spec or spec.startswith('+'):
                raise NotImplementedError(command)
            if spec in self.local:
                if not self._push_one(spec):
                    rejected.append(spec)
            elif spec in self.tags:
                old = self.remote_tags.get(spec)
                if old is not None and old != self.tags[spec]:
                    rejected.append(spec)
                elif old is None:
                    self.remote_tags[spec] = self.tags[spec]
                    self.trace.append(('push-tag', spec, self.tags[spec]))
            else:
                # src refspec does not match any -> nothing is pushed at all
                self._fail(command, 1, 'src refspec %s does not match any'
                           % spec)
        if rejected:
            self._fail(command, 1, 'failed to push some refs: %s' % rejected)
        return ''

    def _ff_ok(self, name):
        old = self.remote.get(name)
        return old is None or old in self.ancestors(self.local[name])

    def _push_one(self, name):
        if not self._ff_ok(name):
            return False
        new = self.local[name]
        if self.remote.get(name) != new:
            self.trace.append(('push', name, self.remote.get(name), new))
            self.remote[name] = new
        self.tracking[name] = new
        return True

    def _push_all(self, atomic, prune, command):
        names = sorted(self.local)
        bad = [n for n in names if not self._ff_ok(n)]
        if bad and atomic:
            self._fail(command, 1, 'atomic push failed: %s' % bad)
        for n in names:
            if n not in bad:
                self._push_one(n)
        if prune:
            for n in sorted(set(self.remote) - set(self.local)):
                del self.remote[n]
                self.tracking.pop(n, None)
                self.trace.append(('prune', n))
        if bad:
            self._fail(command, 1, 'failed to push some refs: %s' % bad)
        return ''


# ---------------------------------------------------------------------- #
# differential self test against the real git binary
# ---------------------------------------------------------------------- #
def selftest_against_real_git(n_sequences=30, seed=0, steps=25):
    """Replay random histories on a real git repository and on FakeRepo.

    After every step compare (1) the ancestry relation between all branch
    tips (via ``git merge-base --is-ancestor`` on both sides, issued through
    the real ``bert_e.lib.git.Branch.includes_commit``), (2) the kind of the
    merge (up-to-date / fast-forward / merge-commit) and (3) for new merge
    commits the parent list.  Returns counts and the list of mismatches.
    """
    import os
    import random
    import shutil
    import subprocess
    import tempfile
    from bert_e.lib.git import Branch

    res = {'git_available': bool(shutil.which('git')), 'sequences': 0,
           'steps': 0, 'merges': 0, 'merge_kinds': {}, 'octopus': 0,
           'head_subsumed_octopus': 0, 'real_includes_commit_calls': 0,
           'ancestry_pairs_compared': 0, 'parent_lists_compared': 0,
           'mismatches': []}
    if not res['git_available']:
        return res
    rng = random.Random(seed)
    top = tempfile.mkdtemp(prefix='fakerepo-selftest-')
    env = dict(os.environ, GIT_AUTHOR_NAME='t', GIT_AUTHOR_EMAIL='t@t',
               GIT_COMMITTER_NAME='t', GIT_COMMITTER_EMAIL='t@t',
               GIT_CONFIG_GLOBAL='/dev/null', GIT_CONFIG_SYSTEM='/dev/null',
               HOME=top)

    class RealRepo(Repository):
        """the real Repository, pointed at an existing work tree"""
        def __init__(self, path):
            self._url = path
            self._mask_pwd = ''
            self.tmp_directory = path
            self.cmd_directory = path
            self._remote_heads = defaultdict(set)
            self._remote_branches = dict()

    def git(path, *argv):
        return subprocess.run(('git',) + argv, cwd=path, env=env, check=True,
                              stdout=subprocess.PIPE,
                              stderr=subprocess.STDOUT).stdout.decode()

    old_env = dict(os.environ)
    os.environ.update(env)
    try:
        for seq in range(n_sequences):
            path = os.path.join(top, 'r%d' % seq)
            os.mkdir(path)
            git(path, 'init', '-q', '-b', 'b0')
            real = RealRepo(path)
            fake = FakeRepo()
            fake.cloned = True
            r2f = {}
            nfile = [0]

            def real_commit(branch):
                git(path, 'checkout', '-q', branch)
                nfile[0] += 1
                with open(os.path.join(path, 'f%d' % nfile[0]), 'w') as f:
                    f.write('x\n')
                git(path, 'add', '-A')
                git(path, 'commit', '-q', '-m', 'c%d' % nfile[0])
                return git(path, 'rev-parse', 'HEAD').strip()

            # root commit on b0
            with open(os.path.join(path, 'root'), 'w') as f:
                f.write('r\n')
            git(path, 'add', '-A')
            git(path, 'commit', '-q', '-m', 'root')
            r2f[git(path, 'rev-parse', 'HEAD').strip()] = \
                fake.commit('b0', where='local')
            names = ['b0']

            def pick_unmerged(dst):
                # prefer (3 times out of 4) a source not yet contained in dst
                cands = [n for n in names if not fake.is_ancestor(n, dst)]
                if cands and rng.random() < 0.75:
                    return rng.choice(cands)
                return rng.choice(names)

            for step in range(steps):
                op = rng.choice(['commit'] * 5 + ['branch'] * 2 + ['merge'] +
                                ['merge2'] * 3 + ['ffmerge'] + ['octoff'])
                desc = None
                if op == 'commit':
                    b = rng.choice(names)
                    desc = ('commit', b)
                    r2f[real_commit(b)] = fake.commit(b, where='local')
                elif op == 'branch':
                    src = rng.choice(names)
                    b = 'b%d' % len(names)
                    desc = ('branch', b, src)
                    Branch(real, b).create(Branch(real, src), do_push=False)
                    Branch(fake, b).create(Branch(fake, src), do_push=False)
                    names.append(b)
                else:
                    dst = rng.choice(names)
                    if op == 'ffmerge':
                        # choose a source that contains dst when possible
                        cands = [n for n in names if n != dst and
                                 fake.is_ancestor(dst, n)]
                        srcs = [rng.choice(cands)] if cands else \
                            [rng.choice(names)]
                    elif op == 'merge':
                        srcs = [pick_unmerged(dst)]
                    elif op == 'octoff':
                        # heads that both contain dst when possible: either
                        # reduces to one head (fast-forward) or HEAD is
                        # subsumed by an octopus
                        cands = [n for n in names if n != dst and
                                 fake.is_ancestor(dst, n)] or names
                        srcs = [rng.choice(cands), rng.choice(cands)]
                    else:
                        srcs = [pick_unmerged(dst), pick_unmerged(dst)]
                    desc = ('merge', dst, tuple(srcs))
                    before = git(path, 'rev-parse', dst).strip()
                    Branch(real, dst).merge(*[Branch(real, s) for s in srcs])
                    Branch(fake, dst).merge(*[Branch(fake, s) for s in srcs])
                    after = git(path, 'rev-parse', dst).strip()
                    if after == before:
                        kind = 'up-to-date'
                    elif after in r2f:
                        kind = 'fast-forward'
                    else:
                        kind = 'merge-commit'
                    res['merges'] += 1
                    res['octopus'] += len(set(srcs)) > 1
                    res['merge_kinds'][kind] = \
                        res['merge_kinds'].get(kind, 0) + 1
                    if kind != fake.last_merge:
                        res['mismatches'].append(
                            {'seq': seq, 'step': step, 'op': desc,
                             'what': 'merge kind', 'real': kind,
                             'fake': fake.last_merge})
                    if kind == 'merge-commit':
                        ftip = fake.local[dst]
                        if fake.local[dst] != before and r2f.get(before) \
                                not in fake.commits[ftip].parents:
                            res['head_subsumed_octopus'] += 1
                        rpar = git(path, 'log', '-1', '--pretty=%P',
                                   after).split()
                        fpar = list(fake.commits[ftip].parents)
                        res['parent_lists_compared'] += 1
                        if [r2f.get(p) for p in rpar] != fpar:
                            res['mismatches'].append(
                                {'seq': seq, 'step': step, 'op': desc,
                                 'what': 'parents',
                                 'real': [r2f.get(p) for p in rpar],
                                 'fake': fpar})
                        if ftip not in r2f.values():
                            r2f[after] = ftip
                # compare tips and the whole ancestry relation
                rtips = {}
                for a in names:
                    rtip = Branch(real, a).get_latest_commit()
                    ftip = Branch(fake, a).get_latest_commit()
                    rtips[a] = rtip
                    if r2f.get(rtip) != ftip:
                        res['mismatches'].append(
                            {'seq': seq, 'step': step, 'op': desc,
                             'what': 'tip of %s' % a, 'real': r2f.get(rtip),
                             'fake': ftip})
                # real side: one rev-list per tip (N calls instead of N^2)
                ranc = {b: set(git(path, 'rev-list', rtips[b]).split())
                        for b in names}
                probe = (rng.choice(names), rng.choice(names))
                for a in names:
                    for b in names:
                        ra = rtips[a] in ranc[b]
                        fa = Branch(fake, b).includes_commit(Branch(fake, a))
                        res['ancestry_pairs_compared'] += 1
                        if (a, b) == probe:
                            # same question through the real Branch on the
                            # real repository (exit-code path)
                            res['real_includes_commit_calls'] += 1
                            ra2 = Branch(real, b).includes_commit(
                                Branch(real, a))
                            if ra2 != ra:
                                res['mismatches'].append(
                                    {'seq': seq, 'step': step, 'op': desc,
                                     'what': 'rev-list vs is-ancestor'})
                        if ra != fa:
                            res['mismatches'].append(
                                {'seq': seq, 'step': step, 'op': desc,
                                 'what': '%s in %s' % (a, b), 'real': ra,
                                 'fake': fa})
                # also the whole commit graph reachable from each tip
                for b in names:
                    fset = fake.ancestors(fake.local[b])
                    if {r2f.get(c) for c in ranc[b]} != set(fset):
                        res['mismatches'].append(
                            {'seq': seq, 'step': step, 'op': desc,
                             'what': 'ancestor set of %s' % b})
                res['steps'] += 1
            # content check: git diff between every pair of tips
            for a in names:
                for b in names:
                    rd = Branch(real, a).differs(b)
                    fd = Branch(fake, a).differs(b)
                    if rd != fd:
                        res['mismatches'].append(
                            {'seq': seq, 'what': 'diff %s %s' % (a, b),
                             'real': rd, 'fake': fd})
            res['sequences'] += 1
            shutil.rmtree(path, ignore_errors=True)
    finally:
        os.environ.clear()
        os.environ.update(old_env)
        shutil.rmtree(top, ignore_errors=True)
    res['n_mismatches'] = len(res['mismatches'])
    res['mismatches'] = res['mismatches'][:20]
    return res


if __name__ == '__main__':
    import json
    n = int(sys.argv[1]) if len(sys.argv) > 1 else 30
    s = int(sys.argv[2]) if len(sys.argv) > 2 else 0
    print(json.dumps(selftest_against_real_git(n, s), indent=1))
