"""System-level harness: the REAL bert-e (from /repo) driven against the
in-memory mock git host (bert_e/git_host/mock.py) and REAL local git
repositories, without unittest.

    from harness.system import World
    w = World(cascade=('4.3', '5.1', '10.0'), stabilization=False)
    pr = w.create_pr('bugfix/TEST-0001', 'development/4.3')
    w.evaluate_pr(pr)            # -> 'BuildNotStarted'
    w.set_build(pr, 'SUCCESSFUL')
    w.evaluate_pr(pr)            # -> 'Queued'
    w.set_queue_builds('SUCCESSFUL')
    w.evaluate_commit(w.remote_refs()['q/10.0'])   # -> 'Merged'
    w.close()

It mirrors what ``bert_e/tests/test_bert_e.py`` does (``RepositoryTests.setUp``,
``create_pr``, ``handle``, ``set_build_status_on_pr_id``, ``TaskQueueTests``):
a mock-host repository backed by a bare git repo in a temp dir, a work clone
playing the developers, pull requests created through the mock API, one fresh
``BertE`` instance per evaluation (exactly like ``bert_e.bert_e.main``), jobs run
through ``BertE.process``.

Containment
-----------
* everything lives under ONE ``tempfile.mkdtemp()`` root per World:
  ``tempfile.tempdir``/``TMPDIR`` are redirected to ``<root>/tmp`` (bert-e's
  ``lib.git.Repository`` uses ``mkdtemp()`` for every clone), ``HOME`` is
  ``<root>/home`` (bert-e keeps a mirror cache in ``~/.bert-e``), the settings
  file is ``<root>/settings.yml`` (nothing is ever written in the cwd);
* ``close()`` removes the root and restores the environment;
* the mock host keeps its state in CLASS attributes, so only ONE World can be
  alive per process (enforced); use one process per World for parallelism;
* commit dates come from a logical clock (``GIT_AUTHOR_DATE`` /
  ``GIT_COMMITTER_DATE`` advanced by one minute per harness operation), so a
  given call sequence yields the same sha1s on every run.
"""
import os
import shutil
import subprocess
import sys
import tempfile
import warnings

sys.dont_write_bytecode = True
if '/repo' not in sys.path:
    sys.path.insert(0, '/repo')

warnings.filterwarnings('ignore')

import logging  # noqa: E402
import re  # noqa: E402

from bert_e import exceptions as exns  # noqa: E402
from bert_e.bert_e import BertE  # noqa: E402
from bert_e.git_host import mock as mock_host  # noqa: E402
from bert_e.git_host.factory import client_factory  # noqa: E402
from bert_e.job import CommitJob, PullRequestJob  # noqa: E402
from bert_e.jobs.create_branch import CreateBranchJob  # noqa: E402
from bert_e.jobs.delete_branch import DeleteBranchJob  # noqa: E402
from bert_e.jobs.delete_queues import DeleteQueuesJob  # noqa: E402
from bert_e.jobs.eval_pull_request import EvalPullRequestJob  # noqa: E402
from bert_e.jobs.force_merge_queues import ForceMergeQueuesJob  # noqa: E402
from bert_e.jobs.rebuild_queues import RebuildQueuesJob  # noqa: E402
from bert_e.lib import jira as jira_api  # noqa: E402
from bert_e.lib.git import Repository as GitRepository  # noqa: E402
from bert_e.settings import setup_settings  # noqa: E402
from bert_e.tests.mocks import jira as jira_api_mock  # noqa: E402

# same users / names as the upstream command line
OWNER = 'scality_berte_test'
ROBOT = 'berte_e_test'
CONTRIBUTOR = 'bert_e_test_user'
ADMIN = 'bert_e_test_admin'
PEER = 'bert_e_test_peer'          # an extra reviewer for real approvals
PASSWORD = 'pw'
SLUG = '_t_' + ADMIN
BUILD_KEY = 'pre-merge'

# verbatim the options of RepositoryTests.bypass_all
BYPASS_ALL = [
    'bypass_author_approval',
    'bypass_build_status',
    'bypass_incompatible_branch',
    'bypass_jira_check',
    'bypass_peer_approval',
    'bypass_leader_approval',
]


def bypass_all_but(exceptions):
    return [o for o in BYPASS_ALL if o not in exceptions]


# DEFAULT_SETTINGS of bert_e/tests/test_bert_e.py ({jira} = its jira_* keys)
SETTINGS_TEMPLATE = """
repository_owner: {owner}
repository_slug: {slug}
repository_host: {host}
robot: {robot}
robot_email: nobody@nowhere.com
always_create_integration_pull_requests: True
pull_request_base_url: https://bitbucket.org/{owner}/{slug}/bar/pull-requests/{{pr_id}}
commit_base_url: https://bitbucket.org/{owner}/{slug}/commits/{{commit_id}}
build_key: pre-merge
required_leader_approvals: 1
required_peer_approvals: 2
prefixes:
  Story: feature
  Bug: bugfix
  Improvement: improvement
{jira}admins:
  - {admin}
project_leaders:
  - {admin}
"""  # noqa

JIRA_SETTINGS = """jira_account_url: dummy
jira_email: dummy@mail.com
jira_keys:
  - TEST
"""

JOB_KINDS = {
    'rebuild_queues': RebuildQueuesJob,
    'delete_queues': DeleteQueuesJob,
    'force_merge_queues': ForceMergeQueuesJob,
    'create_branch': CreateBranchJob,
    'delete_branch': DeleteBranchJob,
    'eval_pull_request': EvalPullRequestJob,
}

DEST_RE = re.compile(r'^(development|stabilization|hotfix)/')
_EPOCH0 = 1700000000

_ALIVE = [None]


def _reset_mock_state():
    mock_host.Repository.repos = {}
    mock_host.Repository.items = []
    mock_host.Repository.revisions = {}
    mock_host.PullRequest.items = []
    mock_host.Comment.items = []


class World:
    """One mock-host repository + the robot + three users."""

    def __init__(self, cascade=('4.3', '5.1', '10.0'), stabilization=False,
                 use_queue=True, options=(), settings_extra='',
                 foreign_branches=('user/foo',), jira_checks=False):
        """
        cascade: versions of the development/<v> branches, oldest first; each
            branch is created on top of the previous one (plus one commit).
        stabilization: False, True (= 'stabilization/<middle or first>.0') or
            an explicit 'x.y.z' version; the stabilization branch is created
            below its development branch (dev/x.y includes it).
        use_queue: False = --disable-queues.
        options: default command line options (-o) of every evaluation, e.g.
            ``bypass_all_but(['bypass_build_status'])``; [] = none: the pull
            request then needs real approvals (see ``approve``).
        settings_extra: yaml text appended to the upstream sample settings.
        jira_checks: keep the jira_* keys of the upstream sample settings
            (the offline Jira mock only knows fix versions 5.1.4 / 10.0.1,
            which match upstream's tagged test repository, not this one: with
            them every evaluation without bypass_jira_check ends in
            IncorrectFixVersion).  Default: no Jira settings = no Jira check.
        """
        if _ALIVE[0] is not None:
            raise RuntimeError('only one World per process (the mock host '
                               'keeps class-level state); close() it first')
        logging.disable(logging.CRITICAL)
        self.cascade = tuple(cascade)
        self.use_queue = use_queue
        self.options = list(options)
        self.build_key = BUILD_KEY
        self.robot = ROBOT
        self.evaluations = 0
        self.last_exception = None
        self.last_followups = []
        self.pending_prs = []
        self._clock = 0
        self._nfile = 0
        self._closed = False

        # ---- containment ------------------------------------------------
        self._saved_env = {k: os.environ.get(k) for k in (
            'HOME', 'TMPDIR', 'GIT_AUTHOR_DATE', 'GIT_COMMITTER_DATE',
            'GIT_CONFIG_NOSYSTEM', 'GIT_TERMINAL_PROMPT', 'XDG_CONFIG_HOME')}
        self._saved_tempdir = tempfile.tempdir
        self._saved_jira = jira_api.JiraIssue
        self.root = tempfile.mkdtemp(prefix='berte_world_')
        try:
            self._setup(stabilization, settings_extra, foreign_branches,
                        jira_checks)
        except BaseException:
            self.close()
            raise

    # ------------------------------------------------------------------ #
    def _setup(self, stabilization, settings_extra, foreign_branches,
               jira_checks):
        _ALIVE[0] = self
        home = os.path.join(self.root, 'home')
        tmp = os.path.join(self.root, 'tmp')
        os.mkdir(home)
        os.mkdir(tmp)
        with open(os.path.join(home, '.gitconfig'), 'w') as f:
            f.write('[user]\n\tname = %s\n\temail = bert-e@scality.com\n'
                    '[init]\n\tdefaultBranch = master\n'
                    '[advice]\n\tdetachedHead = false\n'
                    '[gc]\n\tauto = 0\n' % ADMIN)
        os.environ['HOME'] = home
        os.environ['XDG_CONFIG_HOME'] = os.path.join(home, '.config')
        os.environ['TMPDIR'] = tmp
        os.environ['GIT_CONFIG_NOSYSTEM'] = '1'
        os.environ['GIT_TERMINAL_PROMPT'] = '0'
        tempfile.tempdir = tmp
        self._tick()

        # same monkey patching as upstream main(): offline Jira
        jira_api.JiraIssue = jira_api_mock.JiraIssue
        _reset_mock_state()

        self.settings_path = os.path.join(self.root, 'settings.yml')
        with open(self.settings_path, 'w') as f:
            f.write(SETTINGS_TEMPLATE.format(
                owner=OWNER, slug=SLUG, host='mock', robot=ROBOT,
                admin=ADMIN, jira=JIRA_SETTINGS if jira_checks else '') +
                (settings_extra or ''))

        def client(user):
            return client_factory('mock', user, PASSWORD, 'nobody@nowhere.com')

        self.admin_bb = client(ADMIN).create_repository(owner=OWNER, slug=SLUG)
        self.contributor_bb = client(CONTRIBUTOR).get_repository(
            owner=OWNER, slug=SLUG)
        self.robot_bb = client(ROBOT).get_repository(owner=OWNER, slug=SLUG)
        self.peer_bb = client(PEER).get_repository(owner=OWNER, slug=SLUG)
        self._bbs = {ADMIN: self.admin_bb, CONTRIBUTOR: self.contributor_bb,
                     ROBOT: self.robot_bb, PEER: self.peer_bb}
        self.bare = self.admin_bb.git_url            # bare repo directory
        self.gitrepo = GitRepository(self.bare)      # developers' work clone

        # ---- initial history ---------------------------------------------
        if stabilization is True:
            stabilization = self.cascade[len(self.cascade) // 2] + '.0'
        self.stabilization = ('stabilization/' + stabilization
                              if stabilization else None)
        g = self.gitrepo.cmd
        g('git init --initial-branch=master')
        g('git config user.email bert-e@scality.com')
        g('git config user.name %s' % ADMIN)
        g('touch a')
        g('git add a')
        g('git commit -m "Initial commit"')
        g('git remote add origin ' + self.bare)
        for name in foreign_branches:
            self._new_branch(name, None, True)
            g('git checkout master')
        for version in self.cascade:
            if self.stabilization and stabilization.startswith(version + '.'):
                self._new_branch(self.stabilization, None, True)
            self._new_branch('development/' + version, None, True)
        g('git checkout development/%s' % self.cascade[0])
        g('git branch -D master')
        g('git push --all origin')
        self.initial_refs = self.remote_refs()

    def _tick(self):
        self._clock += 1
        stamp = '%d +0000' % (_EPOCH0 + 60 * self._clock)
        os.environ['GIT_AUTHOR_DATE'] = stamp
        os.environ['GIT_COMMITTER_DATE'] = stamp

    def _new_branch(self, name, from_ref, with_file):
        g = self.gitrepo.cmd
        if from_ref:
            g('git checkout -q %s', from_ref)
        g('git checkout -b %s', name)
        if with_file:
            self._add_file(name)

    def _add_file(self, branch):
        self._nfile += 1
        fname = 'file_%03d_on_%s' % (self._nfile, re.sub(r'\W', '_', branch))
        g = self.gitrepo.cmd
        g('echo %s > %s', branch, fname)
        g('git add %s', fname)
        g('git commit -m "adds %s file on %s"' % (fname, branch))
        return fname

    def _sync(self):
        self.gitrepo.cmd('git fetch -q --prune origin')

    def _git(self, *args, check=True):
        """Run git in the BARE repository (the 'remote')."""
        proc = subprocess.run(('git',) + args, cwd=self.bare,
                              stdout=subprocess.PIPE, stderr=subprocess.PIPE,
                              universal_newlines=True)
        if check and proc.returncode:
            raise RuntimeError('git %s: %s' % (' '.join(args), proc.stderr))
        return proc

    # ------------------------------------------------------------------ #
    # developers' actions
    # ------------------------------------------------------------------ #
    def create_pr(self, src_branch, dst_branch, commits=1, author=CONTRIBUTOR,
                  reuse_branch=False, title='title'):
        """Create ``src_branch`` from the remote tip of ``dst_branch`` with
        ``commits`` new commits (one new file each), push it, open the pull
        request as ``author``.  Returns the pull request id."""
        self._tick()
        self._sync()
        if not reuse_branch:
            self._new_branch(src_branch, 'origin/' + dst_branch, False)
            for _ in range(commits):
                self._add_file(src_branch)
            self.gitrepo.cmd('git push -q --set-upstream origin %s',
                             src_branch)
        pr = self._bbs[author].create_pull_request(
            title=title, name='name', src_branch=src_branch,
            dst_branch=dst_branch, close_source_branch=True,
            reviewers=[{'username': ADMIN}], description='')
        return pr.id

    def push_commit(self, branch):
        """Add one commit (a new file) on top of the remote ``branch``."""
        self._tick()
        self._sync()
        self.gitrepo.cmd('git checkout -q -B %s origin/%s', branch, branch)
        self._add_file(branch)
        self.gitrepo.cmd('git push -q origin %s', branch)
        return self.remote_refs()[branch]

    def create_branch(self, name, from_ref):
        """A third party pushes a new branch."""
        self._tick()
        self._sync()
        self.gitrepo.cmd('git push -q origin %s:refs/heads/%s',
                         self._rev(from_ref), name)

    def _rev(self, ref):
        refs = self.remote_refs()
        return refs.get(ref, ref)

    def rebase_source(self, pr_id):
        """Rebase the source branch of the PR on its destination's tip and
        force-push it."""
        self._tick()
        self._sync()
        pr = self._pr(pr_id)
        self.gitrepo.cmd('git checkout -q -B %s origin/%s',
                         pr.src_branch, pr.src_branch)
        self.gitrepo.cmd('git rebase -q origin/%s', pr.dst_branch)
        self.gitrepo.cmd('git push -q -f origin %s', pr.src_branch)
        return self.remote_refs()[pr.src_branch]

    def approve(self, pr_id):
        """Real approvals as the sample settings require: the author, the
        project leader (admin, also counts as a peer) and a second peer."""
        for bb in (self.contributor_bb, self.admin_bb, self.peer_bb):
            bb.get_pull_request(pull_request_id=int(pr_id)).approve()

    def comment(self, pr_id, text, author=CONTRIBUTOR):
        self._bbs_for(author).get_pull_request(
            pull_request_id=int(pr_id)).add_comment(text)

    def _bbs_for(self, author):
        if author not in self._bbs:
            self._bbs[author] = client_factory(
                'mock', author, PASSWORD, 'nobody@nowhere.com'
            ).get_repository(owner=OWNER, slug=SLUG)
        return self._bbs[author]

    def decline(self, pr_id):
        self._pr(pr_id).decline()

    def _pr(self, pr_id):
        return self.robot_bb.get_pull_request(pull_request_id=int(pr_id))

    # ------------------------------------------------------------------ #
    # build statuses
    # ------------------------------------------------------------------ #
    def integration_prs(self, pr_id, open_only=True):
        """Ids of the robot's integration pull requests of ``pr_id``."""
        out = []
        for pr in self.pull_requests():
            m = re.match(r'INTEGRATION \[PR#(\d+) > ', pr['title'])
            if (m and int(m.group(1)) == int(pr_id) and
                    pr['author'] == ROBOT and
                    (pr['state'] == 'OPEN' or not open_only)):
                out.append(pr['id'])
        return sorted(out)

    def pr_commits(self, pr_id):
        """Tips that must be green before a PR can be queued: its source
        branch and its w/ branches (= src_commit of the PR and of its
        integration PRs, what upstream set_build_status_on_pr_id targets)."""
        refs = self.remote_refs()
        shas = []
        for pid in [int(pr_id)] + self.integration_prs(pr_id):
            sha = refs.get(self._pr(pid).src_branch)
            if sha and sha not in shas:
                shas.append(sha)
        return shas

    def set_build(self, target, state, key=None, family=True):
        """``target``: a sha1 (str) or a pull request id (int).  For a pull
        request: the tip of its source branch and (``family``) of the source
        branches of its open integration pull requests."""
        key = key or self.build_key
        if isinstance(target, int):
            shas = (self.pr_commits(target) if family else
                    [self.remote_refs()[self._pr(target).src_branch]])
        else:
            shas = [self._full(target)]
        for sha in shas:
            self.robot_bb.set_build_status(
                revision=sha, key=key, state=state,
                url='https://www.testurl.com/build/1')
        return shas

    def set_queue_builds(self, state, pr_id=None, key=None):
        """Set the build status of the tips of q/w/<pr>/... branches (all, or
        those of one pull request)."""
        shas = []
        for name, sha in sorted(self.remote_refs().items()):
            m = re.match(r'q/w/(\d+)/', name)
            if m and (pr_id is None or int(m.group(1)) == int(pr_id)):
                shas.extend(self.set_build(sha, state, key))
        return shas

    def build_status(self, sha, key=None):
        return mock_host.Repository.revisions.get(
            (self._full(sha), key or self.build_key), 'NOTSTARTED')

    def _full(self, sha):
        if len(sha) == 40:
            return sha
        proc = self._git('rev-parse', '--verify', '-q', sha + '^{commit}',
                         check=False)
        return proc.stdout.strip() or sha

    # ------------------------------------------------------------------ #
    # the robot
    # ------------------------------------------------------------------ #
    def _bert_e(self, options=None, **settings_update):
        settings = setup_settings(self.settings_path)
        settings.update({
            'robot_password': PASSWORD,
            'jira_token': 'dummy_jira_token',
            'cmd_line_options': list(self.options if options is None
                                     else options),
            'backtrace': True,
            'quiet': True,
            'interactive': False,
            'no_comment': False,
            'disable_queues': not self.use_queue,
        })
        settings.update(settings_update)
        return BertE(settings)

    def _run(self, make_job, options=None, **settings_update):
        """One evaluation: a fresh BertE (like bert_e.main), one job through
        BertE.process.  Returns the name of the exception ending it."""
        self._tick()
        self.evaluations += 1
        self.last_exception = None
        berte = self._bert_e(options, **settings_update)
        name = 'None'
        try:
            with berte.git_repo:
                job = make_job(berte)
                try:
                    berte.process(job)
                except Exception as err:          # noqa
                    self.last_exception = err
                    name = type(err).__name__
        finally:
            if berte.git_repo.tmp_directory:
                berte.git_repo.delete()
        self.pending_prs.extend(
            j.pull_request.id for j in list(berte.task_queue.queue)
            if isinstance(j, PullRequestJob))
        return name

    def evaluate_pr(self, pr_id, options=None, **settings):
        """Webhook on a pull request.  Returns the class name of the Bert-E
        exception that ended the evaluation ('Queued', 'SuccessMessage',
        'BuildNotStarted', 'NothingToDo', ...; any other exception type means
        a crash, see ``last_exception``)."""
        return self._run(
            lambda b: PullRequestJob(
                bert_e=b,
                pull_request=b.project_repo.get_pull_request(int(pr_id))),
            options, **settings)

    def evaluate_commit(self, sha, options=None, **settings):
        """Webhook on a build status of commit ``sha``."""
        return self._run(lambda b: CommitJob(bert_e=b, commit=sha),
                         options, **settings)

    def admin_job(self, kind, drain=True, options=None, **kw):
        """API jobs: kind in rebuild_queues / delete_queues /
        force_merge_queues / create_branch(branch=, branch_from=) /
        delete_branch(branch=) / eval_pull_request(pr_id=).
        Returns the job status (exception class name).  The pull request jobs
        a job puts in the task queue (rebuild_queues) are run afterwards when
        ``drain`` (their outcomes: ``last_followups``), otherwise they stay in
        ``pending_prs`` for ``run_pending()``."""
        cls = JOB_KINDS[kind]
        self.last_followups = []
        status = self._run(lambda b: cls(bert_e=b, settings=dict(kw)),
                           options)
        if drain:
            while self.pending_prs:
                self.last_followups.append(self.run_pending())
        return status

    def run_pending(self, options=None):
        """Run the oldest pending follow-up pull request job."""
        pr_id = self.pending_prs.pop(0)
        return (pr_id, self.evaluate_pr(pr_id, options))

    def is_crash(self, err=None):
        err = self.last_exception if err is None else err
        return err is not None and not isinstance(
            err, (exns.BertE_Exception,))

    # ------------------------------------------------------------------ #
    # observations
    # ------------------------------------------------------------------ #
    def remote_refs(self):
        """{branch name: sha1} of the remote (tags as 'refs/tags/<name>')."""
        out = self._git('for-each-ref',
                        '--format=%(refname) %(objectname)').stdout
        refs = {}
        for line in out.splitlines():
            name, sha = line.split()
            if name.startswith('refs/heads/'):
                name = name[len('refs/heads/'):]
            refs[name] = sha
        return refs

    def is_ancestor(self, a, b):
        return self._git('merge-base', '--is-ancestor', a, b,
                         check=False).returncode == 0

    def destination_branches(self, refs=None):
        refs = self.remote_refs() if refs is None else refs
        return sorted(n for n in refs if DEST_RE.match(n))

    def pull_requests(self):
        out = []
        for item in reversed(mock_host.PullRequest.items):
            out.append({
                'id': item.id,
                'author': item.author['username'].lower(),
                'src': item.source['branch']['name'],
                'dst': item.destination['branch']['name'],
                'state': item.state,
                'title': item.title,
            })
        return sorted(out, key=lambda p: p['id'])

    def comments(self, pr_id):
        return [(c.user['username'].lower(), c.content['raw'])
                for c in mock_host.Comment.items
                if c.pull_request_id == int(pr_id)]

    def queued_prs(self, refs=None):
        refs = self.remote_refs() if refs is None else refs
        ids = set()
        for name in refs:
            m = re.match(r'q/w/(\d+)/', name)
            if m:
                ids.add(int(m.group(1)))
        return sorted(ids)

    # ------------------------------------------------------------------ #
    def close(self):
        if self._closed:
            return
        self._closed = True
        try:
            for repo in (getattr(self, 'gitrepo', None),):
                if repo is not None and repo.tmp_directory:
                    repo.delete()
        finally:
            _reset_mock_state()
            jira_api.JiraIssue = self._saved_jira
            tempfile.tempdir = self._saved_tempdir
            for key, val in self._saved_env.items():
                if val is None:
                    os.environ.pop(key, None)
                else:
                    os.environ[key] = val
            shutil.rmtree(self.root, ignore_errors=True)
            if _ALIVE[0] is self:
                _ALIVE[0] = None

    def __enter__(self):
        return self

    def __exit__(self, *exc):
        self.close()


if __name__ == '__main__':
    import time
    t0 = time.time()
    with World(options=bypass_all_but(['bypass_build_status'])) as w:
        print('setup %.2fs' % (time.time() - t0), sorted(w.remote_refs()))
        pr = w.create_pr('bugfix/TEST-0001', 'development/4.3')
        for step in (
                lambda: w.evaluate_pr(pr),
                lambda: w.set_build(pr, 'SUCCESSFUL'),
                lambda: w.evaluate_pr(pr),
                lambda: w.set_queue_builds('SUCCESSFUL'),
                lambda: w.evaluate_commit(w.remote_refs()['q/10.0']),
                lambda: w.evaluate_pr(pr)):
            t = time.time()
            print('%-60s %.2fs' % (step(), time.time() - t))
        print(w.pull_requests())
        print(sorted(w.remote_refs()))
        root = w.root
    print('root removed:', not os.path.exists(root))
