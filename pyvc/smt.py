"""Tiny SMT term IR with light simplification and an SMT-LIB 2 printer in two
dialects (z3 / cvc5).  Terms are immutable; sorts are strings:
  Int Bool String Ref RegLan (Seq S) (Set S) (Array K V)
"""
from __future__ import annotations

import itertools

INT, BOOL, STR, REF, REGLAN = 'Int', 'Bool', 'String', 'Ref', 'RegLan'


def SeqS(s): return '(Seq %s)' % s
def SetS(s): return '(Set %s)' % s
def ArrS(k, v): return '(Array %s %s)' % (k, v)


def sort_args(sort):
    """Split '(Array K V)' -> ['K', 'V'] (one nesting level)."""
    assert sort.startswith('(')
    body = sort[1:-1]
    head, _, rest = body.partition(' ')
    out, depth, cur = [], 0, ''
    for ch in rest:
        if ch == '(':
            depth += 1
        elif ch == ')':
            depth -= 1
        if ch == ' ' and depth == 0:
            out.append(cur)
            cur = ''
        else:
            cur += ch
    if cur:
        out.append(cur)
    return head, out


class T:
    __slots__ = ('op', 'args', 'sort', 'data', '_key')

    def __init__(self, op, args=(), sort=BOOL, data=None):
        self.op = op
        self.args = tuple(args)
        self.sort = sort
        self.data = data
        self._key = None

    def key(self):
        if self._key is None:
            self._key = (self.op, self.sort, self.data,
                         tuple(a.key() for a in self.args))
        return self._key

    def __eq__(self, other):
        return isinstance(other, T) and self.key() == other.key()

    def __hash__(self):
        return hash(self.key())

    def __repr__(self):
        return to_smt(self, 'cvc5')

    def is_const(self):
        return self.op == 'const'


# ---------------------------------------------------------------- constants
TRUE = T('const', (), BOOL, True)
FALSE = T('const', (), BOOL, False)


def BoolC(b): return TRUE if b else FALSE
def IntC(i): return T('const', (), INT, int(i))
def StrC(s): return T('const', (), STR, str(s))


def Var(name, sort):
    return T('var', (), sort, name)


def App(fname, args, sort):
    """Application of an uninterpreted function (declared on printing)."""
    return T('app', args, sort, fname)


def is_true(t): return t.op == 'const' and t.sort == BOOL and t.data is True
def is_false(t): return t.op == 'const' and t.sort == BOOL and t.data is False


# ---------------------------------------------------------------- booleans
def Not(a):
    if is_true(a):
        return FALSE
    if is_false(a):
        return TRUE
    if a.op == 'not':
        return a.args[0]
    return T('not', (a,), BOOL)


def And(*xs):
    flat = []
    for x in xs:
        if isinstance(x, (list, tuple)):
            flat.extend(x)
        else:
            flat.append(x)
    out = []
    seen = set()
    for x in flat:
        if is_false(x):
            return FALSE
        if is_true(x):
            continue
        if x.op == 'and':
            for y in x.args:
                if y.key() not in seen:
                    seen.add(y.key())
                    out.append(y)
            continue
        if x.key() in seen:
            continue
        seen.add(x.key())
        out.append(x)
    for x in out:
        if Not(x).key() in seen:
            return FALSE
    if not out:
        return TRUE
    if len(out) == 1:
        return out[0]
    return T('and', out, BOOL)


def Or(*xs):
    flat = []
    for x in xs:
        if isinstance(x, (list, tuple)):
            flat.extend(x)
        else:
            flat.append(x)
    out = []
    seen = set()
    for x in flat:
        if is_true(x):
            return TRUE
        if is_false(x):
            continue
        if x.op == 'or':
            for y in x.args:
                if y.key() not in seen:
                    seen.add(y.key())
                    out.append(y)
            continue
        if x.key() in seen:
            continue
        seen.add(x.key())
        out.append(x)
    for x in out:
        if Not(x).key() in seen:
            return TRUE
    if not out:
        return FALSE
    if len(out) == 1:
        return out[0]
    return T('or', out, BOOL)


def Implies(a, b):
    if is_true(a):
        return b
    if is_false(a) or is_true(b):
        return TRUE
    if is_false(b):
        return Not(a)
    return T('=>', (a, b), BOOL)


def Ite(c, a, b):
    if is_true(c):
        return a
    if is_false(c):
        return b
    if a == b:
        return a
    if a.sort == BOOL:
        if is_true(a) and is_false(b):
            return c
        if is_false(a) and is_true(b):
            return Not(c)
        if is_true(a):
            return Or(c, b)
        if is_false(a):
            return And(Not(c), b)
        if is_true(b):
            return Or(Not(c), a)
        if is_false(b):
            return And(c, a)
    return T('ite', (c, a, b), a.sort)


def Eq(a, b):
    assert a.sort == b.sort, (a.sort, b.sort, a, b)
    if a == b:
        return TRUE
    if a.op == 'const' and b.op == 'const':
        return BoolC(a.data == b.data)
    if a.sort == BOOL:
        if is_true(a):
            return b
        if is_true(b):
            return a
        if is_false(a):
            return Not(b)
        if is_false(b):
            return Not(a)
    # push equality with a constant through ite (keeps path formulas small)
    if b.op == 'const' and a.op == 'ite':
        return Ite(a.args[0], Eq(a.args[1], b), Eq(a.args[2], b))
    if a.op == 'const' and b.op == 'ite':
        return Ite(b.args[0], Eq(a, b.args[1]), Eq(a, b.args[2]))
    return T('=', (a, b), BOOL)


def Distinct(*xs):
    xs = list(xs)
    if len(xs) < 2:
        return TRUE
    return T('distinct', xs, BOOL)


# ---------------------------------------------------------------- integers
def _ibin(op, a, b, fold):
    if a.op == 'const' and b.op == 'const':
        return IntC(fold(a.data, b.data))
    return T(op, (a, b), INT)


def Add(a, b):
    if a.op == 'const' and a.data == 0:
        return b
    if b.op == 'const' and b.data == 0:
        return a
    return _ibin('+', a, b, lambda x, y: x + y)


def Sub(a, b):
    if b.op == 'const' and b.data == 0:
        return a
    return _ibin('-', a, b, lambda x, y: x - y)


def Mul(a, b): return _ibin('*', a, b, lambda x, y: x * y)
def Neg(a): return Sub(IntC(0), a)


def _icmp(op, a, b, fold):
    if a.op == 'const' and b.op == 'const':
        return BoolC(fold(a.data, b.data))
    return T(op, (a, b), BOOL)


def Lt(a, b): return _icmp('<', a, b, lambda x, y: x < y)
def Le(a, b): return _icmp('<=', a, b, lambda x, y: x <= y)
def Gt(a, b): return _icmp('>', a, b, lambda x, y: x > y)
def Ge(a, b): return _icmp('>=', a, b, lambda x, y: x >= y)


# ---------------------------------------------------------------- strings
def StrLen(s):
    if s.op == 'const':
        return IntC(len(s.data))
    return T('str.len', (s,), INT)


def StrConcat(*xs):
    out = []
    for x in xs:
        if x.op == 'const' and x.data == '':
            continue
        if out and out[-1].op == 'const' and x.op == 'const':
            out[-1] = StrC(out[-1].data + x.data)
        else:
            out.append(x)
    if not out:
        return StrC('')
    if len(out) == 1:
        return out[0]
    return T('str.++', out, STR)


def StrPrefixOf(p, s):
    if p.op == 'const' and s.op == 'const':
        return BoolC(s.data.startswith(p.data))
    if p.op == 'const' and p.data == '':
        return TRUE
    return T('str.prefixof', (p, s), BOOL)


def StrSuffixOf(p, s):
    if p.op == 'const' and s.op == 'const':
        return BoolC(s.data.endswith(p.data))
    return T('str.suffixof', (p, s), BOOL)


def StrContains(s, sub):
    if s.op == 'const' and sub.op == 'const':
        return BoolC(sub.data in s.data)
    return T('str.contains', (s, sub), BOOL)


def StrSubstr(s, off, ln): return T('str.substr', (s, off, ln), STR)
def StrAt(s, i): return T('str.at', (s, i), STR)
def StrReplace(s, a, b): return T('str.replace', (s, a, b), STR)
def StrReplaceAll(s, a, b): return T('str.replace_all', (s, a, b), STR)
def StrFromInt(i): return T('str.from_int', (i,), STR)
def StrToInt(s): return T('str.to_int', (s,), INT)
def StrInRe(s, r): return T('str.in_re', (s, r), BOOL)


# regular expressions
def ReStr(s): return T('str.to_re', (s,), REGLAN)
def ReAll(): return T('re.all', (), REGLAN)
def ReAllChar(): return T('re.allchar', (), REGLAN)
def ReNone(): return T('re.none', (), REGLAN)
def ReConcat(*xs): return xs[0] if len(xs) == 1 else T('re.++', xs, REGLAN)
def ReUnion(*xs): return xs[0] if len(xs) == 1 else T('re.union', xs, REGLAN)
def ReInter(*xs): return xs[0] if len(xs) == 1 else T('re.inter', xs, REGLAN)
def ReStar(x): return T('re.*', (x,), REGLAN)
def RePlus(x): return T('re.+', (x,), REGLAN)
def ReOpt(x): return T('re.opt', (x,), REGLAN)
def ReComp(x): return T('re.comp', (x,), REGLAN)
def ReRange(a, b): return T('re.range', (StrC(a), StrC(b)), REGLAN)
def ReLoop(x, lo, hi): return T('re.loop', (x,), REGLAN, (lo, hi))


# ---------------------------------------------------------------- sequences
def SeqLen(s):
    if s.op == 'seq.empty':
        return IntC(0)
    if s.op == 'seq.unit':
        return IntC(1)
    return T('seq.len', (s,), INT)


def SeqNth(s, i):
    _, (es,) = sort_args(s.sort)
    return T('seq.nth', (s, i), es)


def SeqEmpty(esort): return T('seq.empty', (), SeqS(esort))
def SeqUnit(x): return T('seq.unit', (x,), SeqS(x.sort))


def SeqConcat(*xs):
    xs = [x for x in xs if x.op != 'seq.empty']
    if len(xs) == 1:
        return xs[0]
    return T('seq.++', xs, xs[0].sort)


def SeqExtract(s, off, ln): return T('seq.extract', (s, off, ln), s.sort)


# ---------------------------------------------------------------- sets
def SetEmpty(esort): return T('set.empty', (), SetS(esort))
def SetSingleton(x): return T('set.singleton', (x,), SetS(x.sort))


def SetMember(x, s):
    if s.op == 'set.empty':
        return FALSE
    if s.op == 'set.singleton':
        return Eq(x, s.args[0])
    if s.op == 'set.union':
        return Or(*[SetMember(x, a) for a in s.args])
    if s.op == 'set.minus':
        return And(SetMember(x, s.args[0]), Not(SetMember(x, s.args[1])))
    if s.op == 'set.inter':
        return And(*[SetMember(x, a) for a in s.args])
    return T('set.member', (x, s), BOOL)


def SetUnion(a, b):
    if a.op == 'set.empty':
        return b
    if b.op == 'set.empty':
        return a
    return T('set.union', (a, b), a.sort)


def SetInter(a, b): return T('set.inter', (a, b), a.sort)


def SetMinus(a, b):
    if b.op == 'set.empty':
        return a
    return T('set.minus', (a, b), a.sort)


def SetSubset(a, b): return T('set.subset', (a, b), BOOL)


def SetFilter(base, bound, body):
    """{ x in base | body(x) } ; bound is a Var term occurring in body"""
    if is_true(body):
        return base
    return T('set.filter', (base, body), base.sort, (bound.data, bound.sort))


def SetCard(s):
    if s.op == 'set.empty':
        return IntC(0)
    if s.op == 'set.singleton':
        return IntC(1)
    return T('set.card', (s,), INT)


# ---------------------------------------------------------------- arrays
def Select(a, i):
    _, (ks, vs) = sort_args(a.sort)
    if a.op == 'store':
        if a.args[1] == i:
            return a.args[2]
        if a.args[1].op == 'const' and i.op == 'const':
            return Select(a.args[0], i)
    if a.op == 'constarr':
        return a.args[0]
    return T('select', (a, i), vs)


def Store(a, i, v): return T('store', (a, i, v), a.sort)
def ConstArr(ksort, v): return T('constarr', (v,), ArrS(ksort, v.sort))


# ---------------------------------------------------------------- quantifiers
_qid = itertools.count()


def ForAll(bound, body, patterns=None):
    """bound: list of Var terms."""
    if is_true(body):
        return TRUE
    return T('forall', (body,), BOOL, tuple((v.data, v.sort) for v in bound))


def Exists(bound, body):
    if is_false(body):
        return FALSE
    return T('exists', (body,), BOOL, tuple((v.data, v.sort) for v in bound))


def fresh_bound(prefix, sort):
    return Var('%s_%d' % (prefix, next(_qid)), sort)


# ---------------------------------------------------------------- traversal
def subst(t, mapping):
    """mapping: dict key()->term"""
    k = t.key()
    if k in mapping:
        return mapping[k]
    if not t.args:
        return t
    new = [subst(a, mapping) for a in t.args]
    if all(n is o for n, o in zip(new, t.args)):
        return t
    return rebuild(t, new)


_REBUILD = {}


def rebuild(t, args):
    f = _REBUILD.get(t.op)
    if f is not None:
        return f(*args)
    return T(t.op, args, t.sort, t.data)


_REBUILD.update({
    'not': Not, 'and': And, 'or': Or, '=>': Implies, 'ite': Ite, '=': Eq,
    '+': Add, '-': Sub, '<': Lt, '<=': Le, '>': Gt, '>=': Ge,
    'str.len': StrLen, 'str.prefixof': StrPrefixOf, 'str.contains': StrContains,
    'set.member': SetMember, 'select': Select,
})


def collect(t, decls, sorts):
    """Collect free variables / uninterpreted functions and sorts."""
    stack = [(t, frozenset())]
    seen = set()
    while stack:
        x, bound = stack.pop()
        if (id(x), bound) in seen:
            continue
        seen.add((id(x), bound))
        _collect_sort(x.sort, sorts)
        if x.op == 'var':
            if x.data not in bound:
                decls.setdefault(('var', x.data), ((), x.sort))
        elif x.op == 'app':
            decls.setdefault(('fun', x.data),
                             (tuple(a.sort for a in x.args), x.sort))
        elif x.op in ('forall', 'exists'):
            b2 = bound | frozenset(n for n, _ in x.data)
            for _, s in x.data:
                _collect_sort(s, sorts)
            stack.append((x.args[0], b2))
            continue
        elif x.op == 'set.filter':
            stack.append((x.args[0], bound))
            stack.append((x.args[1], bound | frozenset([x.data[0]])))
            continue
        for a in x.args:
            stack.append((a, bound))


def _collect_sort(s, sorts):
    if s == REF:
        sorts.add(REF)
    elif s.startswith('USeq<'):
        sorts.add(s)
        inner = s[5:-1]
        _collect_sort(inner, sorts)
    elif s.startswith('('):
        _, parts = sort_args(s)
        for p in parts:
            _collect_sort(p, sorts)
    elif s not in (INT, BOOL, STR, REGLAN):
        # a spec-declared uninterpreted sort (e.g. CommitSet)
        sorts.add(s)


def _find_cards(t, out):
    stack = [t]
    seen = set()
    while stack:
        x = stack.pop()
        if id(x) in seen:
            continue
        seen.add(id(x))
        if x.op in ('forall', 'exists', 'set.filter'):
            # cardinalities under binders are not axiomatised (stay uninterpreted)
            pass
        if x.op == 'set.card':
            out.setdefault(x.args[0].key(), x.args[0])
        stack.extend(x.args)


def uses_op(t, ops):
    stack = [t]
    seen = set()
    while stack:
        x = stack.pop()
        if id(x) in seen:
            continue
        seen.add(id(x))
        if x.op in ops:
            return True
        stack.extend(x.args)
    return False


# ---------------------------------------------------------------- printing
def qname(n):
    return '|%s|' % n.replace('|', '!').replace('\\', '!')


def str_lit(s):
    out = []
    for ch in s:
        o = ord(ch)
        if ch == '"':
            out.append('""')
        elif 32 <= o < 127 and ch != '\\':
            out.append(ch)
        else:
            out.append('\\u{%x}' % o)
    return '"%s"' % ''.join(out)


def sort_smt(s, dialect):
    if s.startswith('USeq<'):
        return qname(s)
    if dialect == 'z3' and s.startswith('(Set '):
        _, (e,) = sort_args(s)
        return '(Array %s Bool)' % sort_smt(e, dialect)
    if s.startswith('('):
        head, parts = sort_args(s)
        return '(%s %s)' % (head, ' '.join(sort_smt(p, dialect) for p in parts))
    return s


class Unsupported(Exception):
    pass


def to_smt(t, dialect='cvc5'):
    op = t.op
    if op == 'const':
        if t.sort == BOOL:
            return 'true' if t.data else 'false'
        if t.sort == INT:
            return str(t.data) if t.data >= 0 else '(- %d)' % -t.data
        if t.sort == STR:
            return str_lit(t.data)
        raise AssertionError(t.sort)
    if op == 'var':
        return qname(t.data)
    a = [to_smt(x, dialect) for x in t.args]
    if op == 'app':
        if not a:
            return qname(t.data)
        return '(%s %s)' % (qname(t.data), ' '.join(a))
    if op in ('forall', 'exists'):
        bs = ' '.join('(%s %s)' % (qname(n), sort_smt(s, dialect))
                      for n, s in t.data)
        return '(%s (%s) %s)' % (op, bs, a[0])
    if op == 'seq.empty':
        return '(as seq.empty %s)' % sort_smt(t.sort, dialect)
    if op == 'constarr':
        return '((as const %s) %s)' % (sort_smt(t.sort, dialect), a[0])
    if op == 're.loop':
        lo, hi = t.data
        return '((_ re.loop %d %d) %s)' % (lo, hi, a[0])
    if op in ('re.all', 're.allchar', 're.none'):
        return op
    if op.startswith('set.'):
        return _set_smt(t, a, dialect)
    return '(%s %s)' % (op, ' '.join(a))


def _set_smt(t, a, dialect):
    op = t.op
    if op == 'set.filter':
        n, srt = t.data
        if dialect == 'cvc5':
            return '(set.filter (lambda ((%s %s)) %s) %s)' % (qname(n), sort_smt(srt, dialect), a[1], a[0])
        return '(lambda ((%s %s)) (and (select %s %s) %s))' % (qname(n), sort_smt(srt, dialect), a[0],
                                                              qname(n), a[1])
    if op == 'set.card' and dialect == 'z3':
        return '(|card!%s| %s)' % (sort_smt(t.args[0].sort, dialect), a[0])
    if dialect == 'cvc5':
        if op == 'set.empty':
            return '(as set.empty %s)' % sort_smt(t.sort, dialect)
        if op == 'set.insert':
            return '(set.insert %s)' % ' '.join(a)
        return '(%s %s)' % (op, ' '.join(a))
    # z3: sets are (Array E Bool)
    if op == 'set.empty':
        return '((as const %s) false)' % sort_smt(t.sort, dialect)
    if op == 'set.singleton':
        return '(store ((as const %s) false) %s true)' % (
            sort_smt(t.sort, dialect), a[0])
    if op == 'set.member':
        return '(select %s %s)' % (a[1], a[0])
    if op == 'set.union':
        return '((_ map or) %s %s)' % (a[0], a[1])
    if op == 'set.inter':
        return '((_ map and) %s %s)' % (a[0], a[1])
    if op == 'set.minus':
        return '((_ map and) %s ((_ map not) %s))' % (a[0], a[1])
    if op == 'set.subset':
        return '(= ((_ map =>) %s %s) ((as const %s) true))' % (
            a[0], a[1], sort_smt(t.args[0].sort, dialect))
    raise Unsupported('z3 dialect: ' + op)


def _free_bound(t, bound_names):
    """does t mention any of the given bound variable names freely?"""
    stack = [t]
    while stack:
        x = stack.pop()
        if x.op == 'var' and x.data in bound_names:
            return True
        stack.extend(x.args)
    return False


def lower_filters(terms):
    """Replace closed set-builder terms {x in S | P(x)} by fresh set constants defined by a
    universally quantified membership axiom (friendlier to the solvers than lambdas)."""
    table = {}
    axioms = []

    def rec(t, bound):
        if not t.args:
            return t
        if t.op in ('forall', 'exists'):
            b2 = bound | {n for n, _ in t.data}
            return T(t.op, (rec(t.args[0], b2),), t.sort, t.data)
        if t.op == 'set.filter':
            n, srt = t.data
            base = rec(t.args[0], bound)
            body = rec(t.args[1], bound | {n})
            new = T('set.filter', (base, body), t.sort, t.data)
            if bound and (_free_bound(base, bound) or _free_bound(body, bound - {n})):
                return new          # depends on an enclosing binder: keep as a set-builder term
            k = new.key()
            if k not in table:
                v = Var('flt!%d' % len(table), t.sort)
                table[k] = v
                x = Var(n, srt)
                axioms.append(ForAll([x], Eq(T('set.member', (x, v), BOOL),
                                             And(T('set.member', (x, base), BOOL), body))))
            return table[k]
        new_args = [rec(a, bound) for a in t.args]
        if all(a is b for a, b in zip(new_args, t.args)):
            return t
        return T(t.op, new_args, t.sort, t.data)
    out = [rec(t, frozenset()) for t in terms]
    return out, axioms


SEQ_OTHER_OPS = {'seq.++', 'seq.unit', 'seq.empty', 'seq.extract', 'seq.contains', 'seq.at'}


def abstract_seqs(terms):
    """Sound abstraction for refutation only: sequences become an uninterpreted sort with
    nth/len functions (len >= 0).  Returns None when other sequence operations occur."""
    if any(uses_op(t, SEQ_OTHER_OPS - {'seq.extract'}) for t in terms):
        return None

    def asort(srt):
        if srt.startswith('(Seq '):
            _, (e,) = sort_args(srt)
            return 'USeq<%s>' % asort(e)
        if srt.startswith('('):
            head, parts = sort_args(srt)
            return '(%s %s)' % (head, ' '.join(asort(p) for p in parts))
        return srt
    lens = {}
    extracts = {}

    class _Bail(Exception):
        pass

    def rec(t, inq=False):
        args = [rec(a, inq or t.op in ('forall', 'exists', 'set.filter')) for a in t.args]
        srt = asort(t.sort)
        if t.op == 'seq.extract':
            # closed slices only: an uninterpreted constant-like term with its exact len/nth axioms
            if inq:
                raise _Bail()
            e = T('app', args, srt, 'extract<%s>' % srt)
            extracts[repr(e)] = (e, args)
            return e
        if t.op == 'seq.nth':
            return T('app', args, srt, 'nth<%s>' % args[0].sort)
        if t.op == 'seq.len':
            r = T('app', args, INT, 'len<%s>' % args[0].sort)
            return r
        if t.op in ('forall', 'exists'):
            return T(t.op, args, srt, tuple((n, asort(s_)) for n, s_ in t.data))
        if t.op == 'set.filter':
            return T(t.op, args, srt, (t.data[0], asort(t.data[1])))
        return T(t.op, args, srt, t.data)
    try:
        out = [rec(t) for t in terms]
    except _Bail:
        return None
    for e, (s0, a, n) in extracts.values():
        ln = lambda x: T('app', (x,), INT, 'len<%s>' % x.sort)  # noqa: E731
        esort = None
        for t in [e.sort]:
            esort = t[len('USeq<'):-1]
        k = fresh_bound('k', INT)
        avail = Sub(ln(s0), a)
        out.append(Eq(ln(e), Ite(And(Le(IntC(0), a), Le(a, ln(s0)), Gt(n, IntC(0))),
                                 Ite(Le(n, avail), n, avail), IntC(0))))
        out.append(ForAll([k], Implies(And(Le(IntC(0), k), Lt(k, ln(e))),
                                       Eq(T('app', (e, k), esort, 'nth<%s>' % e.sort),
                                          T('app', (s0, Add(a, k)), esort, 'nth<%s>' % s0.sort)))))
    # len >= 0 for every abstract sequence sort in use
    sorts = set()
    for t in out:
        stack = [t]
        while stack:
            x = stack.pop()
            if x.op == 'app' and isinstance(x.data, str) and x.data.startswith('len<'):
                sorts.add(x.args[0].sort)
            stack.extend(x.args)
    axioms = []
    for srt in sorted(sorts):
        v = Var('useq_s', srt)
        axioms.append(ForAll([v], Ge(T('app', (v,), INT, 'len<%s>' % srt), IntC(0))))
    return axioms + out


def script(assertions, dialect='cvc5', outputs=None, logic=None, produce_models=False, useq=False, interp=None):
    if useq:
        a2 = abstract_seqs(list(assertions))
        if a2 is None:
            raise Unsupported('sequence abstraction not applicable')
        assertions = a2
        outputs = None
    if any(uses_op(t, {'set.filter'}) for t in list(assertions) + list((outputs or {}).values())):
        names = list((outputs or {}).keys())
        lowered, axioms = lower_filters(list(assertions) + [outputs[n] for n in names])
        assertions = axioms + lowered[:len(lowered) - len(names)]
        if names:
            outputs = dict(zip(names, lowered[len(lowered) - len(names):]))
    """Render a list of Bool terms as a complete SMT-LIB script (check-sat at
    the end).  outputs: dict name->term, added as (define-const) style equalities
    so a model can be read back by name."""
    decls, sorts = {}, set()
    allterms = list(assertions) + list((outputs or {}).values())
    for t in allterms:
        collect(t, decls, sorts)
    lines = []
    if dialect == 'cvc5':
        lines.append('(set-logic HO_ALL)' if any(uses_op(t, {'set.filter'}) for t in allterms)
                     else '(set-logic ALL)')
    if produce_models:
        lines.append('(set-option :produce-models true)')
    isorts = (interp or {}).get('sorts', {})
    ifuns = (interp or {}).get('funs', {})
    for s in sorted(sorts, key=lambda x: (len(x), x)):
        if s in isorts:
            # a concrete instance of an abstract sort (refutation only)
            lines.append('(define-sort %s () %s)' % (s, isorts[s]))
            continue
        lines.append('(declare-sort %s 0)' % (qname(s) if s.startswith('USeq<') else s))
    for (kind, name), (argsorts, rs) in sorted(decls.items()):
        if name in ifuns:
            lines.append(ifuns[name])
            continue
        lines.append('(declare-fun %s (%s) %s)' % (
            qname(name), ' '.join(sort_smt(s, dialect) for s in argsorts),
            sort_smt(rs, dialect)))
    if dialect == 'z3':
        # cardinality: uninterpreted, with sound (incomplete) axioms per occurrence;
        # a `sat` answer obtained with these is not trusted by the portfolio
        cards = {}
        for t in allterms:
            _find_cards(t, cards)
        seen_sorts = set()
        for key, st in cards.items():
            ss = sort_smt(st.sort, 'z3')
            es = sort_smt(sort_args(st.sort)[1][0], 'z3')
            if ss not in seen_sorts:
                seen_sorts.add(ss)
                lines.append('(declare-fun |card!%s| (%s) Int)' % (ss, ss))
                lines.append('(declare-fun |wit!%s| (%s) %s)' % (ss, ss, es))
            c = '(|card!%s| %s)' % (ss, to_smt(st, 'z3'))
            w = '(|wit!%s| %s)' % (ss, to_smt(st, 'z3'))
            S = to_smt(st, 'z3')
            empty = '((as const %s) false)' % ss
            lines.append('(assert (>= %s 0))' % c)
            lines.append('(assert (= (= %s 0) (= %s %s)))' % (c, S, empty))
            lines.append('(assert (= (= %s 1) (= %s (store %s %s true))))' % (c, S, empty, w))
            lines.append('(assert (=> (>= %s 1) (select %s %s)))' % (c, S, w))
    for t in assertions:
        lines.append('(assert %s)' % to_smt(t, dialect))
    for name, t in (outputs or {}).items():
        lines.append('(declare-fun %s () %s)' % (qname(name), sort_smt(t.sort, dialect)))
        lines.append('(assert (= %s %s))' % (qname(name), to_smt(t, dialect)))
    lines.append('(check-sat)')
    return '\n'.join(lines) + '\n'
