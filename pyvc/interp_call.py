"""Attribute access, item access and calls."""
from __future__ import annotations

import ast
import builtins as _bi
import inspect
import types

from . import smt
from .smt import INT, BOOL, STR, REF
from .values import *  # noqa
from .interp import (TargetExc, ReturnEx, BreakEx, ContinueEx, PathEnd, NeedFork,
                     Frame, Cell, function_node)


class Outcome:
    """What a call did: given to `ensures` as `out`."""

    def __init__(self, value=None, exc=None):
        self.value = value
        self.exc = exc

    @property
    def returned(self):
        return self.exc is None

    def raised(self, *classes):
        return self.exc is not None and isinstance(self.exc.cls, type) and \
            issubclass(self.exc.cls, classes)


class CallMixin:
    # ---------------------------------------------------------------- attributes
    def get_attr(self, v, name):
        if isinstance(v, Obj):
            return self.obj_attr(v, name)
        if isinstance(v, SRef):
            sch = self.env.classes[v.cls]
            side = self.ghost.get('@refattrs', {}).get((v.t.key(), name), _MISSING)
            if side is not _MISSING:
                return side
            hk = self.env.ref_attr_hooks.get((v.cls, name))
            if hk is not None:
                return hk(self, v)
            rm = self.env.ref_methods.get((v.cls, name))
            if rm is not None:
                return BoundMeth(v, rm)
            if name in sch.get('fields', {}):
                ty = parse_type(sch['fields'][name])
                if ty[0] == 'opt':
                    nn = smt.App('%s.%s?none' % (v.cls, name), [v.t], BOOL)
                    inner = self.value_of_sort(
                        smt.App('%s.%s' % (v.cls, name), [v.t], type_sort(ty[1], self.env.classes)), ty[1])
                    return SOpt(nn, inner)
                t = smt.App('%s.%s' % (v.cls, name), [v.t], type_sort(ty, self.env.classes))
                return self.value_of_sort(t, ty)
            m = self.env.model_for(v.cls, name)
            if m is not None:
                return BoundMeth(v, m)
            raise Unsupported('attribute %s of symbolic %s is not declared' % (name, v.cls))
        if isinstance(v, Outcome):
            if name == 'raised':
                return ModelMethod(lambda I, *cls: v.raised(*cls), 'out.raised')
            return getattr(v, name)
        if isinstance(v, (SStr, str, MList, MSet, MDict, SSetV, SSeqV, SMapV, tuple)) and \
                not (isinstance(v, tuple) and hasattr(v, '_fields')):
            return SymMethod(v, name)
        if isinstance(v, tuple) and hasattr(v, '_fields'):   # namedtuple
            return getattr(v, name)
        if isinstance(v, SOpt):
            # attribute of an optional: None has no attributes -> AttributeError
            if self.choose(v.isnone):
                raise TargetExc(self.make_exception(AttributeError,
                                                    ["'NoneType' object has no attribute '%s'" % name], {}))
            return self.get_attr(v.val, name)
        if v is None:
            raise TargetExc(self.make_exception(AttributeError,
                                                ["'NoneType' object has no attribute '%s'" % name], {}))
        if isinstance(v, (types.ModuleType, type)):
            try:
                r = inspect.getattr_static(v, name)
            except AttributeError:
                if isinstance(v, type) and hasattr(v, name):
                    return getattr(v, name)
                raise TargetExc(self.make_exception(AttributeError, [name], {}))
            if isinstance(r, classmethod) and isinstance(r.__func__, types.FunctionType):
                return BoundMeth(v, r.__func__)
            if isinstance(r, staticmethod) and isinstance(r.__func__, types.FunctionType):
                return r.__func__
            if isinstance(v, types.ModuleType) or not isinstance(r, (types.FunctionType, property)):
                val = getattr(v, name)
                if self.env.object_models:
                    sch = self.env.object_models.get(id(val))
                    if sch is not None:
                        return self.global_object(sch)
                return val
            return r
        if isinstance(v, GhostProxy):
            g = self.ghost[name]
            return SArr(g) if isinstance(g, smt.T) else g
        if isinstance(v, types.SimpleNamespace):
            return getattr(v, name)
        if isinstance(v, Closure) and name == '__name__':
            return v.name
        if isinstance(v, types.FunctionType) and name in ('__name__', '__doc__'):
            return getattr(v, name)
        raise Unsupported('attribute %s of %r' % (name, v))

    def obj_attr(self, o, name):
        fields = self.heap[o.oid]
        if name in fields:
            return fields[name]
        if name == '__class__' and isinstance(o.cls, type):
            return o.cls
        sch = self.env.classes.get(o.schema) if o.schema else None
        if sch is not None:
            ftypes = sch.get('fields', {})
            if name in ftypes:
                base = '%s.%s' % (fields.get('__name__', 'obj%d' % o.oid), name)
                val = self.fresh(base, ftypes[name])
                fields[name] = val
                return val
            am = self.env.attr_models.get((o.schema, name))
            if am is not None:
                return am.fn(self, o)
            m = self.env.model_for(o.schema, name)
            if m is not None:
                return BoundMeth(o, m)
        cls = o.cls
        if isinstance(cls, type):
            try:
                r = inspect.getattr_static(cls, name)
            except AttributeError:
                r = _MISSING
            if r is not _MISSING:
                if isinstance(r, property):
                    return self.call(r.fget, [o], {})
                if isinstance(r, types.FunctionType):
                    return BoundMeth(o, r)
                if isinstance(r, staticmethod):
                    return r.__func__
                if isinstance(r, classmethod):
                    return BoundMeth(cls, r.__func__)
                return r
            if sch is None or sch.get('closed'):
                raise TargetExc(self.make_exception(
                    AttributeError, ["'%s' object has no attribute '%s'" % (cls.__name__, name)], {}))
        raise Unsupported('attribute %s of %r is not declared in the schema' % (name, o))

    def set_attr(self, v, name, val):
        if isinstance(v, SRef):
            # attributes set on a record seen through a reference: kept in a side table
            # (only meaningful for references with a syntactically unique term)
            d = dict(self.ghost.get('@refattrs', {}))
            d[(v.t.key(), name)] = val
            self.ghost['@refattrs'] = d
            return
        if isinstance(v, Obj):
            self.heap[v.oid] = dict(self.heap[v.oid])
            self.heap[v.oid][name] = val
            return
        raise Unsupported('attribute assignment on %r' % (v,))

    # ---------------------------------------------------------------- items
    def get_item(self, base, idx):
        if isinstance(base, MList):
            base = self.heap[base.oid]
        if isinstance(base, MDict):
            base = self.heap[base.oid]
        if isinstance(base, (tuple, list)):
            if isinstance(idx, SInt):
                raise Unsupported('symbolic index into concrete tuple')
            try:
                return base[idx]
            except IndexError:
                raise TargetExc(self.make_exception(IndexError, ['index out of range'], {}))
        if isinstance(base, dict):
            if isinstance(idx, SV):
                # symbolic key into a concrete dict: ite chain; KeyError when no key matches
                keys = list(base.keys())
                hit = smt.Or(*[self.eq(idx, k) for k in keys])
                self.require_safe(hit, lambda: self.make_exception(KeyError, [idx], {}), 'KeyError')
                res = None
                for k in reversed(keys):
                    res = base[k] if res is None else self.ite_val(self.eq(idx, k), base[k], res)
                return res
            if idx not in base:
                raise TargetExc(self.make_exception(KeyError, [idx], {}))
            return base[idx]
        if isinstance(base, SSeqV):
            n = smt.SeqLen(base.t)
            idx = self.force_some(idx)
            it = self.int_term(idx)
            if isinstance(idx, int) and idx < 0:
                ok = smt.Ge(n, smt.IntC(-idx))
                pos = smt.Add(n, smt.IntC(idx))
            else:
                # symbolic indices: only the non-negative range is modelled (a negative
                # symbolic index fails the safety obligation instead of wrapping around)
                ok = smt.And(smt.Le(smt.IntC(0), it), smt.Lt(it, n))
                pos = it
            self.require_safe(ok, lambda: self.make_exception(IndexError, ['index out of range'], {}),
                              'IndexError')
            src = self.ghost.get('@list_of_set', {}).get(base.t.key())
            if src is not None and not self.qctx:
                self.assume(smt.SetMember(smt.SeqNth(base.t, pos), src))
            return self.value_of_sort(smt.SeqNth(base.t, pos), base.ety)
        if isinstance(base, SMapV):
            kt = self.term_of(idx)
            self.require_safe(smt.SetMember(kt, base.dom),
                              lambda: self.make_exception(KeyError, [idx], {}), 'KeyError')
            return self.value_of_sort(smt.Select(base.arr, kt), base.vty)
        if isinstance(base, Obj):
            m = self.get_attr(base, '__getitem__')
            return self.call(m, [idx], {})
        if isinstance(base, (str, SStr)):
            if isinstance(base, str) and isinstance(idx, int):
                return base[idx]
            return SStr(smt.StrAt(self.term_of(base), self.int_term(idx)))
        if isinstance(base, SArr):
            _, (ks, vs) = smt.sort_args(base.t.sort)
            r = smt.Select(base.t, self.term_of(idx))
            if vs == BOOL:
                return self.as_bool_value(r)
            if vs == STR:
                return SStr(r)
            if vs == INT:
                return SInt(r)
            return SArr(r)
        if isinstance(base, SRef) and isinstance(idx, type):
            fld = self.env.classes[base.cls].get('items', {}).get(idx)
            if fld is not None:
                return self.get_attr(base, fld)
        if isinstance(base, SRef):
            # mapping-style record access: run['conclusion']
            if isinstance(idx, str):
                return self.get_attr(base, idx)
        raise Unsupported('subscript of %r' % (base,))

    def set_item(self, base, idx, val):
        if isinstance(base, MDict):
            p = self.heap[base.oid]
            if isinstance(p, dict):
                if isinstance(idx, SV):
                    raise Unsupported('symbolic key stored into concrete dict')
                p = dict(p)
                p[idx] = val
                self.heap[base.oid] = p
                return
            kt = self.term_of(idx)
            self.heap[base.oid] = SMapV(smt.SetUnion(p.dom, smt.SetSingleton(kt)),
                                        smt.Store(p.arr, kt, self.term_of(val)), p.kty, p.vty)
            return
        if isinstance(base, MList):
            p = self.heap[base.oid]
            if isinstance(p, tuple) and isinstance(idx, int):
                lst = list(p)
                lst[idx] = val
                self.heap[base.oid] = tuple(lst)
                return
        if isinstance(base, Obj):
            m = self.get_attr(base, '__setitem__')
            self.call(m, [idx, val], {})
            return
        raise Unsupported('item assignment on %r' % (base,))

    def del_item(self, base, idx):
        if isinstance(base, MDict):
            p = self.heap[base.oid]
            if isinstance(p, dict) and not isinstance(idx, SV):
                if idx not in p:
                    raise TargetExc(self.make_exception(KeyError, [idx], {}))
                p = dict(p)
                del p[idx]
                self.heap[base.oid] = p
                return
        raise Unsupported('del item on %r' % (base,))

    def get_slice(self, base, lo, hi):
        if isinstance(base, MList):
            p = self.heap[base.oid]
            if isinstance(p, tuple) and not isinstance(lo, SV) and not isinstance(hi, SV):
                return self.alloc_list(p[lo:hi])
            sv = self.seq_value(base)
            return self.alloc_list(self._seq_slice(sv, lo, hi))
        if isinstance(base, tuple) and not isinstance(lo, SV) and not isinstance(hi, SV):
            return base[lo:hi]
        if isinstance(base, str) and not isinstance(lo, SV) and not isinstance(hi, SV):
            return base[lo:hi]
        if isinstance(base, (str, SStr)):
            st = self.term_of(base)
            n = smt.StrLen(st)
            lo_t = self._norm_index(lo, n, smt.IntC(0))
            hi_t = self._norm_index(hi, n, n)
            return SStr(smt.StrSubstr(st, lo_t, smt.Sub(hi_t, lo_t)))
        if isinstance(base, SSeqV):
            return self._seq_slice(base, lo, hi)
        raise Unsupported('slice of %r' % (base,))

    def _norm_index(self, v, n, default):
        if v is None:
            return default
        if isinstance(v, int) and v < 0:
            return smt.Ite(smt.Ge(n, smt.IntC(-v)), smt.Add(n, smt.IntC(v)), smt.IntC(0))
        t = self.int_term(v)
        if isinstance(v, int):
            return smt.Ite(smt.Le(t, n), t, n)
        return smt.Ite(smt.Lt(t, smt.IntC(0)),
                       smt.Ite(smt.Ge(smt.Add(n, t), smt.IntC(0)), smt.Add(n, t), smt.IntC(0)),
                       smt.Ite(smt.Le(t, n), t, n))

    def _seq_slice(self, sv, lo, hi):
        if lo is None and hi == -1 and sv.t.op == 'seq.++' and sv.t.args[-1].op == 'seq.unit':
            rest = sv.t.args[:-1]
            return SSeqV(rest[0] if len(rest) == 1 else smt.SeqConcat(*rest), sv.ety)
        n = smt.SeqLen(sv.t)
        lo_t = self._norm_index(lo, n, smt.IntC(0))
        hi_t = self._norm_index(hi, n, n)
        ln = smt.Ite(smt.Ge(hi_t, lo_t), smt.Sub(hi_t, lo_t), smt.IntC(0))
        if self.qctx:
            return SSeqV(smt.SeqExtract(sv.t, lo_t, ln), sv.ety)
        # pointwise definition (friendlier to quantifier instantiation than seq.extract)
        w = self.fresh_term('slice', sv.t.sort, False)
        i = smt.fresh_bound('i', INT)
        self.assume(smt.Eq(smt.SeqLen(w), ln))
        self.assume(smt.ForAll([i], smt.Implies(
            smt.And(smt.Le(smt.IntC(0), i), smt.Lt(i, ln)),
            smt.Eq(smt.SeqNth(w, i), smt.SeqNth(sv.t, smt.Add(lo_t, i))))))
        return SSeqV(w, sv.ety)

    # ---------------------------------------------------------------- strings
    def to_str(self, v):
        if isinstance(v, (str, SStr)):
            return v
        if isinstance(v, bool) or v is None:
            return str(v)
        if isinstance(v, int):
            return str(v)
        if isinstance(v, SInt):
            return SStr(smt.Ite(smt.Ge(v.t, smt.IntC(0)), smt.StrFromInt(v.t),
                                smt.StrConcat(smt.StrC('-'), smt.StrFromInt(smt.Neg(v.t)))))
        if isinstance(v, Obj):
            if v.schema:
                mm = self.env.model_for(v.schema, '__str__')
                if mm is not None:
                    return self.call(BoundMeth(v, mm), [], {})
            m = self.lookup_class_attr(v, '__str__')
            if m is not None:
                return self.call(m, [], {})
            if isinstance(v.cls, type) and issubclass(v.cls, BaseException):
                h = self.env.exc_str
                if h is not None:
                    return h(self, v)
            raise Unsupported('str() of %r' % v)
        if isinstance(v, SOpt):
            if self.choose(v.isnone):
                return 'None'
            return self.to_str(v.val)
        if isinstance(v, (MDict, MList)) or (isinstance(v, tuple) and not hasattr(v, '_fields')):
            return SStr(self.fresh_term('str(container)', smt.STR, False), self.taint_of(v))
        if isinstance(v, SRef):
            m = self.env.model_for(v.cls, '__str__')
            if m is not None:
                return self.call(BoundMeth(v, m), [], {})
        raise Unsupported('str() of %r' % (v,))

    def str_concat(self, parts):
        ts = [self.term_of(self.to_str(p)) for p in parts]
        t = smt.StrConcat(*ts)
        taint = None
        for p in parts:
            if isinstance(p, SStr) and p.taint is not None:
                taint = p.taint if taint is None else smt.Or(taint, p.taint)
        if t.op == 'const' and taint is None:
            return t.data
        return SStr(t, taint)

    def str_format(self, fmt, args, kwargs):
        """'..{}..{name}..{0}'.format(...) with plain fields only."""
        import string
        if not isinstance(fmt, str):
            raise Unsupported('format on symbolic template')
        parts, auto = [], 0
        for lit, field, spec, conv in string.Formatter().parse(fmt):
            if lit:
                parts.append(lit)
            if field is None:
                continue
            if spec or conv:
                raise Unsupported('format spec %r' % fmt)
            if field == '':
                parts.append(args[auto])
                auto += 1
            elif field.isdigit():
                parts.append(args[int(field)])
            elif field.isidentifier():
                parts.append(kwargs[field])
            else:
                raise Unsupported('format field %r' % field)
        return self.str_concat(parts)

    def str_percent(self, fmt, arg):
        if not isinstance(fmt, str):
            # symbolic template: only the information flow is kept
            args_ = list(arg) if isinstance(arg, tuple) else [arg]
            return SStr(self.fresh_term('formatted', smt.STR, False),
                        smt.Or(self.taint_of(fmt), *[self.taint_of(a) for a in args_]))
        args = list(arg) if isinstance(arg, tuple) else [arg]
        parts, i, k = [], 0, 0
        while i < len(fmt):
            ch = fmt[i]
            if ch != '%':
                j = fmt.find('%', i)
                j = len(fmt) if j < 0 else j
                parts.append(fmt[i:j])
                i = j
                continue
            code = fmt[i + 1] if i + 1 < len(fmt) else ''
            if code == '%':
                parts.append('%')
            elif code in 'sdr':
                if k >= len(args):
                    raise TargetExc(self.make_exception(TypeError, ['not enough arguments'], {}))
                a = args[k]
                k += 1
                if code == 'r':
                    if isinstance(a, (str, SStr)):
                        parts.extend(["'", a, "'"])   # repr of a quote-free string
                    else:
                        parts.append(self.to_str(a))
                else:
                    parts.append(a)
            else:
                raise Unsupported('%%-format code %r' % code)
            i += 2
        return self.str_concat(parts)

    # ---------------------------------------------------------------- exceptions
    def make_exception(self, cls, args, kwargs):
        o = self.alloc_obj(cls, None)
        f = self.heap[o.oid]
        f['args'] = tuple(args)
        f['kwargs'] = self.alloc_dict(dict(kwargs))
        for k, v in kwargs.items():
            f.setdefault(k, v)
        return o

    # ---------------------------------------------------------------- closures
    def make_closure(self, node, fr):
        args = node.args
        defaults = [self.eval(d, fr) for d in args.defaults]
        kwdefaults = {a.arg: self.eval(d, fr) for a, d in zip(args.kwonlyargs, args.kw_defaults)
                      if d is not None}
        name = getattr(node, 'name', '<lambda>')
        return Closure(node, fr, name, defaults, kwdefaults,
                       '%s.<locals>.%s' % (fr.qualname, name), None)

    def bind_args(self, argspec, defaults, kwdefaults, args, kwargs, fname):
        loc = {}
        params = [a.arg for a in argspec.posonlyargs + argspec.args]
        args = list(args)
        kwargs = dict(kwargs)
        for i, p in enumerate(params):
            if i < len(args):
                loc[p] = args[i]
            elif p in kwargs:
                loc[p] = kwargs.pop(p)
            else:
                di = i - (len(params) - len(defaults))
                if di < 0:
                    raise TargetExc(self.make_exception(
                        TypeError, ['%s() missing required argument %r' % (fname, p)], {}))
                loc[p] = defaults[di]
        extra = args[len(params):]
        if argspec.vararg is not None:
            loc[argspec.vararg.arg] = tuple(extra)
        elif extra:
            raise TargetExc(self.make_exception(
                TypeError, ['%s() takes %d positional arguments but %d were given'
                            % (fname, len(params), len(args))], {}))
        for a in argspec.kwonlyargs:
            if a.arg in kwargs:
                loc[a.arg] = kwargs.pop(a.arg)
            elif a.arg in kwdefaults:
                loc[a.arg] = kwdefaults[a.arg]
            else:
                raise TargetExc(self.make_exception(TypeError, ['missing kwonly %s' % a.arg], {}))
        if argspec.kwarg is not None:
            loc[argspec.kwarg.arg] = self.alloc_dict(kwargs)
        elif kwargs:
            raise TargetExc(self.make_exception(
                TypeError, ['%s() got an unexpected keyword argument %r'
                            % (fname, sorted(kwargs)[0])], {}))
        return loc

    def run_body(self, node, fr):
        if isinstance(node, ast.Lambda):
            return self.eval(node.body, fr)
        is_gen = any(isinstance(n, (ast.Yield, ast.YieldFrom)) for n in _walk_no_nested(node))
        if is_gen:
            fr.locals['@yields'] = []
        self.call_depth += 1
        if self.call_depth > 40:
            raise Unsupported('call depth')
        try:
            self.exec_block(node.body, fr)
            r = None
        except ReturnEx as e:
            r = e.value
        finally:
            self.call_depth -= 1
        if is_gen:
            return self.alloc_list(tuple(fr.locals['@yields']))
        return r

    def ex_Yield(self, node, fr):
        v = self.eval(node.value, fr) if node.value else None
        ys = self.env.yield_specs.get(fr.qualname)
        in_loop = '_i' in fr.locals and fr.locals.get('@in_sym_loop')
        if ys is not None:
            # generator under contract: every yielded element satisfies the element contract
            ns = dict(fr.locals)
            ns['elem'] = v
            ns['index'] = SInt(smt.Add(smt.IntC(len(fr.locals['@yields'])), fr.locals['_i'].t)) if in_loop \
                else len(fr.locals['@yields'])
            t = self.truth(self.call_spec(ys, ns, fr))
            self.oblige('yield/%s@%d' % (fr.qualname, node.lineno), 'site', t, 'yield')
        if 'yields' in self.ghost:
            # summary ghost: number of elements yielded so far (survives loop cuts through invariants)
            self.ghost['yields'] = SInt(smt.Add(self.term_of(self.ghost['yields']), smt.IntC(1)))
        if in_loop:
            if ys is None:
                raise Unsupported('yield inside a symbolic loop of %s without an element contract' % fr.qualname)
            return None
        fr.locals['@yields'].append(v)
        return None

    def call_closure(self, c, args, kwargs):
        loc = self.bind_args(c.node.args, c.defaults, c.kwdefaults, args, kwargs, c.name)
        fr = Frame(loc, c.frame.globals, c.frame, c.node, c.qualname)
        return self.run_body(c.node, fr)

    def interpret_function(self, fn, args, kwargs):
        """Interpret a real python function from its source."""
        node = function_node(fn)
        sig_defaults = list(fn.__defaults__ or ())
        kwd = dict(fn.__kwdefaults__ or {})
        loc = self.bind_args(node.args, sig_defaults, kwd, args, kwargs, fn.__name__)
        if fn.__closure__:
            for name, cell in zip(fn.__code__.co_freevars, fn.__closure__):
                try:
                    loc.setdefault(name, Cell(cell.cell_contents))
                except ValueError:
                    pass
        qn = '%s:%s' % (fn.__module__, fn.__qualname__)
        fr = Frame(loc, fn.__globals__, None, node, qn, fn)
        self.env.touched.setdefault(qn, (fn.__code__.co_filename, node.lineno))
        is_target = fn is self.env.current_target
        if is_target:
            self.target_depth += 1
        try:
            return self.run_body(node, fr)
        finally:
            if is_target:
                self.target_depth -= 1

    def call_spec(self, fn, ns, fr):
        """Call a spec function with parameters taken by name from ns."""
        node = function_node(fn)
        names = [a.arg for a in node.args.args]
        defaults = list(fn.__defaults__ or ())
        first_default = len(names) - len(defaults)
        args = []
        for k, n in enumerate(names):
            if n == 'G':
                args.append(self.ghost_ns())
            elif n in ns:
                args.append(ns[n])
            elif k >= first_default:
                # a spec may name a local of the code that a later version of the code no longer has
                args.append(defaults[k - first_default])
            else:
                raise Unsupported('spec %s wants %r which is not bound here' % (fn.__name__, n))
        return self.interpret_function(fn, args, {})

    def ghost_ns(self):
        return GhostProxy(self)

    # ---------------------------------------------------------------- calls
    def call(self, f, args, kwargs):
        env = self.env
        if isinstance(f, Closure):
            return self.call_closure(f, args, kwargs)
        if isinstance(f, BoundMeth):
            return self.call(f.func, [f.selfv] + list(args), kwargs)
        if isinstance(f, ModelMethod):
            return f.fn(self, *args, **kwargs)
        if isinstance(f, SymMethod):
            from . import builtins_sym
            return builtins_sym.call_method(self, f.selfv, f.name, args, kwargs)
        if isinstance(f, types.FunctionType):
            intr = env.intrinsic_of(f)
            if intr is not None:
                return intr(self, *args, **kwargs)
            c = env.contracts.get(f)
            if c is not None and (f is not env.current_target or self.target_depth > 0):
                return self.call_contract(c, f, args, kwargs)
            m = env.fn_models.get(f)
            if m is not None:
                return m(self, *args, **kwargs)
            if env.may_inline(f):
                return self.interpret_function(f, args, kwargs)
            raise Unsupported('call to %s.%s: no contract, model or inline permission'
                              % (f.__module__, f.__qualname__))
        if isinstance(f, types.MethodType):
            return self.call(f.__func__, [f.__self__] + list(args), kwargs)
        if isinstance(f, type):
            return self.construct(f, args, kwargs)
        if isinstance(f, (types.BuiltinFunctionType, types.BuiltinMethodType)) or f in _CALLABLE_BUILTINS:
            from . import builtins_sym
            return builtins_sym.call_builtin(self, f, args, kwargs)
        if callable(f) and not isinstance(f, (Obj, SV)):
            from . import builtins_sym
            return builtins_sym.call_builtin(self, f, args, kwargs)
        if isinstance(f, Obj):
            m = self.lookup_class_attr(f, '__call__')
            if m is not None:
                return self.call(m, args, kwargs)
        raise Unsupported('call of %r' % (f,))

    def construct(self, cls, args, kwargs):
        env = self.env
        if issubclass(cls, BaseException):
            return self.make_exception(cls, args, kwargs)
        ctor = env.ctors.get(cls)
        if ctor is not None:
            return ctor(self, cls, *args, **kwargs)
        from . import builtins_sym
        if cls in builtins_sym.TYPE_CALLS:
            return builtins_sym.TYPE_CALLS[cls](self, *args, **kwargs)
        if env.may_construct(cls):
            o = self.alloc_obj(cls, env.schema_of_class(cls))
            init = None
            for k in cls.__mro__:
                if '__init__' in k.__dict__ and k is not object:
                    init = k.__dict__['__init__']
                    break
            if init is not None:
                self.call(init, [o] + list(args), kwargs)
            return o
        raise Unsupported('construction of %s.%s' % (cls.__module__, cls.__qualname__))

    # ---------------------------------------------------------------- contracts at call sites
    def call_contract(self, c, f, args, kwargs):
        """Modular call: assert pre, havoc frame, assume post."""
        node = function_node(f)
        loc = self.bind_args(node.args, list(f.__defaults__ or ()), dict(f.__kwdefaults__ or {}),
                             args, kwargs, f.__name__)
        site = getattr(getattr(self, 'cur_node', None), 'lineno', 0)
        qn = '%s:%s' % (f.__module__, f.__qualname__)
        if c.requires is not None:
            t = self.truth(self.call_spec(c.requires, loc, None))
            self.oblige('pre/%s@%d' % (qn, site), 'pre', t, 'call site line %d' % site)
            self.assume(t)
        if c.pure:
            names = [a.arg for a in node.args.args]
            argterms = [self.term_of(loc[n]) for n in names if not isinstance(loc[n], Obj)]
            rty = parse_type(c.returns)
            val = self.value_of_sort(smt.App('fn:' + qn, argterms, type_sort(rty, self.env.classes)), rty)
            ns = dict(loc)
            ns['out'] = Outcome(value=val)
            self.pure += 1
            try:
                for name, ens in c.ensures:
                    t = self.truth(self.call_spec(ens, ns, None))
                    for bound, rng in reversed(self.qctx):
                        t = smt.ForAll(bound, smt.Implies(rng, t))
                    self.assume(t)
            finally:
                self.pure -= 1
            return val
        saved_old = (self.old_heap, self.old_ghost)
        self.old_heap, self.old_ghost = dict(self.heap), dict(self.ghost)
        try:
            outcomes = c.outcomes or ['return']
            k = self.choose_n(len(outcomes), 'outcome of ' + qn)
            oc = outcomes[k]
            if c.effect is not None:
                c.effect(self, loc, oc)
            if oc == 'return':
                val = self.fresh('ret@%s@%d' % (f.__name__, site), c.returns, is_input=False) \
                    if c.returns else None
                if c.result is not None:
                    val = c.result(self, loc)
                out = Outcome(value=val)
            else:
                eo = self.make_exception(oc, [], {})
                for fname, fty in c.exc_fields.get(oc, {}).items():
                    self.heap[eo.oid][fname] = self.fresh('%s.%s@%d' % (oc.__name__, fname, site), fty,
                                                          is_input=False)
                out = Outcome(exc=eo)
            ns = dict(loc)
            ns['out'] = out
            for name, ens in c.ensures:
                self.assume(self.truth(self.call_spec(ens, ns, None)))
        finally:
            self.old_heap, self.old_ghost = saved_old
        if out.exc is not None:
            raise TargetExc(out.exc)
        return out.value


def _walk_no_nested(fn_node):
    stack = list(fn_node.body) if hasattr(fn_node, 'body') and isinstance(fn_node.body, list) else []
    while stack:
        n = stack.pop()
        yield n
        for ch in ast.iter_child_nodes(n):
            if isinstance(ch, (ast.FunctionDef, ast.Lambda, ast.AsyncFunctionDef)):
                continue
            stack.append(ch)


_MISSING = object()
_CALLABLE_BUILTINS = ()
