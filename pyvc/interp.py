"""Symbolic interpreter over the AST of real python functions.

Path exploration is by re-execution: one run of `Interp` follows one path; at
each symbolic decision the run consults its decision script, and the explorer
(pyvc.verify) re-runs the function for every alternative.  Target-level
control flow is mapped on python exceptions.
"""
from __future__ import annotations

import ast
import builtins as _bi
import inspect
import types

from . import smt
from .smt import T, INT, BOOL, STR, REF
from .values import *  # noqa
from . import values as V


class TargetExc(Exception):
    """An exception raised by the interpreted program."""

    def __init__(self, exc):
        super().__init__(repr(exc))
        self.exc = exc          # Obj of an exception class


class ReturnEx(Exception):
    def __init__(self, value):
        self.value = value


class BreakEx(Exception):
    pass


class ContinueEx(Exception):
    pass


class PathEnd(Exception):
    """The path is cut (end of a loop body under an invariant, infeasible)."""

    def __init__(self, why=''):
        super().__init__(why)
        self.why = why


class NeedFork(Exception):
    """Raised in pure mode when evaluation would need a decision."""


class Frame:
    __slots__ = ('locals', 'globals', 'parent', 'fn', 'qualname', 'fn_obj')

    def __init__(self, locals_, globals_, parent=None, fn=None, qualname='', fn_obj=None):
        self.locals = locals_
        self.globals = globals_
        self.parent = parent
        self.fn = fn
        self.qualname = qualname
        self.fn_obj = fn_obj if fn_obj is not None else (parent.fn_obj if parent is not None else None)


class Cell:
    """Holder for variables captured from real closures."""
    __slots__ = ('v',)

    def __init__(self, v): self.v = v


def _conjuncts(t):
    if t.op == 'and':
        out = []
        for a in t.args:
            out.extend(_conjuncts(a))
        return out
    if t.op == 'ite' and t.sort == smt.BOOL and (smt.is_false(t.args[2]) or t.args[2] == t.args[0]):
        # python `a and b` on booleans is ite(a, b, a)
        return _conjuncts(t.args[0]) + _conjuncts(t.args[1])
    return [t]


class Obligation:
    def __init__(self, name, kind, goal, pc, where, inputs):
        self.name = name
        self.kind = kind          # post / pre / inv-init / inv-step / assert / frame / lemma
        self.goal = goal
        self.pc = list(pc)
        self.where = where
        self.inputs = dict(inputs)
        self.path = None


_AST_CACHE = {}


def file_ast(filename):
    if filename not in _AST_CACHE:
        with open(filename) as f:
            src = f.read()
        tree = ast.parse(src, filename)
        idx = {}
        for node in ast.walk(tree):
            if isinstance(node, (ast.FunctionDef, ast.AsyncFunctionDef, ast.Lambda)):
                idx.setdefault((node.lineno, type(node).__name__), node)
                idx.setdefault((node.lineno, 'any'), node)
        _AST_CACHE[filename] = (tree, idx, src)
    return _AST_CACHE[filename]


def function_node(fn):
    """FunctionDef node of a real function object, from the file it came from."""
    code = fn.__code__
    tree, idx, _ = file_ast(code.co_filename)
    line = code.co_firstlineno
    # co_firstlineno points at the first decorator if any
    for node in ast.walk(tree):
        if isinstance(node, (ast.FunctionDef,)) and node.name == fn.__name__:
            first = min([d.lineno for d in node.decorator_list] + [node.lineno])
            if first == line or node.lineno == line:
                return node
    if fn.__name__ == '<lambda>':
        for node in ast.walk(tree):
            if isinstance(node, ast.Lambda) and node.lineno == line:
                return node
    raise Unsupported('cannot locate source of %r' % fn)


class Interp:
    def __init__(self, env, script=None, explorer=None, prune=True):
        self.env = env
        self.script = list(script or [])
        self.pos = 0
        self.explorer = explorer
        self.prune = prune
        self.pc = []                # list of Bool terms
        self.heap = {}
        self.next_oid = 1
        self.obligations = []
        self.inputs = {}            # name -> term of every input symbol created
        self.fresh_counts = {}
        self.pure = 0
        self.ghost = {}
        self.old_heap = None
        self.old_ghost = None
        self.notes = []
        self.call_depth = 0
        self.loop_ordinals = {}
        self.drops = []
        self.qctx = []
        self.collect_safe = None
        self.target_depth = 0
        self.seq_classes = {}
        self.extra_outputs = {}

    # ------------------------------------------------------------ symbols
    def fresh_name(self, base):
        n = self.fresh_counts.get(base, 0)
        self.fresh_counts[base] = n + 1
        return base if n == 0 else '%s#%d' % (base, n)

    def fresh_term(self, base, sort, is_input=True):
        name = self.fresh_name(base)
        t = smt.Var(name, sort)
        if is_input:
            self.inputs[name] = t
        return t

    def fresh(self, base, ty, is_input=True):
        """Fresh symbolic value of the given (parsed or string) type."""
        if isinstance(ty, str):
            ty = parse_type(ty)
        h = ty[0]
        classes = self.env.classes
        if h == 'int':
            return SInt(self.fresh_term(base, INT, is_input))
        if h == 'bool':
            return SBool(self.fresh_term(base, BOOL, is_input))
        if h == 'str':
            return SStr(self.fresh_term(base, STR, is_input))
        if h == 'none':
            return None
        if h in ('opaque', 'any'):
            return SOpaque(self.fresh_term(base, REF, False), base)
        if h == 'opt':
            return SOpt(self.fresh_term(base + '?none', BOOL, is_input),
                        self.fresh(base, ty[1], is_input))
        if h.startswith('exc:'):
            cls = self.env.exc_types[h[4:]]
            return self.make_exception(cls, [], {})
        if h == 'set':
            t = self.fresh_term(base, smt.SetS(type_sort(ty[1], classes)), is_input)
            return self.alloc_set(SSetV(t, ty[1]))
        if h == 'fset':
            return SSetV(self.fresh_term(base, smt.SetS(type_sort(ty[1], classes)), is_input), ty[1])
        if h == 'seq':
            t = self.fresh_term(base, smt.SeqS(type_sort(ty[1], classes)), is_input)
            if ty[1][0] in classes:
                self.seq_classes[base] = ty[1][0]
            return self.alloc_list(SSeqV(t, ty[1]))
        if h == 'fseq':
            return SSeqV(self.fresh_term(base, smt.SeqS(type_sort(ty[1], classes)), is_input), ty[1])
        if h == 'map':
            ks, vs = type_sort(ty[1], classes), type_sort(ty[2], classes)
            dom = self.fresh_term(base + '.dom', smt.SetS(ks), is_input)
            arr = self.fresh_term(base + '.val', smt.ArrS(ks, vs), is_input)
            return SMapV(dom, arr, ty[1], ty[2])
        if h == 'tuple':
            return tuple(self.fresh('%s.%d' % (base, i), t, is_input)
                         for i, t in enumerate(ty[1:]))
        if h in classes:
            sch = classes[h]
            if sch.get('kind') == 'ref':
                return SRef(self.fresh_term(base, sch.get('sort', REF), False), h)
            o = self.alloc_obj(sch.get('pyclass'), h)
            self.heap[o.oid]['__name__'] = base
            return o
        raise Unsupported('fresh: unknown type %r' % (ty,))

    def value_of_sort(self, t, ty):
        """Wrap a term taken out of a collection with element type ty."""
        h = ty[0]
        if h == 'int':
            return SInt(t)
        if h == 'bool':
            return SBool(t)
        if h == 'str':
            return SStr(t)
        if h in ('opaque', 'any'):
            return SOpaque(t)
        if h == 'set':
            return SSetV(t, ty[1])
        if h == 'seq':
            return SSeqV(t, ty[1])
        if h in self.env.classes:
            return SRef(t, h)
        raise Unsupported('value_of_sort %r' % (ty,))

    def term_of(self, v, ty=None):
        """SMT term for a value to be stored in a collection / compared."""
        if isinstance(v, bool):
            return smt.BoolC(v)
        if isinstance(v, int):
            return smt.IntC(v)
        if isinstance(v, str):
            return smt.StrC(v)
        if isinstance(v, (SInt, SBool, SStr, SOpaque, SRef, SSetV, SSeqV, SArr)):
            return v.t
        if isinstance(v, (MSet, MList)):
            p = self.heap[v.oid]
            if isinstance(p, (SSetV, SSeqV)):
                return p.t
            if isinstance(p, tuple) and ty is not None:
                return self.lift_list(p, ty).t
        if isinstance(v, SOpt):
            # an optional used where python needs a value: None raises TypeError (decided like any safety check)
            return self.term_of(self.force_some(v), ty)
        raise Unsupported('term_of %r' % (v,))

    def type_of_value(self, v):
        if isinstance(v, bool) or isinstance(v, SBool):
            return ('bool',)
        if isinstance(v, int) or isinstance(v, SInt):
            return ('int',)
        if isinstance(v, str) or isinstance(v, SStr):
            return ('str',)
        if isinstance(v, SRef):
            return (v.cls,)
        if isinstance(v, SOpaque):
            return ('opaque',)
        if isinstance(v, SSetV):
            return ('set', v.ety)
        if isinstance(v, SSeqV):
            return ('seq', v.ety)
        if isinstance(v, (MSet, MList)):
            p = self.heap[v.oid]
            if isinstance(p, (SSetV, SSeqV)):
                return self.type_of_value(p)
        raise Unsupported('type_of_value %r' % (v,))

    # ------------------------------------------------------------ heap
    def alloc(self, payload):
        oid = self.next_oid
        self.next_oid += 1
        self.heap[oid] = payload
        return oid

    def alloc_obj(self, cls=None, schema=None, fields=None):
        return Obj(self.alloc(dict(fields or {})), cls, schema)

    def alloc_list(self, payload=()):
        return MList(self.alloc(payload))

    def alloc_set(self, payload):
        return MSet(self.alloc(payload))

    def alloc_dict(self, payload=None):
        return MDict(self.alloc(payload if payload is not None else {}))

    def lift_list(self, items, ety):
        """tuple of values -> SSeqV"""
        es = type_sort(ety, self.env.classes)
        t = smt.SeqEmpty(es)
        parts = [smt.SeqUnit(self.term_of(x, ety)) for x in items]
        if parts:
            t = smt.SeqConcat(*parts)
        return SSeqV(t, ety)

    def global_object(self, schema):
        """the modelled stand-in of a module-level object (flask.session, ...)"""
        cache = self.ghost.setdefault('@globals', {})
        if schema not in cache:
            cache[schema] = self.fresh(schema.lower(), schema)
        return cache[schema]

    # ------------------------------------------------------------ taint (C16)
    def taint_of(self, v, depth=0):
        """Bool term: may the printable form of v contain a secret?"""
        if depth > 6:
            return smt.FALSE
        if isinstance(v, SStr):
            return v.taint if v.taint is not None else smt.FALSE
        if isinstance(v, SOpt):
            return smt.And(smt.Not(v.isnone), self.taint_of(v.val, depth + 1))
        if isinstance(v, (tuple, list)):
            return smt.Or(*[self.taint_of(x, depth + 1) for x in v])
        if isinstance(v, (MList, MDict)):
            p = self.heap[v.oid]
            if isinstance(p, tuple):
                return smt.Or(*[self.taint_of(x, depth + 1) for x in p])
            if isinstance(p, dict):
                return smt.Or(*[self.taint_of(x, depth + 1) for x in p.values()])
            return smt.FALSE
        if isinstance(v, Obj):
            f = self.heap[v.oid]
            if isinstance(v.cls, type) and issubclass(v.cls, BaseException):
                return self.exc_taint(v, depth + 1)
            if '@taint' in f:
                return f['@taint']
        return smt.FALSE

    def exc_taint(self, e, depth=0):
        """taint of an exception as a logging consumer sees it: its arguments and the
        __cause__ / (unsuppressed) __context__ chain"""
        f = self.heap[e.oid]
        parts = [self.taint_of(a, depth + 1) for a in f.get('args', ())]
        if '@taint' in f:
            parts.append(f['@taint'])
        cause = f.get('__cause__', None)
        if cause is not None:
            parts.append(self.taint_of(cause, depth + 1))
        elif f.get('__context__') is not None and not f.get('__suppress_context__'):
            parts.append(self.taint_of(f['__context__'], depth + 1))
        return smt.Or(*parts)

    # ------------------------------------------------------------ decisions
    def assume(self, t):
        if smt.is_true(t):
            return
        self.pc.append(t)
        if smt.is_false(t):
            raise PathEnd('assumed false')

    def choose(self, cond, label=''):
        if cond is not None:
            if smt.is_true(cond):
                return True
            if smt.is_false(cond):
                return False
            if self.known(cond):
                return True
            if self.known(smt.Not(cond)):
                return False
        if self.pure:
            raise NeedFork()
        if self.pos < len(self.script):
            d = self.script[self.pos]
        else:
            can_t = can_f = True
            if cond is not None and self.prune:
                from . import solvers
                can_t = solvers.quick_sat(self.pc + [cond]) != 'unsat'
                can_f = solvers.quick_sat(self.pc + [smt.Not(cond)]) != 'unsat'
            if can_t and can_f:
                if self.explorer is not None:
                    self.explorer.push(self.script[:self.pos] + [False])
                d = True
            elif can_t:
                d = True
            elif can_f:
                d = False
            else:
                raise PathEnd('infeasible')
            self.script.append(d)
        self.pos += 1
        if cond is not None:
            self.pc.append(cond if d else smt.Not(cond))
        return d

    def choose_n(self, n, label=''):
        """Free n-way choice, encoded as a chain of binary choices."""
        for i in range(n - 1):
            if self.choose(None, label):
                return i
        return n - 1

    def require_safe(self, cond, exc_factory, what):
        """`cond` must hold or the program raises.  Normally a decision; inside a
        quantified (pure) context it becomes an obligation closed over the bound
        variables, so that the quantified term is only used where it is defined."""
        if smt.is_true(cond):
            return
        if self.pure and self.qctx and self.collect_safe is not None:
            # a comprehension over a symbolic collection: raising is decided once, for all elements
            self.collect_safe.append((cond, exc_factory))
            return
        if self.pure and self.qctx:
            # guards of enclosing `and` / `or` / conditional operands that mention the bound variables sit
            # on the path condition: they belong inside the closure, not outside it
            names = {v.data for bound, _ in self.qctx for v in bound}
            guards = [p for p in self.pc if smt._free_bound(p, names)]
            goal = smt.Implies(smt.And(*guards), cond) if guards else cond
            for bound, rng in reversed(self.qctx):
                goal = smt.ForAll(bound, smt.Implies(rng, goal))
            saved = self.pc
            self.pc = [p for p in self.pc if not smt._free_bound(p, names)]
            try:
                self.oblige('safe/%s' % what, 'pre', goal, what)
            finally:
                self.pc = saved
            return
        if not self.choose(cond):
            raise TargetExc(exc_factory())

    def oblige(self, name, kind, goal, where=''):
        if smt.is_true(goal):
            goal = smt.TRUE
        if getattr(self.env, 'split_goals', False):
            # a conjunction is proved conjunct by conjunct, each under the previous ones (a, a => b)
            parts = _conjuncts(goal)
            if len(parts) > 1:
                pc = list(self.pc)
                for k, part in enumerate(parts):
                    self.obligations.append(Obligation('%s#c%d' % (name, k), kind, part, list(pc), where, self.inputs))
                    pc.append(part)
                return
        self.obligations.append(Obligation(name, kind, goal, self.pc, where, self.inputs))

    # ------------------------------------------------------------ truthiness etc.
    def truth(self, v):
        """Bool term for python truthiness of v."""
        if v is None:
            return smt.FALSE
        if isinstance(v, SBool):
            return v.t
        if isinstance(v, (bool, int, str, tuple, frozenset, float)):
            return smt.BoolC(bool(v))
        if isinstance(v, SInt):
            return smt.Not(smt.Eq(v.t, smt.IntC(0)))
        if isinstance(v, SStr):
            return smt.Not(smt.Eq(v.t, smt.StrC('')))
        if isinstance(v, SOpt):
            return smt.And(smt.Not(v.isnone), self.truth(v.val))
        if isinstance(v, SSetV):
            return smt.Not(smt.Eq(v.t, smt.SetEmpty(smt.sort_args(v.t.sort)[1][0])))
        if isinstance(v, SSeqV):
            return smt.Gt(smt.SeqLen(v.t), smt.IntC(0))
        if isinstance(v, SMapV):
            return smt.Not(smt.Eq(v.dom, smt.SetEmpty(smt.sort_args(v.dom.sort)[1][0])))
        if isinstance(v, (MList, MSet, MDict)):
            p = self.heap[v.oid]
            if isinstance(p, (tuple, dict)):
                return smt.BoolC(len(p) > 0)
            return self.truth(p)
        if isinstance(v, (Obj, SRef, SOpaque, Closure, BoundMeth, SymMethod)):
            if isinstance(v, Obj) and v.cls is not None and (
                    hasattr(v.cls, '__bool__') or hasattr(v.cls, '__len__')):
                raise Unsupported('truth of object with __bool__/__len__: %r' % v)
            return smt.TRUE
        if isinstance(v, (type, types.FunctionType, types.ModuleType, types.BuiltinFunctionType)):
            return smt.TRUE
        if isinstance(v, (list, dict, set)):
            return smt.BoolC(bool(v))
        raise Unsupported('truth of %r' % (v,))

    def as_bool_value(self, t):
        if smt.is_true(t):
            return True
        if smt.is_false(t):
            return False
        return SBool(t)

    def is_none(self, v):
        if v is None:
            return smt.TRUE
        if isinstance(v, SOpt):
            return v.isnone
        return smt.FALSE

    def strip_opt(self, v, assume_some=False):
        """value of an optional after it has been established not-None"""
        if isinstance(v, SOpt):
            return v.val
        return v

    def ite_val(self, c, a, b):
        """Merge two values under condition c (Bool term)."""
        if smt.is_true(c):
            return a
        if smt.is_false(c):
            return b
        if a is b:
            return a
        # None handling -> optional
        if a is None or b is None or isinstance(a, SOpt) or isinstance(b, SOpt):
            na, nb = self.is_none(a), self.is_none(b)
            va, vb = self.strip_opt(a), self.strip_opt(b)
            if va is None and vb is None:
                return None
            if va is None:
                va = vb
            if vb is None:
                vb = va
            return SOpt(smt.Ite(c, na, nb), self.ite_val(c, va, vb))
        if isinstance(a, (bool, SBool)) and isinstance(b, (bool, SBool)):
            return self.as_bool_value(smt.Ite(c, self.truth(a), self.truth(b)))
        if isinstance(a, (int, SInt)) and isinstance(b, (int, SInt)) and not isinstance(a, bool) \
                and not isinstance(b, bool):
            return SInt(smt.Ite(c, self.term_of(a), self.term_of(b)))
        if isinstance(a, (str, SStr)) and isinstance(b, (str, SStr)):
            ta, tb = self.taint_of(a), self.taint_of(b)
            taint = None if (smt.is_false(ta) and smt.is_false(tb)) else smt.Ite(c, ta, tb)
            return SStr(smt.Ite(c, self.term_of(a), self.term_of(b)), taint)
        if isinstance(a, SRef) and isinstance(b, SRef) and a.cls == b.cls:
            return SRef(smt.Ite(c, a.t, b.t), a.cls)
        if isinstance(a, SSetV) and isinstance(b, SSetV):
            return SSetV(smt.Ite(c, a.t, b.t), a.ety)
        if isinstance(a, SSeqV) and isinstance(b, SSeqV):
            return SSeqV(smt.Ite(c, a.t, b.t), a.ety)
        if isinstance(a, MSet) and isinstance(b, MSet):
            pa, pb = self.heap[a.oid], self.heap[b.oid]
            return self.alloc_set(SSetV(smt.Ite(c, pa.t, pb.t), pa.ety))
        if isinstance(a, SMapV) or isinstance(b, SMapV):
            a2, b2 = self.as_map(a, b), self.as_map(b, a)
            return SMapV(smt.Ite(c, a2.dom, b2.dom), smt.Ite(c, a2.arr, b2.arr), a2.kty, a2.vty)
        if type(a) is type(b) and not isinstance(a, SV) and a == b:
            return a
        raise NeedFork()

    def as_map(self, v, like):
        if isinstance(v, SMapV):
            return v
        if isinstance(v, dict) and not v and isinstance(like, SMapV):
            ks = type_sort(like.kty, self.env.classes)
            return SMapV(smt.SetEmpty(ks), like.arr, like.kty, like.vty)
        if isinstance(v, MDict):
            return self.as_map(self.heap[v.oid], like)
        raise NeedFork()

    # ------------------------------------------------------------ equality
    def eq(self, a, b):
        """Bool term for python a == b."""
        if isinstance(a, SOpt) or isinstance(b, SOpt) or a is None or b is None:
            na, nb = self.is_none(a), self.is_none(b)
            va, vb = self.strip_opt(a), self.strip_opt(b)
            if va is None or vb is None:
                return smt.And(na, nb) if (va is None and vb is None) else \
                    (na if vb is None and va is not None and not isinstance(b, SOpt) else
                     nb if va is None and not isinstance(a, SOpt) else smt.And(na, nb))
            return smt.Or(smt.And(na, nb),
                          smt.And(smt.Not(na), smt.Not(nb), self.eq(va, vb)))
        if isinstance(a, (MList, MSet)):
            a = self.heap[a.oid]
        if isinstance(b, (MList, MSet)):
            b = self.heap[b.oid]
        if isinstance(a, tuple) and isinstance(b, tuple):
            if len(a) != len(b):
                return smt.FALSE
            return smt.And(*[self.eq(x, y) for x, y in zip(a, b)])
        if isinstance(a, SRef) and isinstance(b, SRef) and a.cls == b.cls and \
                self.env.classes[a.cls].get('eq_key'):
            ek = self.env.classes[a.cls]['eq_key']
            return self.eq(self.get_attr(a, ek), self.get_attr(b, ek))
        if isinstance(a, SV) or isinstance(b, SV):
            if isinstance(a, Obj) or isinstance(b, Obj):
                raise Unsupported('== between object and symbolic value')
            ta, tb = self._cmp_terms(a, b)
            if ta.sort != tb.sort:
                return smt.FALSE
            return smt.Eq(ta, tb)
        if isinstance(a, Obj) and isinstance(b, Obj):
            eqm = self.lookup_class_attr(a, '__eq__')
            if eqm is not None:
                return self.truth(self.call(eqm, [b], {}))
            return smt.BoolC(a.oid == b.oid)
        if isinstance(a, Obj) or isinstance(b, Obj):
            o, other = (a, b) if isinstance(a, Obj) else (b, a)
            eqm = self.lookup_class_attr(o, '__eq__')
            if eqm is not None:
                return self.truth(self.call(eqm, [other], {}))
            return smt.FALSE
        try:
            return smt.BoolC(a == b)
        except Exception:
            raise Unsupported('== on %r, %r' % (a, b))

    def _cmp_terms(self, a, b):
        def tm(x, other):
            if isinstance(x, tuple):
                ety = other.ety if isinstance(other, SSeqV) else None
                if ety is None:
                    raise Unsupported('compare tuple with %r' % (other,))
                return self.lift_list(x, ety).t
            return self.term_of(x)
        return tm(a, b), tm(b, a)

    def lookup_class_attr(self, obj, name):
        """User-defined dunder on the real class of obj (not object's)."""
        cls = obj.cls
        if cls is None or not isinstance(cls, type):
            return None
        for k in cls.__mro__:
            if k is object:
                return None
            if name in k.__dict__:
                f = k.__dict__[name]
                if isinstance(f, types.FunctionType):
                    return BoundMeth(obj, f)
                return None
        return None

    # the rest of the interpreter (statements, expressions, calls) lives in
    # mixins to keep files small
from .interp_stmt import StmtMixin      # noqa: E402
from .interp_expr import ExprMixin      # noqa: E402
from .interp_call import CallMixin      # noqa: E402


class Machine(Interp, StmtMixin, ExprMixin, CallMixin):
    pass
