"""Statements."""
from __future__ import annotations

import ast

from . import smt
from .values import *  # noqa
from .interp import (TargetExc, ReturnEx, BreakEx, ContinueEx, PathEnd, NeedFork,
                     Frame)


def assigned_names(stmts):
    """Names (re)bound anywhere in a list of statements (not nested defs)."""
    out = []

    class Vis(ast.NodeVisitor):
        def visit_FunctionDef(self, node):
            out.append(node.name)

        def visit_Lambda(self, node):
            pass

        def visit_Name(self, node):
            if isinstance(node.ctx, (ast.Store, ast.Del)):
                out.append(node.id)

        def visit_ListComp(self, node):
            pass
        visit_SetComp = visit_DictComp = visit_GeneratorExp = visit_ListComp

    for s in stmts:
        Vis().visit(s)
    seen, res = set(), []
    for n in out:
        if n not in seen:
            seen.add(n)
            res.append(n)
    return res


def is_log_call(node):
    """LOG.xxx(...) / logging.xxx(...) expression statement."""
    if not (isinstance(node, ast.Expr) and isinstance(node.value, ast.Call)):
        return False
    f = node.value.func
    return (isinstance(f, ast.Attribute) and isinstance(f.value, ast.Name)
            and f.value.id in ('LOG', 'logging', 'log', 'logger'))


class StmtMixin:
    def exec_block(self, stmts, fr):
        for s in stmts:
            self.exec_stmt(s, fr)

    def exec_stmt(self, node, fr):
        m = getattr(self, 'st_' + type(node).__name__, None)
        if m is None:
            raise Unsupported('statement %s at line %s' % (type(node).__name__, node.lineno))
        return m(node, fr)

    # -- simple statements
    def st_Pass(self, node, fr):
        pass

    def st_Expr(self, node, fr):
        if isinstance(node.value, ast.Constant):
            return  # docstring
        if is_log_call(node) and not self.env.keep_logs:
            self.note_drop(fr, 'log call', node)
            return
        self.eval(node.value, fr)

    def note_drop(self, fr, what, node):
        self.drops.append('%s: %s at line %d' % (fr.qualname, what, node.lineno))

    def st_Assign(self, node, fr):
        v = self.eval(node.value, fr)
        for tgt in node.targets:
            self.assign(tgt, v, fr)

    def st_AnnAssign(self, node, fr):
        if node.value is not None:
            self.assign(node.target, self.eval(node.value, fr), fr)

    def st_AugAssign(self, node, fr):
        tgt = node.target
        load = ast.copy_location(_as_load(tgt), tgt)
        cur = self.eval(load, fr)
        rhs = self.eval(node.value, fr)
        # in-place semantics for mutable sets / lists
        if isinstance(cur, MSet) and isinstance(node.op, (ast.Sub, ast.BitOr, ast.BitAnd)):
            self.heap[cur.oid] = self.set_binop(node.op, self.heap[cur.oid], rhs)
            return
        if isinstance(cur, MList) and isinstance(node.op, ast.Add):
            self.list_extend(cur, rhs)
            return
        self.assign(tgt, self.binop(node.op, cur, rhs), fr)

    def st_Delete(self, node, fr):
        for tgt in node.targets:
            if isinstance(tgt, ast.Name):
                fr.locals.pop(tgt.id, None)
            elif isinstance(tgt, ast.Subscript):
                self.del_item(self.eval(tgt.value, fr), self.eval(tgt.slice, fr))
            else:
                raise Unsupported('del target')

    def st_Return(self, node, fr):
        raise ReturnEx(self.eval(node.value, fr) if node.value is not None else None)

    def st_Break(self, node, fr):
        raise BreakEx()

    def st_Continue(self, node, fr):
        raise ContinueEx()

    def st_Global(self, node, fr):
        raise Unsupported('global statement')

    def st_Nonlocal(self, node, fr):
        raise Unsupported('nonlocal statement')

    def st_Import(self, node, fr):
        raise Unsupported('import inside function')

    def st_ImportFrom(self, node, fr):
        raise Unsupported('import inside function')

    def st_Assert(self, node, fr):
        t = self.truth(self.eval(node.test, fr))
        self.oblige('assert@%s:%d' % (fr.qualname, node.lineno), 'assert', t,
                    '%s:%d' % (fr.qualname, node.lineno))
        self.assume(t)

    def st_FunctionDef(self, node, fr):
        import functools
        c = self.make_closure(node, fr)
        for dec in reversed(node.decorator_list):
            # functools.wraps only copies metadata: dropped (logged)
            if isinstance(dec, ast.Call):
                f = self.eval(dec.func, fr)
                if f is functools.wraps:
                    self.note_drop(fr, '@wraps decorator', node)
                    continue
            d = self.eval(dec, fr)
            c = self.call(d, [c], {})
        fr.locals[node.name] = c

    def st_Raise(self, node, fr):
        if node.exc is None:
            cur = fr.locals.get('@handling')
            if cur is None:
                raise Unsupported('bare raise outside handler')
            raise TargetExc(cur)
        e = self.eval(node.exc, fr)
        if isinstance(e, SOpt):
            if self.choose(e.isnone):
                raise TargetExc(self.make_exception(TypeError, ['exceptions must derive from BaseException'], {}))
            e = e.val
        if isinstance(e, type) and issubclass(e, BaseException):
            e = self.make_exception(e, [], {})
        if not (isinstance(e, Obj) and isinstance(e.cls, type)
                and issubclass(e.cls, BaseException)):
            raise Unsupported('raise of non-exception %r' % (e,))
        if fr.locals.get('@handling') is not None:
            self.heap[e.oid].setdefault('__context__', fr.locals.get('@handling'))
        if node.cause is not None:
            c = self.eval(node.cause, fr)
            self.heap[e.oid]['__cause__'] = c
            self.heap[e.oid]['__suppress_context__'] = True
        raise TargetExc(e)

    # -- assignment targets
    def assign(self, tgt, v, fr):
        if isinstance(tgt, ast.Name):
            fr.locals[tgt.id] = v
        elif isinstance(tgt, ast.Attribute):
            self.set_attr(self.eval(tgt.value, fr), tgt.attr, v)
        elif isinstance(tgt, ast.Subscript):
            self.set_item(self.eval(tgt.value, fr), self.eval(tgt.slice, fr), v)
        elif isinstance(tgt, (ast.Tuple, ast.List)):
            if isinstance(v, SRef) and self.env.classes[v.cls].get('unpack'):
                items = [self.get_attr(v, f) for f in self.env.classes[v.cls]['unpack']]
                for e, x in zip(tgt.elts, items):
                    self.assign(e, x, fr)
                return
            items = self.concrete_items(v)
            star = [i for i, e in enumerate(tgt.elts) if isinstance(e, ast.Starred)]
            if star:
                i = star[0]
                after = len(tgt.elts) - i - 1
                if items is None:
                    # symbolic sequence: head/tail split
                    sv = self.seq_value(v)
                    n = smt.SeqLen(sv.t)
                    need = len(tgt.elts) - 1
                    if self.choose(smt.Ge(n, smt.IntC(need))) is False:
                        raise TargetExc(self.make_exception(ValueError, ['not enough values to unpack'], {}))
                    for k in range(i):
                        self.assign(tgt.elts[k], self.value_of_sort(smt.SeqNth(sv.t, smt.IntC(k)), sv.ety), fr)
                    mid = smt.SeqExtract(sv.t, smt.IntC(i), smt.Sub(n, smt.IntC(need)))
                    self.assign(tgt.elts[i].value, self.alloc_list(SSeqV(mid, sv.ety)), fr)
                    for k in range(after):
                        idx = smt.Sub(n, smt.IntC(after - k))
                        self.assign(tgt.elts[i + 1 + k], self.value_of_sort(smt.SeqNth(sv.t, idx), sv.ety), fr)
                    return
                if len(items) < len(tgt.elts) - 1:
                    raise TargetExc(self.make_exception(ValueError, ['not enough values to unpack'], {}))
                for k in range(i):
                    self.assign(tgt.elts[k], items[k], fr)
                self.assign(tgt.elts[i].value,
                            self.alloc_list(tuple(items[i:len(items) - after])), fr)
                for k in range(after):
                    self.assign(tgt.elts[i + 1 + k], items[len(items) - after + k], fr)
                return
            if items is None:
                sv = self.seq_value(v)
                if self.choose(smt.Eq(smt.SeqLen(sv.t), smt.IntC(len(tgt.elts)))) is False:
                    raise TargetExc(self.make_exception(ValueError, ['unpack'], {}))
                items = [self.value_of_sort(smt.SeqNth(sv.t, smt.IntC(k)), sv.ety)
                         for k in range(len(tgt.elts))]
            if len(items) != len(tgt.elts):
                raise TargetExc(self.make_exception(ValueError, ['unpack'], {}))
            for e, x in zip(tgt.elts, items):
                self.assign(e, x, fr)
        else:
            raise Unsupported('assignment target %s' % type(tgt).__name__)

    # -- control flow
    def st_If(self, node, fr):
        c = self.truth(self.eval(node.test, fr))
        if self.choose(c):
            self.exec_block(node.body, fr)
        else:
            self.exec_block(node.orelse, fr)

    def st_With(self, node, fr):
        # context managers: only objects whose __enter__/__exit__ are modelled
        mgrs = []
        for item in node.items:
            m = self.eval(item.context_expr, fr)
            ent = self.get_attr(m, '__enter__')
            r = self.call(ent, [], {})
            if item.optional_vars is not None:
                self.assign(item.optional_vars, r, fr)
            mgrs.append(m)
        try:
            self.exec_block(node.body, fr)
        except TargetExc as e:
            for m in reversed(mgrs):
                r = self.call(self.get_attr(m, '__exit__'), [type(e.exc), e.exc, None], {})
                if self.choose(self.truth(r)):
                    return
            raise
        except (ReturnEx, BreakEx, ContinueEx):
            for m in reversed(mgrs):
                self.call(self.get_attr(m, '__exit__'), [None, None, None], {})
            raise
        else:
            for m in reversed(mgrs):
                self.call(self.get_attr(m, '__exit__'), [None, None, None], {})

    def st_Try(self, node, fr):
        try:
            try:
                self.exec_block(node.body, fr)
            except TargetExc as te:
                handled = False
                for h in node.handlers:
                    if self.exc_matches(te.exc, h, fr):
                        handled = True
                        saved = fr.locals.get('@handling')
                        fr.locals['@handling'] = te.exc
                        if h.name:
                            fr.locals[h.name] = te.exc
                        try:
                            self.exec_block(h.body, fr)
                        finally:
                            fr.locals['@handling'] = saved
                        break
                if not handled:
                    raise
            else:
                self.exec_block(node.orelse, fr)
        except (TargetExc, ReturnEx, BreakEx, ContinueEx):
            if node.finalbody:
                self.exec_block(node.finalbody, fr)
            raise
        else:
            if node.finalbody:
                self.exec_block(node.finalbody, fr)

    def exc_matches(self, exc, handler, fr):
        if handler.type is None:
            return True
        t = self.eval(handler.type, fr)
        classes = t if isinstance(t, tuple) else (t,)
        for c in classes:
            if not isinstance(c, type):
                raise Unsupported('except clause with non-class')
            if isinstance(exc.cls, type) and issubclass(exc.cls, c):
                return True
        return False

    # -- loops
    def loop_ordinal(self, fr, node):
        key = fr.qualname
        d = self.loop_ordinals.setdefault(key, {})
        if node.lineno not in d:
            # ordinal by source order inside the function
            fn_node = fr.fn
            loops = [n for n in ast.walk(fn_node) if isinstance(n, (ast.For, ast.While))]
            loops.sort(key=lambda n: (n.lineno, n.col_offset))
            for i, n in enumerate(loops):
                d[n.lineno] = i
        return d.get(node.lineno, -1)

    def st_For(self, node, fr):
        it = self.eval(node.iter, fr)
        items = self.concrete_items(it)
        if items is not None:
            broke = False
            for x in items:
                self.assign(node.target, x, fr)
                try:
                    self.exec_block(node.body, fr)
                except BreakEx:
                    broke = True
                    break
                except ContinueEx:
                    continue
            if not broke:
                self.exec_block(node.orelse, fr)
            return
        # symbolic iteration: cut with the sidecar invariant
        if isinstance(it, SymEnumerate):
            self.sym_loop(node, fr, it.seq, enum_start=it.start)
            return
        if isinstance(it, SymZip):
            # lock-step iteration: index ranges over the shortest sequence (the loop runs over the
            # first one under the assumption that none is shorter, which is an obligation)
            first = it.seqs[0]
            for other in it.seqs[1:]:
                self.oblige('zip-lengths@%s:%d' % (fr.qualname, node.lineno), 'pre',
                            smt.Ge(smt.SeqLen(other.t), smt.SeqLen(first.t)), 'zip')
            self.sym_loop(node, fr, first, zipped=it.seqs)
            return
        sv = self.seq_value(it)
        self.sym_loop(node, fr, sv)

    def st_While(self, node, fr):
        spec = self.env.loop_spec(fr.qualname, self.loop_ordinal(fr, node))
        if spec is None:
            # concrete unrolling as long as the condition folds to a constant
            n = 0
            while True:
                c = self.truth(self.eval(node.test, fr))
                if not (smt.is_true(c) or smt.is_false(c)):
                    raise Unsupported('while loop without invariant in %s line %d'
                                      % (fr.qualname, node.lineno))
                if smt.is_false(c):
                    break
                n += 1
                if n > 1000:
                    raise Unsupported('while unrolling limit')
                try:
                    self.exec_block(node.body, fr)
                except BreakEx:
                    return
                except ContinueEx:
                    continue
            self.exec_block(node.orelse, fr)
            return
        self.sym_loop(node, fr, None, spec)

    def sym_loop(self, node, fr, sv, spec=None, enum_start=None, zipped=None):
        ordn = self.loop_ordinal(fr, node)
        spec = spec or self.env.loop_spec(fr.qualname, ordn)
        if spec is None:
            raise Unsupported('loop #%d of %s (line %d) iterates a symbolic collection '
                              'and has no invariant' % (ordn, fr.qualname, node.lineno))
        if spec.get('inv') is None:
            spec = dict(spec, inv=_true_inv)
        tag = '%s#loop%d' % (fr.qualname, ordn)
        is_for = sv is not None
        n = smt.SeqLen(sv.t) if is_for else None

        def inv(i_term, kind):
            ns = dict(fr.locals)
            if is_for:
                ns['_i'] = SInt(i_term)
                ns['_seq'] = sv
            t = self.truth(self.call_spec(spec['inv'], ns, fr))
            return t

        # 1. invariant holds on entry
        self.oblige('inv-init/%s' % tag, 'inv-init', inv(smt.IntC(0), 'init'), tag)
        # 2. havoc what the body may change
        mods = assigned_names(node.body) + list(spec.get('extra_mods', ()))
        types = spec.get('types', {})
        for name in mods:
            if name in types:
                fr.locals[name] = self.fresh('%s@%s' % (name, tag), types[name], is_input=False)
            elif name in fr.locals:
                fr.locals[name] = self.havoc_like(fr.locals[name], '%s@%s' % (name, tag))
            # names first bound in the body and not typed stay unbound
        for hv in spec.get('havoc', ()):
            hv(self, fr)
        which = self.choose(None, 'loop-enter')
        if which:
            # arbitrary iteration
            if is_for:
                i = self.fresh_term('_i@%s' % tag, INT, False)
                self.assume(smt.And(smt.Le(smt.IntC(0), i), smt.Lt(i, n)))
                self.assume(inv(i, 'assume'))
                if sv.t.op == 'seq.extract':
                    # 0 <= i < len(extract(s, a, n))  ==>  extract(s, a, n)[i] = s[a + i]
                    elem = self.value_of_sort(smt.SeqNth(sv.t.args[0], smt.Add(sv.t.args[1], i)), sv.ety)
                else:
                    elem = self.value_of_sort(smt.SeqNth(sv.t, i), sv.ety)
                if enum_start is not None:
                    elem = (SInt(smt.Add(i, self.int_term(enum_start))), elem)
                if zipped is not None:
                    elem = tuple(self.value_of_sort(smt.SeqNth(z.t, i), z.ety) for z in zipped)
                self.assign(node.target, elem, fr)
                fr.locals['_i'] = SInt(i)
                fr.locals['_seq'] = sv
                fr.locals['@in_sym_loop'] = True
            else:
                i = None
                self.assume(inv(None, 'assume'))
                c = self.truth(self.eval(node.test, fr))
                self.assume(c)
            try:
                self.exec_block(node.body, fr)
            except BreakEx:
                return  # leaves the loop with the current state
            except ContinueEx:
                pass
            nxt = smt.Add(i, smt.IntC(1)) if is_for else None
            # an invariant that is itself a clause of the property is a top-level obligation
            self.oblige('inv-step/%s' % tag, 'site' if spec.get('top_level') else 'inv-step',
                        inv(nxt, 'step'), tag)
            if spec.get('decreases') is not None and not is_for:
                pass
            raise PathEnd('loop body cut at ' + tag)
        else:
            if is_for:
                self.assume(inv(n, 'exit'))
            else:
                self.assume(inv(None, 'exit'))
                c = self.truth(self.eval(node.test, fr))
                self.assume(smt.Not(c))
            self.exec_block(node.orelse, fr)

    def havoc_like(self, v, base):
        """Fresh value of the same shape as v."""
        if v is None or isinstance(v, SOpt):
            inner = self.strip_opt(v)
            if inner is None:
                raise Unsupported('havoc of None-valued variable %s needs a declared type' % base)
            return SOpt(self.fresh_term(base + '?none', BOOL, False), self.havoc_like(inner, base))
        if isinstance(v, (bool, SBool)):
            return SBool(self.fresh_term(base, BOOL, False))
        if isinstance(v, (int, SInt)):
            return SInt(self.fresh_term(base, INT, False))
        if isinstance(v, (str, SStr)):
            return SStr(self.fresh_term(base, STR, False))
        if isinstance(v, SRef):
            return SRef(self.fresh_term(base, v.t.sort, False), v.cls)
        if isinstance(v, SSetV):
            return SSetV(self.fresh_term(base, v.t.sort, False), v.ety)
        if isinstance(v, SSeqV):
            return SSeqV(self.fresh_term(base, v.t.sort, False), v.ety)
        if isinstance(v, (MSet, MList)):
            p = self.heap[v.oid]
            if isinstance(p, (SSetV, SSeqV)):
                self.heap[v.oid] = self.havoc_like(p, base)
                return v
        raise Unsupported('havoc of %r (%s): give the loop variable a type' % (v, base))


def _true_inv():
    return True


def _as_load(node):
    import copy
    n = copy.copy(node)
    n.ctx = ast.Load()
    return n
