"""Symbolic value domain of the interpreter.

Concrete python values (int, str, bool, None, tuples, real classes, real
functions, modules) are used as they are; everything below wraps SMT terms.
Mutable containers and objects are handles into Interp.heap.
"""
from __future__ import annotations

from . import smt
from .smt import T, INT, BOOL, STR, REF


class Unsupported(Exception):
    """The construct is outside the verified subset (never a violation)."""


class SV:
    pass


class SInt(SV):
    __slots__ = ('t',)

    def __init__(self, t): self.t = t
    def __repr__(self): return 'SInt(%r)' % self.t


class SBool(SV):
    __slots__ = ('t',)

    def __init__(self, t): self.t = t
    def __repr__(self): return 'SBool(%r)' % self.t


class SStr(SV):
    __slots__ = ('t', 'taint')

    def __init__(self, t, taint=None):
        self.t = t
        self.taint = taint

    def __repr__(self): return 'SStr(%r)' % self.t


class SOpaque(SV):
    """A value nothing is known about (sort Ref); only identity."""
    __slots__ = ('t', 'tag')

    def __init__(self, t, tag=''):
        self.t = t
        self.tag = tag

    def __repr__(self): return 'SOpaque(%s)' % self.tag


class SRef(SV):
    """Reference to an immutable record of schema class `cls` (sort Ref);
    fields are uninterpreted functions cls.field : Ref -> sort."""
    __slots__ = ('t', 'cls')

    def __init__(self, t, cls):
        self.t = t
        self.cls = cls

    def __repr__(self): return 'SRef(%s:%r)' % (self.cls, self.t)


class SOpt(SV):
    """None (when isnone) or val."""
    __slots__ = ('isnone', 'val')

    def __init__(self, isnone, val):
        self.isnone = isnone
        self.val = val

    def __repr__(self): return 'SOpt(%r,%r)' % (self.isnone, self.val)


class SSetV(SV):
    __slots__ = ('t', 'ety')

    def __init__(self, t, ety):
        self.t = t
        self.ety = ety

    def __repr__(self): return 'SSet(%r)' % self.t


class SSeqV(SV):
    __slots__ = ('t', 'ety')

    def __init__(self, t, ety):
        self.t = t
        self.ety = ety

    def __repr__(self): return 'SSeq(%r)' % self.t


class SMapV(SV):
    """dom: (Set K) term; arr: (Array K V) term."""
    __slots__ = ('dom', 'arr', 'kty', 'vty')

    def __init__(self, dom, arr, kty, vty):
        self.dom, self.arr, self.kty, self.vty = dom, arr, kty, vty

    def __repr__(self): return 'SMap(%r,%r)' % (self.dom, self.arr)


class SymRange(SV):
    """range(lo, hi) with symbolic bounds (only usable in comprehensions)"""
    __slots__ = ('lo', 'hi')

    def __init__(self, lo, hi):
        self.lo, self.hi = lo, hi


class SArr(SV):
    """an SMT array used as a total map (ghost state)"""
    __slots__ = ('t',)

    def __init__(self, t):
        self.t = t


class GhostProxy:
    """live view of the interpreter's ghost state (so that old(G.x) reads the pre-state)"""
    def __init__(self, interp):
        self.interp = interp


class SymTupleOfSet(SV):
    """tuple(<symbolic set>): an unordered view, accepted by str.startswith"""
    __slots__ = ('setv',)

    def __init__(self, setv):
        self.setv = setv


class SymEnumerate(SV):
    __slots__ = ('seq', 'start')

    def __init__(self, seq, start):
        self.seq, self.start = seq, start


class SymZip(SV):
    """zip of symbolic sequences (iterated in lock step)"""
    __slots__ = ('seqs',)

    def __init__(self, seqs):
        self.seqs = seqs


class SymStar(SV):
    """*args of symbolic length at a call site (only trusted models accept it)"""
    __slots__ = ('seq',)

    def __init__(self, seq):
        self.seq = seq


class Obj:
    """Heap object with identity."""
    __slots__ = ('oid', 'cls', 'schema')

    def __init__(self, oid, cls=None, schema=None):
        self.oid = oid
        self.cls = cls          # real python class or None
        self.schema = schema    # schema name or None

    def __repr__(self):
        return '<Obj %s #%s>' % (self.schema or getattr(self.cls, '__name__', '?'), self.oid)


class MList:
    __slots__ = ('oid',)
    def __init__(self, oid): self.oid = oid
    def __repr__(self): return '<MList #%s>' % self.oid


class MSet:
    __slots__ = ('oid',)
    def __init__(self, oid): self.oid = oid
    def __repr__(self): return '<MSet #%s>' % self.oid


class MDict:
    __slots__ = ('oid',)
    def __init__(self, oid): self.oid = oid
    def __repr__(self): return '<MDict #%s>' % self.oid


class Closure:
    __slots__ = ('node', 'frame', 'name', 'defaults', 'kwdefaults', 'qualname', 'module')

    def __init__(self, node, frame, name, defaults, kwdefaults, qualname, module):
        self.node, self.frame, self.name = node, frame, name
        self.defaults, self.kwdefaults = defaults, kwdefaults
        self.qualname, self.module = qualname, module

    def __repr__(self): return '<Closure %s>' % self.qualname


class BoundMeth:
    __slots__ = ('selfv', 'func')

    def __init__(self, selfv, func):
        self.selfv, self.func = selfv, func

    def __repr__(self): return '<BoundMeth %r.%r>' % (self.selfv, self.func)


class SymMethod:
    """Method of a symbolic value / container handle, dispatched by name."""
    __slots__ = ('selfv', 'name')

    def __init__(self, selfv, name):
        self.selfv, self.name = selfv, name

    def __repr__(self): return '<SymMethod %s>' % self.name


class ModelMethod:
    """Trusted model of an external method: fn(interp, selfv, *args, **kw)."""
    __slots__ = ('fn', 'name')

    def __init__(self, fn, name):
        self.fn, self.name = fn, name


# ---------------------------------------------------------------- types
def parse_type(s):
    """'opt[seq[str]]' -> ('opt', ('seq', ('str',)))"""
    s = s.strip()
    if '[' not in s:
        return (s,)
    head, rest = s.split('[', 1)
    assert rest.endswith(']'), s
    rest = rest[:-1]
    parts, depth, cur = [], 0, ''
    for ch in rest:
        if ch == '[':
            depth += 1
        elif ch == ']':
            depth -= 1
        if ch == ',' and depth == 0:
            parts.append(cur)
            cur = ''
        else:
            cur += ch
    parts.append(cur)
    return (head.strip(),) + tuple(parse_type(p) for p in parts)


def type_sort(ty, classes):
    """SMT sort used for values of type ty when stored in a collection."""
    h = ty[0]
    if h == 'int':
        return INT
    if h == 'bool':
        return BOOL
    if h == 'str':
        return STR
    if h == 'set':
        return smt.SetS(type_sort(ty[1], classes))
    if h == 'seq':
        return smt.SeqS(type_sort(ty[1], classes))
    if h in ('opaque', 'any'):
        return REF
    if h in classes:
        return classes[h].get('sort', REF)
    raise Unsupported('no SMT sort for type %r' % (ty,))
