"""./check <Cxx> [--tier quick|thorough] [--replay file] : decide one property.

Exit codes: 0 held / 1 violation (line `VIOLATION property=<id> replay=<path>`)
            2 undecided (proof no longer goes through, nothing found wrong)
            3 checker error.
"""
from __future__ import annotations

import argparse
import hashlib
import importlib
import json
import os
import sys
import time
import traceback

ROOT = os.path.dirname(os.path.dirname(os.path.abspath(__file__)))
sys.path.insert(0, ROOT)

from pyvc import verify, solvers, smt  # noqa: E402
from pyvc import builtins_sym  # noqa: E402

KF_FILE = os.path.join(ROOT, 'known_findings.json')
LOCK_FILE = os.path.join(ROOT, 'specs', 'obligations.lock')


def load_known():
    try:
        with open(KF_FILE) as f:
            return json.load(f)
    except FileNotFoundError:
        return {'findings': [], 'fixed': []}


def load_lock():
    try:
        with open(LOCK_FILE) as f:
            return json.load(f)
    except FileNotFoundError:
        return {}


def base_name(ob_name):
    import re
    # path ids and source line numbers are not part of an obligation's identity
    return re.sub(r'[@:]\d+\b', '', ob_name.rsplit('@p', 1)[0])


def write_replay(pid, name, payload):
    d = os.path.join(ROOT, 'replays', pid)
    os.makedirs(d, exist_ok=True)
    safe = hashlib.sha1(name.encode()).hexdigest()[:10]
    path = os.path.join(d, '%s.json' % safe)
    with open(path, 'w') as f:
        json.dump(payload, f, indent=1, default=str)
    return path


class Report:
    def __init__(self, pid, tier, seed):
        self.pid, self.tier, self.seed = pid, tier, seed
        self.violations = []      # dict(key, what, replay, noinput)
        self.undecided = []
        self.errors = []
        self.known = []
        self.functions = []
        self.obligations = 0
        self.discharged = 0
        self.by_backend = {}
        self.bounded = []
        self.facts = []
        self.samples = []
        self.drops = []
        self.covers = {}
        self.trusted = []
        self.t0 = time.time()


def handle_function(rep, mod, env, c, budget, lock):
    r = verify.verify_function(env, c, budget_ms=budget)
    fninfo = {'function': c.label, 'source': r.src, 'status': r.status, 'paths': r.paths,
              'wall_s': round(r.wall, 2), 'covers': r.covers}
    rep.functions.append(fninfo)
    rep.drops.extend(r.drops)
    if r.status == 'error':
        rep.errors.append('%s: %s' % (c.label, r.detail))
        return
    if r.status == 'unsupported':
        rep.undecided.append({'obligation': c.label, 'why': 'unsupported construct: ' + r.detail})
        return
    if not r.obligations:
        rep.errors.append('%s: zero obligations generated' % c.label)
        return
    if r.missing_covers:
        if not any(r.covers.values()):
            rep.errors.append('%s: vacuity guard failed, no feasible path at all' % c.label)
        else:
            # an outcome the contract expects to be reachable no longer is: the proof has lost its
            # footing for that clause (undecided; the bounded search then looks for a real failure)
            rep.undecided.append({'obligation': '%s :: cover/%s' % (c.label, ','.join(r.missing_covers)),
                                  'why': 'expected outcome not reachable any more'})
    seen_names = set()
    refuted = {}
    for o in r.obligations:
        rep.obligations += 1
        bn = base_name(o['name'])
        seen_names.add(bn)
        be = o.get('backend') or 'none'
        if o['answer'] == 'unsat':
            rep.discharged += 1
            slot = rep.by_backend.setdefault(be, {'count': 0, 'seconds': 0.0})
            slot['count'] += 1
            slot['seconds'] += o.get('time') or 0.0
            if len(rep.samples) < 4 and be != 'trivial':
                rep.samples.append({'obligation': '%s :: %s' % (c.label, o['name']),
                                    'outcome_of_path': o['where'], 'answer': 'unsat', 'backend': be})
        elif o['answer'] == 'sat':
            refuted.setdefault(bn, []).append(o)
        else:
            rep.undecided.append({'obligation': '%s :: %s' % (c.label, o['name']),
                                  'why': '%s (%s)' % (o['answer'], o.get('detail'))})
    want = set(lock.get(c.label, []))
    for missing in sorted(want - seen_names):
        rep.undecided.append({'obligation': '%s :: %s' % (c.label, missing),
                              'why': 'obligation of the unchanged tree was not generated'})
    fninfo['obligation_names'] = sorted(seen_names)
    n_und = len(rep.undecided)
    for bn, obs in refuted.items():
        decide_refuted(rep, mod, c, bn, obs)
    mine = [u for u in rep.undecided if u['obligation'].startswith(c.label)]
    if mine and hasattr(mod, 'bounded_for') and not any(
            v['key'].startswith('obligation:%s:' % c.label) for v in rep.violations):
        # the proof is stuck: search the real function for a failing input (bounded stand-in)
        try:
            bfail = mod.bounded_for(c, rep.tier, rep.seed)
        except Exception as e:
            bfail = None
            rep.errors.append('bounded_for %s: %r' % (c.label, e))
        if bfail:
            bn = base_name(mine[0]['obligation'].split(' :: ', 1)[-1])
            key = 'obligation:%s:%s' % (c.label, bn)
            path = write_replay(rep.pid, key, {
                'property': rep.pid, 'obligation': mine[0]['obligation'],
                'input': bfail.get('input'), 'native_result': bfail,
                'found_by': 'bounded search after an undecided obligation'})
            rep.violations.append({'key': key, 'what': '%s fails its contract' % c.label,
                                   'replay': path, 'input': bfail.get('input'), 'noinput': False})


def decide_refuted(rep, mod, c, bn, obs):
    """A refuted obligation: replay the counterexample(s) on the real code."""
    key = 'obligation:%s:%s' % (c.label, bn)
    confirmed = None
    spurious = 0
    for o in obs[:8]:
        model = o.get('model')
        if c.replay is None or not model:
            continue
        try:
            rr = c.replay(model)
        except Exception as e:
            rr = {'ok': True, 'replay_error': repr(e)}
        if not rr.get('ok', True):
            confirmed = (o, rr)
            break
        spurious += 1
    top_level = obs[0]['kind'] in ('post', 'frame', 'fact', 'lemma', 'assert', 'site')
    if confirmed:
        o, rr = confirmed
        path = write_replay(rep.pid, key, {
            'property': rep.pid, 'obligation': '%s :: %s' % (c.label, o['name']),
            'input': o['model'], 'native_result': rr, 'smt2': o.get('smt2'),
            'how_to_replay': './check %s --replay <this file>' % rep.pid})
        rep.violations.append({'key': key, 'what': '%s fails %s' % (c.label, bn), 'replay': path,
                               'input': o['model'], 'noinput': False})
        return
    # no confirmed input: fall back on the bounded search of the same contract
    bfail = None
    if hasattr(mod, 'bounded_for'):
        try:
            bfail = mod.bounded_for(c, rep.tier, rep.seed)
        except Exception as e:
            rep.errors.append('bounded_for %s: %r' % (c.label, e))
    if bfail:
        path = write_replay(rep.pid, key, {
            'property': rep.pid, 'obligation': '%s :: %s' % (c.label, bn),
            'input': bfail.get('input'), 'native_result': bfail, 'found_by': 'bounded search',
            'smt2': obs[0].get('smt2')})
        rep.violations.append({'key': key, 'what': '%s fails %s' % (c.label, bn), 'replay': path,
                               'input': bfail.get('input'), 'noinput': False})
        return
    if spurious and not top_level:
        rep.undecided.append({'obligation': '%s :: %s' % (c.label, bn),
                              'why': 'auxiliary obligation refuted; model replays fine natively'})
        return
    if spurious:
        rep.undecided.append({'obligation': '%s :: %s' % (c.label, bn),
                              'why': 'refuted, but the counterexample satisfies the contract when '
                                     'replayed on the real function (encoding artefact)'})
        return
    if top_level:
        o = obs[0]
        path = write_replay(rep.pid, key, {
            'property': rep.pid, 'obligation': '%s :: %s' % (c.label, o['name']),
            'input': None, 'solver_model': o.get('model'), 'smt2': o.get('smt2'),
            'note': 'the verifier refuted this obligation; no failing input could be '
                    'reconstructed for the real function'})
        rep.violations.append({'key': key, 'what': '%s fails %s' % (c.label, bn), 'replay': path,
                               'noinput': True})
    else:
        rep.undecided.append({'obligation': '%s :: %s' % (c.label, bn),
                              'why': 'auxiliary obligation refuted, no input found'})


def handle_lemma(rep, name, assertions, budget, expect='unsat'):
    job = solvers.make_job(name, assertions, None, budget)
    (a,) = solvers.solve_many([job])
    rep.obligations += 1
    if a['answer'] == expect:
        rep.discharged += 1
        be = a.get('backend') or 'none'
        slot = rep.by_backend.setdefault(be, {'count': 0, 'seconds': 0.0})
        slot['count'] += 1
        slot['seconds'] += a.get('time') or 0.0
        return True, a
    return False, a


def run_property(pid, tier, seed):
    rep = Report(pid, tier, seed)
    os.environ['PYVC_TIER'] = tier
    mod = importlib.import_module('specs.%s' % pid.lower())
    budget = 10000 if tier == 'quick' else 60000
    lock = load_lock().get(pid, {})
    try:
        env = mod.base_env()
        for c in mod.contracts(env):
            handle_function(rep, mod, env, c, budget, lock)
        rep.trusted.extend(env.trusted)
        # contracts of another property that this property's statement also rests on: verified again here, in
        # the environment of the module that owns them, and counted (and reported) under this property
        for fname, keep in getattr(mod, 'REUSED_CONTRACTS', ()):
            fmod = importlib.import_module('specs.%s' % fname)
            fenv = fmod.base_env()
            for c in fmod.contracts(fenv):
                if any(k in c.label for k in keep):
                    c.label = c.label + ' [contract of %s, reused by %s]' % (fname.upper(), pid)
                    handle_function(rep, mod, fenv, c, budget, lock)
            rep.trusted.extend(t for t in fenv.trusted if t not in rep.trusted)
        if hasattr(mod, 'extra'):
            mod.extra(rep, tier, seed, budget)
        # the composition step shared by several properties: _handle_pull_request under contract
        from specs import hpr
        if pid in hpr.PROPS:
            hpr.run_for(rep, pid, budget)
    except Exception:
        rep.errors.append(traceback.format_exc())
    finally:
        solvers.close_pool()
    return rep, mod


def finish(rep, mod):
    pid = rep.pid
    known = load_known()
    kf = [f for f in known.get('findings', []) if f['property'] == pid]
    lines = []
    unknown_viol = []
    for v in rep.violations:
        hit = None
        for f in kf:
            if v['key'] in f.get('keys', ()) or (f.get('key') and (v['key'] == f['key'] or v['key'].startswith(f['key']))) \
                    or (f.get('key_contains') and f['key_contains'] in v['key']):
                if f.get('witness_sha') and v.get('input') is not None:
                    pass
                hit = f
                break
        if hit:
            rep.known.append({'finding': hit['id'], 'key': v['key'], 'what': hit['what']})
        else:
            unknown_viol.append(v)
    printed = set()
    for k in rep.known:
        if k['finding'] not in printed:
            printed.add(k['finding'])
            lines.append('KNOWN-FINDING: property=%s %s' % (pid, k['what']))
    for v in unknown_viol:
        lines.append('VIOLATION property=%s replay=%s%s' % (
            pid, v['replay'], ' no-failing-input-found' if v.get('noinput') else ''))
    for u in rep.undecided:
        lines.append('UNDECIDED property=%s obligation=%s (%s)' % (pid, u['obligation'], u['why']))
    for e in rep.errors:
        lines.append('CHECKER-ERROR property=%s %s' % (pid, e.strip().splitlines()[-1] if e.strip() else e))
    if rep.errors:
        code = 3
    elif unknown_viol:
        code = 1
    elif rep.undecided:
        code = 2
    else:
        code = 0
    if unknown_viol:
        code = 1
    write_evidence(rep, mod, len(unknown_viol))
    return code, lines


def write_evidence(rep, mod, nviol):
    meta = getattr(mod, 'META', {})
    level = meta.get('level', 'other')
    cov = {
        'obligations': rep.obligations, 'discharged': rep.discharged,
        'checker_cmd': './check %s --tier %s' % (rep.pid, rep.tier),
        'trusted_base': sorted(set(rep.trusted + meta.get('trusted_base', []) +
                                   ['pyvc VC generator (this repository, unverified)',
                                    'z3 5.1.0 / cvc5 1.4.0',
                                    'python ints are mathematical integers (exact)'] +
                                   ['library axiom: ' + a for a in sorted(builtins_sym.USED_AXIOMS)])),
        'functions_under_contract': rep.functions,
        'by_backend': {k: {'count': v['count'], 'seconds': round(v['seconds'], 3)}
                       for k, v in rep.by_backend.items()},
        'bounded': rep.bounded,
        'facts': rep.facts,
        'undecided': rep.undecided,
        'known_findings_reproduced': rep.known,
        'extraction_drops': sorted(set(rep.drops)),
        'samples': rep.samples or [{'note': 'no non-trivial obligation'}],
        'explanation': meta.get('explanation', ''),
        'evaluations': rep.obligations + sum(b.get('cases', 0) for b in rep.bounded),
        'distinct_nontrivial': sum(v['count'] for k, v in rep.by_backend.items() if k != 'trivial')
        + sum(b.get('distinct_nontrivial', 0) for b in rep.bounded),
        'rule': 'deductive: one obligation per (contract clause, execution path), non-trivial when '
                'a solver call was needed (not discharged by constant folding); bounded stand-ins: '
                'see their own rule',
    }
    ev = {
        'property_id': rep.pid, 'tier': rep.tier, 'seed': rep.seed, 'level': level,
        'coverage': cov, 'assumptions': meta.get('assumptions', []),
        'wall_s': round(time.time() - rep.t0, 2), 'violations': nviol,
    }
    evdir = os.environ.get('PYVC_EVIDENCE_DIR') or os.path.join(ROOT, 'evidence')
    os.makedirs(evdir, exist_ok=True)
    with open(os.path.join(evdir, '%s.json' % rep.pid), 'w') as f:
        json.dump(ev, f, indent=1, default=str)


def do_replay(pid, path):
    mod = importlib.import_module('specs.%s' % pid.lower())
    with open(path) as f:
        data = json.load(f)
    if hasattr(mod, 'replay_file'):
        res = mod.replay_file(data)
    else:
        env = mod.base_env()
        res = None
        for c in mod.contracts(env):
            if data.get('obligation', '').startswith(c.label) and c.replay and data.get('input'):
                res = c.replay(data['input'])
    print(json.dumps(res, indent=1, default=str))
    if res is None:
        return 2
    return 0 if res.get('ok', True) else 1


def main(argv=None):
    import logging
    logging.disable(logging.CRITICAL)
    ap = argparse.ArgumentParser()
    ap.add_argument('pid')
    ap.add_argument('--tier', default=os.environ.get('VERIF_TIER', 'quick'))
    ap.add_argument('--replay')
    ap.add_argument('--write-lock', action='store_true')
    a = ap.parse_args(argv)
    seed = int(os.environ.get('VERIF_SEED', '0') or 0)
    if a.replay:
        return do_replay(a.pid, a.replay)
    rep, mod = run_property(a.pid, a.tier, seed)
    code, lines = finish(rep, mod)
    for ln in lines:
        print(ln)
    print('%s tier=%s obligations=%d discharged=%d bounded_cases=%d undecided=%d violations=%d wall=%.1fs exit=%d'
          % (a.pid, a.tier, rep.obligations, rep.discharged,
             sum(b.get('cases', 0) for b in rep.bounded), len(rep.undecided),
             sum(1 for ln in lines if ln.startswith('VIOLATION')), time.time() - rep.t0, code))
    if a.write_lock and code == 0:
        lock = load_lock()
        lock[a.pid] = {f['function']: f.get('obligation_names', []) for f in rep.functions}
        with open(LOCK_FILE, 'w') as f:
            json.dump(lock, f, indent=1, sort_keys=True)
    return code


if __name__ == '__main__':
    sys.exit(main())
