"""Path explorer + obligation discharge for one function under contract."""
from __future__ import annotations

import hashlib
import time
import traceback

from . import smt, solvers
from .smt import INT, BOOL, STR, REF
from .values import *  # noqa
from .interp import Machine, TargetExc, PathEnd, NeedFork, function_node
from .interp_call import Outcome

MAX_PATHS = 4000
SEQ_K = 5


class Explorer:
    def __init__(self):
        self.work = [[]]

    def push(self, script):
        self.work.append(script)


class FnResult:
    def __init__(self, target):
        self.target = target
        self.status = 'ok'            # ok / unsupported / error
        self.detail = ''
        self.paths = 0
        self.obligations = []         # dicts
        self.covers = {}              # label -> feasible?
        self.missing_covers = []
        self.drops = []
        self.touched = {}
        self.wall = 0.0
        self.src = None


def outcome_label(out):
    if out is None:
        return 'cut'
    if out.exc is None:
        return 'return'
    return 'raise:' + getattr(out.exc.cls, '__name__', '?')


def _model_outputs(m):
    """Terms whose model values describe the failing input."""
    outs = {}
    for name, t in m.inputs.items():
        s = t.sort
        if s in (INT, BOOL, STR) or s in ('(Set String)', '(Set Int)', '(Seq Int)', '(Seq String)',
                                         '(Seq Bool)'):
            outs[name] = t
        elif s == '(Seq Ref)':
            outs[name + '.len'] = smt.SeqLen(t)
            cls = m.seq_classes.get(name)
            if cls:
                for fname, fty in m.env.classes[cls]['fields'].items():
                    pt = parse_type(fty)
                    inner = pt[1] if pt[0] == 'opt' else pt
                    try:
                        fs = type_sort(inner, m.env.classes)
                    except Unsupported:
                        continue
                    if fs not in (INT, BOOL, STR):
                        continue
                    for k in range(SEQ_K):
                        e = smt.SeqNth(t, smt.IntC(k))
                        outs['%s[%d].%s' % (name, k, fname)] = smt.App('%s.%s' % (cls, fname), [e], fs)
                        if pt[0] == 'opt':
                            outs['%s[%d].%s?none' % (name, k, fname)] = \
                                smt.App('%s.%s?none' % (cls, fname), [e], BOOL)
    outs.update(m.extra_outputs)
    return outs


def run_path(env, contract, script, explorer, prune=True):
    m = Machine(env, script, explorer, prune=prune)
    env.current_target = contract.kernel or contract.fn
    args = {}
    for pname, ty in contract.args.items():
        v = m.fresh(pname, ty)
        args[pname] = v
        pt = parse_type(ty)
        if pt[0] == 'seq' and pt[1][0] in env.classes:
            m.seq_classes[pname] = pt[1][0]
    out = None
    status = 'ok'
    saved_env = {k: getattr(env, k) for k in contract.overrides}
    for k, v in contract.overrides.items():
        setattr(env, k, v)
    try:
        for lem in contract.lemmas:
            x = smt.fresh_bound('s', STR)
            m.pure += 1
            try:
                body = m.truth(m.interpret_function(lem, [SStr(x)], {}))
            finally:
                m.pure -= 1
            m.assume(smt.ForAll([x], body))
        if contract.setup is not None:
            contract.setup(m, args)
        if contract.requires is not None:
            m.assume(m.truth(m.call_spec(contract.requires, args, None)))
        m.old_heap = {k: (dict(v) if isinstance(v, dict) else v) for k, v in m.heap.items()}
        m.old_ghost = dict(m.ghost)
        node = function_node(contract.fn)
        pos = [a.arg for a in node.args.args]
        call_args = [args[p] for p in pos if p in args]
        try:
            val = m.interpret_function(contract.fn, call_args, {})
            out = Outcome(value=val)
        except TargetExc as te:
            out = Outcome(exc=te.exc)
        ns = dict(args)
        ns['out'] = out
        for cname, ens in contract.ensures:
            t = m.truth(m.call_spec(ens, ns, None))
            m.oblige('post/%s' % cname, 'post', t, outcome_label(out))
    except PathEnd as pe:
        status = 'cut:' + pe.why
        out = None
    finally:
        for k, v in saved_env.items():
            setattr(env, k, v)
    return m, out, status


def verify_function(env, contract, budget_ms=10000, prune=True, log=None):
    t0 = time.time()
    res = FnResult(contract.label)
    ex = Explorer()
    paths = []
    try:
        while ex.work:
            script = ex.work.pop()
            m, out, status = run_path(env, contract, script, ex, prune)
            paths.append((m, out, status))
            if len(paths) > MAX_PATHS:
                raise Unsupported('more than %d paths' % MAX_PATHS)
    except Unsupported as e:
        res.status = 'unsupported'
        res.detail = str(e)
        res.wall = time.time() - t0
        return res
    except Exception as e:  # engine bug: never a violation
        res.status = 'error'
        res.detail = '%s\n%s' % (e, traceback.format_exc())
        res.wall = time.time() - t0
        return res
    res.paths = len(paths)
    res.touched = dict(env.touched)
    drops = set()
    # build jobs
    jobs, meta, seen = [], [], {}
    for pi, (m, out, status) in enumerate(paths):
        drops.update(m.drops)
        for ob in m.obligations:
            name = '%s@p%d' % (ob.name, pi)
            if smt.is_true(ob.goal):
                res.obligations.append(dict(name=name, kind=ob.kind, answer='unsat', backend='trivial',
                                            time=0.0, path=pi, where=ob.where))
                continue
            assertions = list(ob.pc) + [smt.Not(ob.goal)]
            key = hashlib.sha1(smt.script(assertions, 'cvc5').encode()).hexdigest()
            if key in seen:
                meta.append((name, ob, pi, seen[key], m))
                continue
            seen[key] = len(jobs)
            jobs.append(solvers.make_job(name, assertions, None, budget_ms, interp=getattr(env, 'interp', None)))
            meta.append((name, ob, pi, seen[key], m))
    # path feasibility (covers)
    cov_jobs = []
    for pi, (m, out, status) in enumerate(paths):
        cj = solvers.make_job('cover@p%d' % pi, list(m.pc), None, 1500)
        cj['fast'] = True
        cov_jobs.append(cj)
    answers = solvers.solve_many(jobs + cov_jobs)
    ob_answers, cov_answers = answers[:len(jobs)], answers[len(jobs):]
    # second pass: models for refuted obligations
    need_model = {}
    for name, ob, pi, ji, m in meta:
        if ob_answers[ji]['answer'] == 'sat' and ji not in need_model:
            outs = _model_outputs(m)
            need_model[ji] = solvers.make_job(name, list(ob.pc) + [smt.Not(ob.goal)], outs, budget_ms)
    if need_model:
        keys = list(need_model)
        mres = solvers.solve_many([need_model[k] for k in keys])
        for k, r in zip(keys, mres):
            if r.get('answer') == 'sat':
                ob_answers[k]['model'] = r.get('model', {})
                ob_answers[k]['smt2'] = need_model[k]['cvc5_text']
    for name, ob, pi, ji, m in meta:
        a = ob_answers[ji]
        d = dict(name=name, kind=ob.kind, answer=a['answer'], backend=a.get('backend'),
                 time=a.get('time'), path=pi, where=ob.where, detail=a.get('detail'),
                 attempts=a.get('attempts'))
        if a['answer'] == 'sat':
            d['model'] = a.get('model')
            d['smt2'] = a.get('smt2') or jobs[ji]['cvc5_text']
        elif a['answer'] != 'unsat':
            d['smt2'] = jobs[ji]['cvc5_text']
            d['z3_smt2'] = jobs[ji].get('z3_text')
        res.obligations.append(d)
    for pi, ((m, out, status), a) in enumerate(zip(paths, cov_answers)):
        lab = outcome_label(out) if out is not None else status.split(':')[0]
        feasible = a['answer'] != 'unsat'
        res.covers[lab] = res.covers.get(lab, False) or feasible
    res.missing_covers = [c for c in contract.covers if not res.covers.get(c)]
    res.drops = sorted(drops)
    try:
        import inspect
        res.src = '%s:%d' % (contract.fn.__code__.co_filename, contract.fn.__code__.co_firstlineno)
    except Exception:
        pass
    res.wall = time.time() - t0
    return res
