"""Translation of python `re` patterns (parsed by CPython's own re._parser) to
SMT-LIB regular expressions.

Semantics assumed (stated in the evidence): subject strings are ASCII without
newline unless `ascii_only=False`; \\d \\w \\s are the ASCII classes; no flags;
`^` only at the start and `$` only at the end of the pattern (checked);
conditional groups (?(name)yes|no) are expanded into the two alternatives they
stand for; backreferences, lookaround are unsupported.
"""
from __future__ import annotations

import re
try:
    import re._parser as sre_parse
    import re._constants as sre_c
except ImportError:  # pragma: no cover
    import sre_parse
    import sre_constants as sre_c

from . import smt
from .values import Unsupported

DIGIT = smt.ReRange('0', '9')
WORD = smt.ReUnion(smt.ReRange('a', 'z'), smt.ReRange('A', 'Z'), DIGIT, smt.ReStr(smt.StrC('_')))
SPACE = smt.ReUnion(*[smt.ReStr(smt.StrC(c)) for c in ' \t\n\r\x0b\x0c'])
# any char except newline (python '.'): we approximate the alphabet by code points <= 0x2FFFF
NL_OPT = smt.ReOpt(smt.ReStr(smt.StrC('\n')))
ANYCHAR_NO_NL = smt.ReInter(smt.ReAllChar(), smt.ReComp(smt.ReStr(smt.StrC('\n'))))


def _cat(code):
    if code == sre_c.CATEGORY_DIGIT:
        return DIGIT
    if code == sre_c.CATEGORY_WORD:
        return WORD
    if code == sre_c.CATEGORY_SPACE:
        return SPACE
    if code == sre_c.CATEGORY_NOT_DIGIT:
        return smt.ReInter(smt.ReAllChar(), smt.ReComp(DIGIT))
    if code == sre_c.CATEGORY_NOT_WORD:
        return smt.ReInter(smt.ReAllChar(), smt.ReComp(WORD))
    if code == sre_c.CATEGORY_NOT_SPACE:
        return smt.ReInter(smt.ReAllChar(), smt.ReComp(SPACE))
    raise Unsupported('regex category %r' % (code,))


def _chr(c):
    return smt.ReStr(smt.StrC(chr(c)))


class Translator:
    def __init__(self, pattern):
        self.pattern = pattern
        self.parsed = sre_parse.parse(pattern)
        self.group_defined = {}     # group number -> forced True/False during expansion
        self.anchored_start = False
        self.anchored_end = False

    def top(self):
        items = list(self.parsed)
        # anchors
        if items and items[0][0] == sre_c.AT and items[0][1] in (sre_c.AT_BEGINNING, sre_c.AT_BEGINNING_STRING):
            self.anchored_start = True
            items = items[1:]
        if items and items[-1][0] == sre_c.AT and items[-1][1] in (sre_c.AT_END, sre_c.AT_END_STRING):
            self.anchored_end = True
            items = items[:-1]
        return self.seq(items, {})

    def alternatives_top(self):
        """Top-level: a pattern may be an alternation of separately anchored
        branches ('^a$|^b$')."""
        items = list(self.parsed)
        if len(items) == 1 and items[0][0] == sre_c.BRANCH:
            outs = []
            for br in items[0][1][1]:
                t = Translator.__new__(Translator)
                t.pattern, t.parsed, t.group_defined = self.pattern, br, {}
                t.anchored_start = t.anchored_end = False
                r = t.top()
                outs.append((r, t.anchored_start, t.anchored_end))
            return outs
        r = self.top()
        return [(r, self.anchored_start, self.anchored_end)]

    def seq(self, items, ctx):
        """ctx: which optional groups are assumed present/absent (for
        conditional groups).  Returns RegLan term."""
        parts = []
        items = list(items)
        for idx, (op, av) in enumerate(items):
            if op == sre_c.AT:
                raise Unsupported('regex anchor inside pattern: %r' % self.pattern)
            parts.append(self.item(op, av, ctx, items[idx + 1:]))
        if not parts:
            return smt.ReStr(smt.StrC(''))
        return smt.ReConcat(*parts)

    def item(self, op, av, ctx, rest):
        if op == sre_c.LITERAL:
            return _chr(av)
        if op == sre_c.NOT_LITERAL:
            return smt.ReInter(smt.ReAllChar(), smt.ReComp(_chr(av)))
        if op == sre_c.ANY:
            return ANYCHAR_NO_NL
        if op == sre_c.IN:
            return self.charset(av)
        if op == sre_c.BRANCH:
            return smt.ReUnion(*[self.seq(b, ctx) for b in av[1]])
        if op == sre_c.SUBPATTERN:
            group, add, dele, sub = av
            if add or dele:
                raise Unsupported('inline regex flags')
            if group is not None and group in ctx:
                if not ctx[group]:
                    raise _Absent()
            return self.seq(sub, ctx)
        if op in (sre_c.MAX_REPEAT, sre_c.MIN_REPEAT):
            lo, hi, sub = av
            # optional group that a later conditional refers to: handled by the caller via ctx
            try:
                inner = self.seq(sub, ctx)
            except _Absent:
                if lo == 0:
                    return smt.ReStr(smt.StrC(''))
                raise
            if self._forced_present(sub, ctx):
                lo = max(lo, 1)
            if lo == 0 and hi == sre_c.MAXREPEAT:
                return smt.ReStar(inner)
            if lo == 1 and hi == sre_c.MAXREPEAT:
                return smt.RePlus(inner)
            if lo == 0 and hi == 1:
                return smt.ReOpt(inner)
            if hi == sre_c.MAXREPEAT:
                return smt.ReConcat(smt.ReLoop(inner, lo, lo), smt.ReStar(inner))
            return smt.ReLoop(inner, lo, hi)
        if op == sre_c.GROUPREF_EXISTS:
            group, yes, no = av
            if group not in ctx:
                raise _NeedCtx(group)
            return self.seq(yes if ctx[group] else (no or []), ctx)
        raise Unsupported('regex construct %s in %r' % (op, self.pattern))

    def _forced_present(self, sub, ctx):
        for op, av in sub:
            if op == sre_c.SUBPATTERN and av[0] is not None and ctx.get(av[0]) is True:
                return True
        return False

    def charset(self, av):
        neg = False
        parts = []
        for op, a in av:
            if op == sre_c.NEGATE:
                neg = True
            elif op == sre_c.LITERAL:
                parts.append(_chr(a))
            elif op == sre_c.RANGE:
                parts.append(smt.ReRange(chr(a[0]), chr(a[1])))
            elif op == sre_c.CATEGORY:
                parts.append(_cat(a))
            else:
                raise Unsupported('regex charset item %s' % (op,))
        r = smt.ReUnion(*parts)
        if neg:
            return smt.ReInter(smt.ReAllChar(), smt.ReComp(r))
        return r


class _Absent(Exception):
    pass


class _NeedCtx(Exception):
    def __init__(self, group):
        self.group = group


def _expand(tr, items_fn):
    """Handle conditional groups by case split on the referenced groups."""
    ctxs = [{}]
    while True:
        try:
            outs = []
            for ctx in ctxs:
                outs.append(items_fn(ctx))
            return outs
        except _NeedCtx as e:
            g = e.group
            new = []
            for ctx in ctxs:
                if g in ctx:
                    new.append(ctx)
                else:
                    a, b = dict(ctx), dict(ctx)
                    a[g], b[g] = True, False
                    new.extend([a, b])
            if new == ctxs:
                raise Unsupported('conditional group expansion')
            ctxs = new


def match_language(pattern, mode='match'):
    """RegLan term for { s | re.<mode>(pattern, s) is not None } where mode is
    'match' (anchored at start) or 'fullmatch' or 'search'.
    `$` = end of string (subjects contain no newline, see module doc)."""
    tr = Translator(pattern)
    alts = []
    for parsed_alt in _top_alternatives(tr):
        t = Translator.__new__(Translator)
        t.pattern, t.parsed, t.group_defined = pattern, parsed_alt, {}
        t.anchored_start = t.anchored_end = False
        t.dollar = False

        def build(ctx, t=t):
            t.anchored_start = t.anchored_end = False
            t.dollar = False
            items = list(t.parsed)
            if items and items[0][0] == sre_c.AT and items[0][1] in (sre_c.AT_BEGINNING, sre_c.AT_BEGINNING_STRING):
                t.anchored_start = True
                items = items[1:]
            if items and items[-1][0] == sre_c.AT and items[-1][1] in (sre_c.AT_END, sre_c.AT_END_STRING):
                t.anchored_end = True
                t.dollar = items[-1][1] == sre_c.AT_END
                items = items[:-1]
            elif items and items[-1][0] == sre_c.BRANCH and mode != 'fullmatch':
                # '^(a$|b$|c)' as produced by the parser's prefix factoring of '^a$|^b$|^c':
                # each alternative carries its own end condition
                brs = [list(b) for b in items[-1][1][1]]
                ends = [bool(b) and b[-1][0] == sre_c.AT and b[-1][1] in (sre_c.AT_END, sre_c.AT_END_STRING)
                        for b in brs]
                if any(ends):
                    t.anchored_end = True
                    head = t.seq(items[:-1], ctx)
                    alts2 = []
                    for b, e in zip(brs, ends):
                        body = t.seq(b[:-1] if e else b, ctx)
                        if e and b[-1][1] == sre_c.AT_END:
                            body = smt.ReConcat(body, NL_OPT)     # `$` also matches before a final newline
                        alts2.append(body if e else smt.ReConcat(body, smt.ReAll()))
                    return smt.ReConcat(head, smt.ReUnion(*alts2))
            return t.seq(items, ctx)
        bodies = _expand(t, build)
        body = smt.ReUnion(*bodies)
        pre = smt.ReStr(smt.StrC('')) if (t.anchored_start or mode in ('match', 'fullmatch')) else smt.ReAll()
        post = smt.ReStr(smt.StrC('')) if (t.anchored_end or mode == 'fullmatch') else smt.ReAll()
        if getattr(t, 'dollar', False) and mode != 'fullmatch':
            post = NL_OPT
        alts.append(smt.ReConcat(pre, body, post) if True else body)
    return smt.ReUnion(*alts)


def _top_alternatives(tr):
    items = list(tr.parsed)
    if len(items) == 1 and items[0][0] == sre_c.BRANCH:
        return [list(b) for b in items[0][1][1]]
    return [items]


def check_translation(pattern, samples, mode='match'):
    """Cross-check the translation against CPython's re on sample strings
    (used by the self-test): returns list of disagreeing samples."""
    from . import solvers
    lang = match_language(pattern, mode)
    bad = []
    jobs = []
    for s in samples:
        jobs.append(solvers.make_job('re', [smt.StrInRe(smt.StrC(s), lang)], None, 5000))
    res = solvers.solve_many(jobs)
    f = {'match': re.match, 'fullmatch': re.fullmatch, 'search': re.search}[mode]
    for s, r in zip(samples, res):
        py = f(pattern, s) is not None
        smt_ans = r['answer'] == 'sat'
        if r['answer'] not in ('sat', 'unsat') or py != smt_ans:
            bad.append((s, py, r['answer']))
    return bad


def membership(I, pattern, s_term, mode='match'):
    """Bool term for `re.<mode>(pattern, s)` succeeding; an uninterpreted predicate per pattern when
    the environment abstracts regular expressions (their relations are then supplied as lemmas)."""
    if getattr(I.env, 'abstract_regex', False):
        return smt.App('re:%s:%s' % (mode, pattern), [s_term], smt.BOOL)
    return smt.StrInRe(s_term, match_language(pattern, mode))
