"""Specification environment: schemas, contracts, trusted models, inline rules."""
from __future__ import annotations

import importlib
import sys
import types

REPO = '/repo'
if REPO not in sys.path:
    sys.path.insert(0, REPO)


def resolve(path):
    """'pkg.mod:Qual.name' -> object"""
    mod, _, qual = path.partition(':')
    o = importlib.import_module(mod)
    for part in qual.split('.') if qual else []:
        o = getattr(o, part) if not isinstance(o, type) else \
            (o.__dict__[part] if part in o.__dict__ else getattr(o, part))
        if isinstance(o, (staticmethod, classmethod)):
            o = o.__func__
        if isinstance(o, property):
            o = o.fget
    return o


class Contract:
    """Contract of one real function.

    target   : 'module:qualname'
    args     : {param: type string} - how symbolic arguments are created
    requires : spec function over the parameters (by name) -> bool
    ensures  : list of (clause name, spec function over parameters + `out`)
    outcomes : for use at call sites: 'return' and/or exception classes
    returns  : type string of the result (call sites)
    effect   : python callable(interp, locals, outcome) applying the frame (call sites)
    """

    def __init__(self, target, args=None, requires=None, ensures=(), outcomes=None,
                 returns=None, effect=None, result=None, setup=None, covers=None,
                 inputs_of=None, replay=None, note='', label=None,
                 outputs=None, lemmas=(), overrides=None, exc_fields=None, pure=False,
                 kernel=None):
        self.target = target
        self.fn = resolve(target)
        self.args = dict(args or {})
        self.requires = requires
        self.ensures = list(ensures)
        self.outcomes = outcomes
        self.returns = returns
        self.effect = effect
        self.result = result
        self.setup = setup          # callable(interp, argvalues) run before requires
        self.covers = covers or []  # outcome labels that must be reachable
        self.replay = replay        # callable(model) -> dict(ok=bool, ...): native replay
        self.note = note
        self.label = label or target
        self.lemmas = list(lemmas)     # spec functions f(x: str) assumed as forall x. f(x)
        self.kernel = resolve(kernel) if isinstance(kernel, str) else kernel   # real function a driver wraps
        self.pure = pure              # deterministic, effect-free: usable under quantifiers at call sites
        self.exc_fields = dict(exc_fields or {})   # exception class -> {field: type} (call sites)
        self.overrides = dict(overrides or {})   # env attributes set while verifying this contract


class Env:
    def __init__(self):
        self.classes = {}
        self.contracts = {}         # function object -> Contract
        self.fn_models = {}         # function object -> callable(interp, *args)
        self.methods = {}           # (schema, name) -> callable(interp, self, *args)
        self.ctors = {}             # class -> callable(interp, cls, *args)
        self.inline = set()         # function objects that may be interpreted at call sites
        self.inline_modules = set()
        self.constructible = set()
        self.loops = {}             # (qualname, ordinal) -> dict(inv=fn, types=..)
        self.intrinsics = {}
        self.keep_logs = False
        self.fork_boolops = False
        self.exc_str = None
        self.print_hook = None
        self.replace_hook = None
        self.isinstance_hook = None
        self.str_models = {}
        self.native = set()
        self.current_target = None
        self.touched = {}
        self.trusted = []           # human readable list of assumed contracts
        self.exc_types = {}         # name -> exception class, for variables holding an exception object
        self.yield_specs = {}       # generator qualname -> spec(elem, index, <locals>) checked at every yield
        self.ref_attr_hooks = {}    # (ref class, attr) -> fn(interp, ref) -> value
        self.ref_methods = {}       # (ref class, method) -> real function interpreted with self = the ref
        self.object_hooks = []      # callables real_object -> schema name or None (e.g. loggers)
        self.site_hooks = {}        # (caller qualname, callee name) -> spec fn over the caller's locals
        self.abstract_regex = False  # regex membership as uninterpreted predicates (+ lemmas)
        self.abstract_sets = set()  # names of seq inputs only ever used through set(...)
        self.object_models = {}     # id(real module-level object) -> schema name
        self.attr_models = {}       # (schema, attr) -> ModelMethod evaluated on attribute read

    # -- registration helpers
    def add_class(self, name, kind='obj', pyclass=None, fields=None, closed=False, **kw):
        self.classes[name] = dict(kw, kind=kind, pyclass=resolve(pyclass) if isinstance(pyclass, str) else pyclass,
                                  fields=dict(fields or {}), closed=closed)

    def add_contract(self, c):
        self.contracts[c.fn] = c
        return c

    def model(self, schema, name, trusted=None):
        def deco(fn):
            from .values import ModelMethod
            self.methods[(schema, name)] = ModelMethod(fn, '%s.%s' % (schema, name))
            if trusted:
                self.trusted.append('%s.%s: %s' % (schema, name, trusted))
            return fn
        return deco

    def fn_model(self, target, trusted=None):
        def deco(fn):
            f = resolve(target) if isinstance(target, str) else target
            self.fn_models[f] = fn
            if trusted:
                self.trusted.append('%s: %s' % (target if isinstance(target, str) else f, trusted))
            return fn
        return deco

    def allow_inline(self, *targets):
        for t in targets:
            self.inline.add(resolve(t) if isinstance(t, str) else t)

    def loop(self, qualname, ordinal, inv, **kw):
        d = dict(inv=inv)
        d.update(kw)
        self.loops[(qualname, ordinal)] = d

    # -- queries from the interpreter
    def loop_spec(self, qualname, ordinal):
        return self.loops.get((qualname, ordinal))

    def model_for(self, schema, name):
        return self.methods.get((schema, name))

    def intrinsic_of(self, f):
        return self.intrinsics.get(f)

    def may_inline(self, f):
        if f in self.inline:
            return True
        mod = getattr(f, '__module__', '') or ''
        if mod.startswith('specs') or mod.startswith('pyvc'):
            return True
        return mod in self.inline_modules

    def may_construct(self, cls):
        return cls in self.constructible

    def schema_of_class(self, cls):
        for name, sch in self.classes.items():
            if sch.get('pyclass') is cls:
                return name
        return None

    def native_ok(self, f):
        return f in self.native
