"""Expressions."""
from __future__ import annotations

import ast
import builtins as _bi
import types

from . import smt
from .smt import INT, BOOL, STR, REF
from .values import *  # noqa
from .interp import (TargetExc, ReturnEx, BreakEx, ContinueEx, PathEnd, NeedFork,
                     Frame, Cell)


class ExprMixin:
    def eval(self, node, fr):
        m = getattr(self, 'ex_' + type(node).__name__, None)
        if m is None:
            raise Unsupported('expression %s at line %s' % (type(node).__name__,
                                                          getattr(node, 'lineno', '?')))
        return m(node, fr)

    def eval_pure(self, node, fr):
        self.pure += 1
        try:
            return self.eval(node, fr)
        finally:
            self.pure -= 1

    # -- atoms
    def ex_Constant(self, node, fr):
        return node.value

    def ex_Name(self, node, fr):
        name = node.id
        f = fr
        while f is not None:
            if name in f.locals:
                v = f.locals[name]
                return v.v if isinstance(v, Cell) else v
            f = f.parent
        if name in fr.globals:
            v = fr.globals[name]
            if self.env.object_models:
                sch = self.env.object_models.get(id(v))
                if sch is not None:
                    return self.global_object(sch)
            for h in self.env.object_hooks:
                sch = h(v)
                if sch is not None:
                    return self.global_object(sch)
            return v
        if hasattr(_bi, name):
            return getattr(_bi, name)
        raise TargetExc(self.make_exception(NameError, [name], {}))

    def ex_Tuple(self, node, fr):
        out = []
        for e in node.elts:
            if isinstance(e, ast.Starred):
                out.extend(self.need_items(self.eval(e.value, fr)))
            else:
                out.append(self.eval(e, fr))
        return tuple(out)

    def ex_List(self, node, fr):
        return self.alloc_list(self.ex_Tuple(node, fr))

    def ex_Set(self, node, fr):
        items = self.ex_Tuple(node, fr)
        return self.make_set(items)

    def make_set(self, items, ety=None):
        if not items and ety is None:
            raise Unsupported('empty set display without element type')
        items = [self.force_some(x) for x in items]
        ety = ety or self.type_of_value(items[0])
        es = type_sort(ety, self.env.classes)
        t = smt.SetEmpty(es)
        for x in items:
            t = smt.SetUnion(t, smt.SetSingleton(self.term_of(x)))
        return self.alloc_set(SSetV(t, ety))

    def ex_Dict(self, node, fr):
        d = {}
        for k, v in zip(node.keys, node.values):
            if k is None:
                src = self.eval(v, fr)
                p = self.heap[src.oid] if isinstance(src, MDict) else src
                if not isinstance(p, dict):
                    raise Unsupported('** of symbolic dict')
                d.update(p)
            else:
                kk = self.eval(k, fr)
                if isinstance(kk, SV):
                    raise Unsupported('dict display with symbolic key')
                d[kk] = self.eval(v, fr)
        return self.alloc_dict(d)

    def ex_JoinedStr(self, node, fr):
        parts = []
        for v in node.values:
            if isinstance(v, ast.Constant):
                parts.append(v.value)
            else:
                x = self.eval(v.value, fr)
                parts.append(self.to_str(x))
        return self.str_concat(parts)

    def ex_Lambda(self, node, fr):
        return self.make_closure(node, fr)

    def ex_Starred(self, node, fr):
        raise Unsupported('starred expression here')

    # -- operators
    def ex_BoolOp(self, node, fr):
        is_and = isinstance(node.op, ast.And)
        cur = self.eval(node.values[0], fr)
        for nxt in node.values[1:]:
            tc = self.truth(cur)
            if smt.is_true(tc) or smt.is_false(tc):
                take_next = smt.is_true(tc) if is_and else smt.is_false(tc)
                if take_next:
                    cur = self.eval(nxt, fr)
                continue
            # symbolic: try to merge without forking
            merged = None
            if not self.env.fork_boolops:
                saved = (list(self.pc), self.pos, len(self.obligations))
                try:
                    self.pure += 1
                    try:
                        # the right operand is evaluated under the guard
                        guard = tc if is_and else smt.Not(tc)
                        self.pc.append(guard)
                        nv = self.eval(nxt, fr)
                    finally:
                        self.pure -= 1
                        # drop the guard only: definitions of fresh symbols made while
                        # evaluating the operand stay (conservative extensions)
                        del self.pc[len(saved[0])]
                    if isinstance(cur, (bool, SBool)) and isinstance(nv, (bool, SBool)):
                        # booleans: a and b == a /\ b (not ite(a, b, a), which doubles the term)
                        tn = self.truth(nv)
                        merged = self.as_bool_value(smt.And(tc, tn) if is_and else smt.Or(tc, tn))
                    else:
                        merged = self.ite_val(tc, nv, cur) if is_and else self.ite_val(tc, cur, nv)
                except NeedFork:
                    merged = None
                except TargetExc:
                    merged = None
            if merged is not None:
                cur = merged
                continue
            if self.choose(tc):
                if is_and:
                    cur = self.eval(nxt, fr)
            else:
                if not is_and:
                    cur = self.eval(nxt, fr)
        return cur

    def ex_UnaryOp(self, node, fr):
        v = self.eval(node.operand, fr)
        if isinstance(node.op, ast.Not):
            return self.as_bool_value(smt.Not(self.truth(v)))
        if isinstance(node.op, ast.USub):
            if isinstance(v, SInt):
                return SInt(smt.Neg(v.t))
            return -v
        raise Unsupported('unary op')

    def ex_IfExp(self, node, fr):
        c = self.truth(self.eval(node.test, fr))
        if smt.is_true(c) or self.known(c):
            return self.eval(node.body, fr)
        if smt.is_false(c) or self.known(smt.Not(c)):
            return self.eval(node.orelse, fr)
        try:
            self.pure += 1
            try:
                k = len(self.pc)
                self.pc.append(c)
                try:
                    a = self.eval(node.body, fr)
                finally:
                    del self.pc[k]
                k = len(self.pc)
                self.pc.append(smt.Not(c))
                try:
                    b = self.eval(node.orelse, fr)
                finally:
                    del self.pc[k]
            finally:
                self.pure -= 1
            return self.ite_val(c, a, b)
        except (NeedFork, TargetExc):
            pass
        if self.choose(c):
            return self.eval(node.body, fr)
        return self.eval(node.orelse, fr)

    def ex_BinOp(self, node, fr):
        return self.binop(node.op, self.eval(node.left, fr), self.eval(node.right, fr))

    def binop(self, op, a, b):
        if isinstance(a, (MSet, SSetV)) or isinstance(b, (MSet, SSetV)):
            return self.alloc_set(self.set_binop(op, a, b))
        if isinstance(op, ast.Mod) and isinstance(a, (str, SStr)):
            return self.str_percent(a, b)
        if isinstance(a, SOpt) and isinstance(op, (ast.Add, ast.Sub, ast.Mult)):
            a = self.force_some(a)
        if isinstance(b, SOpt) and isinstance(op, (ast.Add, ast.Sub, ast.Mult)):
            b = self.force_some(b)
        sym = any(isinstance(x, SV) for x in (a, b))
        if not sym and not isinstance(a, (MList, Obj)) and not isinstance(b, (MList, Obj)):
            try:
                return _PYOPS[type(op)](a, b)
            except KeyError:
                raise Unsupported('binop %s' % type(op).__name__)
            except TypeError as e:
                raise TargetExc(self.make_exception(TypeError, [str(e)], {}))
        if isinstance(a, (str, SStr)) and isinstance(b, (str, SStr)) and isinstance(op, ast.Add):
            return self.str_concat([a, b])
        if isinstance(a, MList) and isinstance(b, MList) and isinstance(op, ast.Add):
            pa, pb = self.heap[a.oid], self.heap[b.oid]
            if isinstance(pa, tuple) and isinstance(pb, tuple):
                return self.alloc_list(pa + pb)
            sa, sb = self.seq_value(a), self.seq_value(b, like=None)
            return self.alloc_list(SSeqV(smt.SeqConcat(sa.t, sb.t), sa.ety))
        if isinstance(a, (bool, SBool)) and isinstance(b, (bool, SBool)):
            ta, tb = self.truth(a), self.truth(b)
            if isinstance(op, ast.BitOr):
                return self.as_bool_value(smt.Or(ta, tb))
            if isinstance(op, ast.BitAnd):
                return self.as_bool_value(smt.And(ta, tb))
        if self.is_intlike(a) and self.is_intlike(b):
            ta, tb = self.int_term(a), self.int_term(b)
            if isinstance(op, ast.Add):
                return SInt(smt.Add(ta, tb))
            if isinstance(op, ast.Sub):
                return SInt(smt.Sub(ta, tb))
            if isinstance(op, ast.Mult):
                return SInt(smt.Mul(ta, tb))
        if isinstance(op, (ast.BitOr, ast.BitAnd)) and (
                isinstance(a, (str, SStr)) or isinstance(b, (str, SStr))):
            raise TargetExc(self.make_exception(TypeError, ['unsupported operand type(s)'], {}))
        raise Unsupported('binop %s on %r, %r' % (type(op).__name__, a, b))

    def is_intlike(self, v):
        return isinstance(v, (int, SInt, SBool))

    def int_term(self, v):
        if isinstance(v, SBool):
            return smt.Ite(v.t, smt.IntC(1), smt.IntC(0))
        if isinstance(v, bool):
            return smt.IntC(int(v))
        return self.term_of(v)

    def set_value(self, v, like=None):
        if isinstance(v, MSet):
            return self.heap[v.oid]
        if isinstance(v, SSetV):
            return v
        if isinstance(v, (frozenset, set, tuple)) and like is not None:
            es = type_sort(like.ety, self.env.classes)
            t = smt.SetEmpty(es)
            for x in v:
                t = smt.SetUnion(t, smt.SetSingleton(self.term_of(x)))
            return SSetV(t, like.ety)
        raise Unsupported('not a set: %r' % (v,))

    def set_binop(self, op, a, b):
        sa = self.set_value(a) if isinstance(a, (MSet, SSetV)) else None
        sb = self.set_value(b, sa) if sa is not None else self.set_value(b)
        if sa is None:
            sa = self.set_value(a, sb)
        if isinstance(op, ast.Sub):
            return SSetV(smt.SetMinus(sa.t, sb.t), sa.ety)
        if isinstance(op, ast.BitOr):
            return SSetV(smt.SetUnion(sa.t, sb.t), sa.ety)
        if isinstance(op, ast.BitAnd):
            return SSetV(smt.SetInter(sa.t, sb.t), sa.ety)
        raise Unsupported('set op %s' % type(op).__name__)

    def ex_Compare(self, node, fr):
        left = self.eval(node.left, fr)
        result = None
        for op, rn in zip(node.ops, node.comparators):
            right = self.eval(rn, fr)
            t = self.compare(op, left, right)
            result = t if result is None else smt.And(result, t)
            left = right
        return self.as_bool_value(result)

    def compare(self, op, a, b):
        if isinstance(op, ast.Eq):
            return self.eq(a, b)
        if isinstance(op, ast.NotEq):
            return smt.Not(self.eq(a, b))
        if isinstance(op, ast.Is):
            return self.identical(a, b)
        if isinstance(op, ast.IsNot):
            return smt.Not(self.identical(a, b))
        if isinstance(op, ast.In):
            return self.contains(b, a)
        if isinstance(op, ast.NotIn):
            return smt.Not(self.contains(b, a))
        if isinstance(a, SOpt) or isinstance(b, SOpt):
            a, b = self.force_some(a), self.force_some(b)
        if self.is_intlike(a) and self.is_intlike(b):
            ta, tb = self.int_term(a), self.int_term(b)
            return {ast.Lt: smt.Lt, ast.LtE: smt.Le, ast.Gt: smt.Gt, ast.GtE: smt.Ge}[type(op)](ta, tb)
        if isinstance(a, SRef):
            name = {ast.Lt: '__lt__', ast.Gt: '__gt__', ast.LtE: '__le__', ast.GtE: '__ge__'}[type(op)]
            mm = self.env.model_for(a.cls, name)
            if mm is not None:
                return self.truth(self.call(BoundMeth(a, mm), [b], {}))
        if isinstance(a, Obj) or isinstance(b, Obj):
            name = {ast.Lt: '__lt__', ast.Gt: '__gt__', ast.LtE: '__le__', ast.GtE: '__ge__'}[type(op)]
            if isinstance(a, Obj):
                m = self.lookup_class_attr(a, name)
                if m is not None:
                    return self.truth(self.call(m, [b], {}))
            raise Unsupported('ordering comparison on objects (%s)' % name)
        if not isinstance(a, SV) and not isinstance(b, SV):
            return smt.BoolC(_PYCMP[type(op)](a, b))
        raise Unsupported('compare %s on %r, %r' % (type(op).__name__, a, b))

    def known(self, t):
        """t is syntactically among the current path facts"""
        k = t.key()
        for p in self.pc:
            if p.key() == k:
                return True
            if p.op == 'and' and any(q.key() == k for q in p.args):
                return True
        return False

    def force_some(self, v):
        """use an optional where python needs a real value: None raises TypeError"""
        if not isinstance(v, SOpt):
            return v
        ok = smt.Not(v.isnone)
        if not self.known(ok):
            self.require_safe(ok, lambda: self.make_exception(TypeError, ['NoneType operand'], {}), 'TypeError')
        return v.val

    def identical(self, a, b):
        if a is None or b is None or isinstance(a, SOpt) or isinstance(b, SOpt):
            if a is None and b is None:
                return smt.TRUE
            if a is None:
                return self.is_none(b)
            if b is None:
                return self.is_none(a)
            if isinstance(a, SOpt) and isinstance(b, SOpt):
                return smt.Or(smt.And(a.isnone, b.isnone),
                              smt.And(smt.Not(a.isnone), smt.Not(b.isnone), self.identical(a.val, b.val)))
            o, other = (a, b) if isinstance(a, SOpt) else (b, a)
            return smt.And(smt.Not(o.isnone), self.identical(o.val, other))
        if isinstance(a, (bool, SBool)) and isinstance(b, (bool, SBool)):
            return smt.Eq(self.truth(a), self.truth(b))
        if isinstance(a, SBool) or isinstance(b, SBool):
            return smt.FALSE
        for x in (a, b):
            if isinstance(x, (Obj, MList, MSet, MDict)):
                return smt.BoolC(type(a) is type(b) and a.oid == b.oid)
        if isinstance(a, SOpaque) and isinstance(b, SOpaque):
            return smt.Eq(a.t, b.t)
        if isinstance(a, SRef) and isinstance(b, SRef):
            return smt.Eq(a.t, b.t)
        if isinstance(a, (SSeqV, SSetV)) and type(a) is type(b):
            return smt.BoolC(a.t.key() == b.t.key())
        if isinstance(a, SOpaque) or isinstance(b, SOpaque):
            other = b if isinstance(a, SOpaque) else a
            if isinstance(other, (tuple, Obj, MList, MDict, MSet, str, int)):
                return smt.FALSE
        if isinstance(a, SV) or isinstance(b, SV):
            raise Unsupported('is on symbolic values')
        return smt.BoolC(a is b)

    def contains(self, container, x):
        c = container
        if isinstance(c, MSet):
            c = self.heap[c.oid]
        if isinstance(c, MList):
            c = self.heap[c.oid]
        if isinstance(c, MDict):
            c = self.heap[c.oid]
        if isinstance(x, SOpt) and isinstance(c, (SSetV, SMapV, SSeqV)):
            return smt.And(smt.Not(x.isnone), self.contains(c, x.val))
        if x is None and isinstance(c, (SSetV, SMapV, SSeqV)):
            return smt.FALSE
        if isinstance(c, SSetV):
            return smt.SetMember(self.term_of(x), c.t)
        if isinstance(c, SMapV):
            return smt.SetMember(self.term_of(x), c.dom)
        if isinstance(c, SSeqV):
            i = smt.fresh_bound('k', INT)
            rng = smt.And(smt.Le(smt.IntC(0), i), smt.Lt(i, smt.SeqLen(c.t)))
            ek = self.env.classes.get(c.ety[0], {}).get('eq_key')
            if ek is not None:
                # records compared by their user-defined __eq__, abstracted as a key
                e = self.value_of_sort(smt.SeqNth(c.t, i), c.ety)
                return smt.Exists([i], smt.And(rng, self.eq(self.get_attr(e, ek), self.get_attr(x, ek))))
            xt = self.term_of(x)
            return smt.Exists([i], smt.And(rng, smt.Eq(smt.SeqNth(c.t, i), xt)))
        if isinstance(c, (tuple, frozenset)):
            return smt.Or(*[self.eq(x, y) for y in c])
        if isinstance(c, dict):
            return smt.Or(*[self.eq(x, y) for y in c.keys()])
        if isinstance(c, (str, SStr)):
            return smt.StrContains(self.term_of(c), self.term_of(x))
        if isinstance(c, Obj):
            m = self.get_attr(c, '__contains__')
            return self.truth(self.call(m, [x], {}))
        if isinstance(c, (list, set)):
            return smt.Or(*[self.eq(x, y) for y in c])
        raise Unsupported('in on %r' % (container,))

    # -- attribute / subscript
    def ex_Attribute(self, node, fr):
        v = node.value
        if isinstance(v, ast.Call) and isinstance(v.func, ast.Name) and v.func.id == 'super' and not v.args:
            return self.super_attr(fr, node.attr)
        return self.get_attr(self.eval(node.value, fr), node.attr)

    def super_attr(self, fr, name):
        """zero-argument super().name inside a method interpreted from source"""
        fo = fr.fn_obj
        if fo is None or '.' not in fo.__qualname__:
            raise Unsupported('super() outside a method')
        defcls = fo.__globals__.get(fo.__qualname__.split('.')[-2])
        if not isinstance(defcls, type):
            raise Unsupported('super(): defining class not found')
        selfv = fr.locals.get(fo.__code__.co_varnames[0])
        if isinstance(selfv, Cell):
            selfv = selfv.v
        for k in defcls.__mro__[1:]:
            if name in k.__dict__:
                f = k.__dict__[name]
                if isinstance(f, types.FunctionType):
                    return BoundMeth(selfv, f)
                return f
        raise TargetExc(self.make_exception(AttributeError, [name], {}))

    def ex_Subscript(self, node, fr):
        base = self.eval(node.value, fr)
        if isinstance(node.slice, ast.Slice):
            lo = self.eval(node.slice.lower, fr) if node.slice.lower else None
            hi = self.eval(node.slice.upper, fr) if node.slice.upper else None
            if node.slice.step is not None:
                raise Unsupported('slice step')
            return self.get_slice(base, lo, hi)
        return self.get_item(base, self.eval(node.slice, fr))

    # -- comprehensions
    def ex_ListComp(self, node, fr):
        return self.comprehension(node, fr, 'list')

    def ex_GeneratorExp(self, node, fr):
        return self.comprehension(node, fr, 'list')

    def ex_SetComp(self, node, fr):
        return self.comprehension(node, fr, 'set')

    def ex_DictComp(self, node, fr):
        return self.comprehension(node, fr, 'dict')

    def comprehension(self, node, fr, kind):
        if len(node.generators) != 1:
            raise Unsupported('nested comprehension')
        gen = node.generators[0]
        it = self.eval(gen.iter, fr)
        items = self.concrete_items(it)
        sub = Frame({}, fr.globals, fr, fr.fn, fr.qualname)
        if items is not None:
            out = []
            for x in items:
                self.assign(gen.target, x, sub)
                ok = True
                for cond in gen.ifs:
                    if not self.choose(self.truth(self.eval(cond, sub))):
                        ok = False
                        break
                if not ok:
                    continue
                if kind == 'dict':
                    out.append((self.eval(node.key, sub), self.eval(node.value, sub)))
                else:
                    out.append(self.eval(node.elt, sub))
            if kind == 'list':
                return self.alloc_list(tuple(out))
            if kind == 'set':
                return self.make_set(tuple(out))
            d = {}
            for k, v in out:
                if isinstance(k, SV):
                    raise Unsupported('dict comprehension with symbolic keys over concrete items')
                d[k] = v
            return self.alloc_dict(d)
        if isinstance(it, SymRange):
            return self.sym_comprehension(node, gen, sub, it, kind)
        if isinstance(it, (MSet, SSetV)) and kind == 'set':
            return self.set_filter_comprehension(node, gen, sub, self.set_value(it))
        return self.sym_comprehension(node, gen, sub, self.seq_value(it), kind)

    def set_filter_comprehension(self, node, gen, sub, sv):
        """{f(x) for x in S if P(x)} over a symbolic set S"""
        if self.qctx:
            raise Unsupported('set comprehension under a quantifier')
        es = smt.sort_args(sv.t.sort)[1][0]
        x = smt.fresh_bound('x', es)
        self.assign(gen.target, self.value_of_sort(x, sv.ety), sub)
        self.pure += 1
        self.qctx.append(([x], smt.SetMember(x, sv.t)))
        try:
            conds = [self.truth(self.eval(c, sub)) for c in gen.ifs]
            e = self.eval(node.elt, sub)
        except NeedFork:
            raise Unsupported('set comprehension body needs a decision (line %d)' % node.lineno)
        finally:
            self.pure -= 1
            self.qctx.pop()
        flt = smt.And(*conds)
        ety = self.type_of_value(e)
        rs = type_sort(ety, self.env.classes)
        et = self.term_of(e)
        ph = smt.Var('@phx', es)
        mkey = ('setfilter', sv.t.key(), smt.subst(et, {x.key(): ph}).key(), smt.subst(flt, {x.key(): ph}).key())
        memo = self.ghost.setdefault('@memo', {})
        if mkey in memo:
            return self.alloc_set(SSetV(memo[mkey], ety))
        r = self.fresh_term('scomp@%d' % node.lineno, smt.SetS(rs), False)
        memo[mkey] = r
        if et.key() == x.key():
            # pure filter: a set-builder term, no axiom needed
            memo[mkey] = smt.SetFilter(sv.t, x, flt)
            return self.alloc_set(SSetV(memo[mkey], ety))
        else:
            y = smt.fresh_bound('y', rs)
            self.assume(smt.ForAll([x], smt.Implies(smt.And(smt.SetMember(x, sv.t), flt), smt.SetMember(et, r))))
            self.assume(smt.ForAll([y], smt.Implies(smt.SetMember(y, r), smt.Exists(
                [x], smt.And(smt.SetMember(x, sv.t), flt, smt.Eq(et, y))))))
        return self.alloc_set(SSetV(r, ety))

    def quantified(self, comp, fr, is_all):
        """any(...)/all(...) over a symbolic collection: a quantified formula, no
        intermediate sequence (so it nests under other quantifiers)."""
        if len(comp.generators) != 1:
            return None
        gen = comp.generators[0]
        it = self.eval(gen.iter, fr)
        if isinstance(it, (MSet, SSetV)):
            return self.quantified_set(comp, gen, fr, self.set_value(it), is_all)
        if isinstance(it, SymRange):
            sv = it
        else:
            if self.concrete_items(it) is not None:
                return None
            sv = self.seq_value(it)
        sub = Frame({}, fr.globals, fr, fr.fn, fr.qualname)
        i = smt.fresh_bound('q', INT)
        if isinstance(sv, SymRange):
            rng = smt.And(smt.Le(sv.lo, i), smt.Lt(i, sv.hi))
            self.assign(gen.target, SInt(i), sub)
        else:
            rng = smt.And(smt.Le(smt.IntC(0), i), smt.Lt(i, smt.SeqLen(sv.t)))
            self.assign(gen.target, self.value_of_sort(smt.SeqNth(sv.t, i), sv.ety), sub)
        self.pure += 1
        self.qctx.append(([i], rng))
        try:
            conds = [self.truth(self.eval(c, sub)) for c in gen.ifs]
            body = self.truth(self.eval(comp.elt, sub))
        except NeedFork:
            raise Unsupported('body of any()/all() over a symbolic collection needs a decision '
                              '(line %d)' % comp.lineno)
        finally:
            self.pure -= 1
            self.qctx.pop()
        guard = smt.And(rng, *conds)
        if is_all:
            return self.as_bool_value(smt.ForAll([i], smt.Implies(guard, body)))
        return self.as_bool_value(smt.Exists([i], smt.And(guard, body)))

    def quantified_set(self, comp, gen, fr, sv, is_all):
        """all/any over the elements of a symbolic set, as set-builder (in)equalities"""
        es = smt.sort_args(sv.t.sort)[1][0]
        x = smt.fresh_bound('x', es)
        sub = Frame({}, fr.globals, fr, fr.fn, fr.qualname)
        self.assign(gen.target, self.value_of_sort(x, sv.ety), sub)
        self.pure += 1
        self.qctx.append(([x], smt.SetMember(x, sv.t)))
        try:
            conds = [self.truth(self.eval(c, sub)) for c in gen.ifs]
            body = self.truth(self.eval(comp.elt, sub))
        except NeedFork:
            raise Unsupported('body of any()/all() over a set needs a decision')
        finally:
            self.pure -= 1
            self.qctx.pop()
        if is_all:
            good = smt.Implies(smt.And(*conds), body)
            return self.as_bool_value(smt.Eq(smt.SetFilter(sv.t, x, smt.Not(good)), smt.SetEmpty(es)))
        hit = smt.And(*(conds + [body]))
        return self.as_bool_value(smt.Not(smt.Eq(smt.SetFilter(sv.t, x, hit), smt.SetEmpty(es))))

    def sym_comprehension(self, node, gen, sub, sv, kind):
        if self.qctx:
            raise Unsupported('comprehension materialised under a quantifier (line %d): use any()/all()'
                              % node.lineno)
        """Comprehension over a symbolic sequence: defined pointwise by a
        quantified axiom (map); filters are supported for sets only."""
        i = smt.fresh_bound('i', INT)
        if isinstance(sv, SymRange):
            n = smt.Ite(smt.Ge(sv.hi, sv.lo), smt.Sub(sv.hi, sv.lo), smt.IntC(0))
            rng = smt.And(smt.Le(smt.IntC(0), i), smt.Lt(i, n))
            self.assign(gen.target, SInt(smt.Add(sv.lo, i)), sub)
        else:
            n = smt.SeqLen(sv.t)
            rng = smt.And(smt.Le(smt.IntC(0), i), smt.Lt(i, n))
            self.assign(gen.target, self.value_of_sort(smt.SeqNth(sv.t, i), sv.ety), sub)
        self.pure += 1
        self.qctx.append(([i], rng))
        saved_collect = self.collect_safe
        self.collect_safe = [] if self.pure == 1 else saved_collect
        collected = self.collect_safe
        try:
            conds = [self.truth(self.eval(c, sub)) for c in gen.ifs]
            n_if = len(collected) if collected is not None else 0
            if kind == 'dict':
                k = self.eval(node.key, sub)
                v = self.eval(node.value, sub)
            else:
                e = self.eval(node.elt, sub)
        except NeedFork:
            raise Unsupported('comprehension body over a symbolic sequence needs a decision '
                              '(line %d)' % node.lineno)
        finally:
            self.pure -= 1
            self.qctx.pop()
            self.collect_safe = saved_collect
        flt = smt.And(*conds)
        if collected and self.pure == 0:
            # operations of the body that may raise: either they are safe for every (selected)
            # element, or the comprehension raises
            for k_, (c_, exc_factory) in enumerate(collected):
                guard = rng if k_ < n_if else smt.And(rng, flt)
                if not self.choose(smt.ForAll([i], smt.Implies(guard, c_))):
                    raise TargetExc(exc_factory())
        if kind == 'list':
            if conds:
                # filtered: an abstract sequence r with: every element comes from a selected
                # source element; r is non-empty iff some source element is selected;
                # len(r) <= n.  (order and multiplicity are not constrained: enough for
                # len(...) > 0 and membership reasoning; stated as a library axiom)
                from . import builtins_sym
                builtins_sym._axiom('filtered list comprehension over a symbolic sequence: abstracted '
                                    '(non-empty iff some element selected; elements come from selected ones)')
                ety = self.type_of_value(e)
                es = type_sort(ety, self.env.classes)
                r = self.fresh_term('fcomp@%d' % node.lineno, smt.SeqS(es), False)
                j = smt.fresh_bound('j', INT)
                self.assume(smt.Le(smt.SeqLen(r), n))
                self.assume(smt.Eq(smt.Gt(smt.SeqLen(r), smt.IntC(0)), smt.Exists([i], smt.And(rng, flt))))
                self.assume(smt.ForAll([j], smt.Implies(
                    smt.And(smt.Le(smt.IntC(0), j), smt.Lt(j, smt.SeqLen(r))),
                    smt.Exists([i], smt.And(rng, flt, smt.Eq(smt.SeqNth(r, j), self.term_of(e)))))))
                # completeness: every selected source element appears in the result
                self.assume(smt.ForAll([i], smt.Implies(
                    smt.And(rng, flt),
                    smt.Exists([j], smt.And(smt.Le(smt.IntC(0), j), smt.Lt(j, smt.SeqLen(r)),
                                            smt.Eq(smt.SeqNth(r, j), self.term_of(e)))))))
                return self.alloc_list(SSeqV(r, ety))
            ety = self.type_of_value(e)
            r = self.fresh_term('comp@%d' % node.lineno, smt.SeqS(type_sort(ety, self.env.classes)), False)
            self.assume(smt.Eq(smt.SeqLen(r), n))
            self.assume(smt.ForAll([i], smt.Implies(rng, smt.Eq(smt.SeqNth(r, i), self.term_of(e)))))
            return self.alloc_list(SSeqV(r, ety))
        if kind == 'set':
            ety = self.type_of_value(e)
            es = type_sort(ety, self.env.classes)
            ph = smt.Var('@ph', INT)
            mkey = ('setcomp', (sv.t.key() if not isinstance(sv, SymRange) else (sv.lo.key(), sv.hi.key())),
                    smt.subst(self.term_of(e), {i.key(): ph}).key(), smt.subst(flt, {i.key(): ph}).key())
            memo = self.ghost.setdefault('@memo', {})
            if mkey in memo:
                return self.alloc_set(SSetV(memo[mkey], ety))
            if not isinstance(sv, SymRange) and sv.t.op == 'var' and sv.t.data in self.env.abstract_sets \
                    and not conds:
                # the collection is only ever used as a set: an arbitrary finite set (no seq axioms)
                r = self.fresh_term('set(%s)' % sv.t.data, smt.SetS(es), True)
                memo[mkey] = r
                return self.alloc_set(SSetV(r, ety))
            r = self.fresh_term('comp@%d' % node.lineno, smt.SetS(es), False)
            memo[mkey] = r
            self.assume(smt.ForAll([i], smt.Implies(smt.And(rng, flt), smt.SetMember(self.term_of(e), r))))
            x = smt.fresh_bound('x', es)
            self.assume(smt.ForAll([x], smt.Implies(
                smt.SetMember(x, r),
                smt.Exists([i], smt.And(rng, flt, smt.Eq(self.term_of(e), x))))))
            return self.alloc_set(SSetV(r, ety))
        # dict: keys must be pairwise distinct (obligation), then arr[k(i)] = v(i)
        if conds:
            raise Unsupported('filtered dict comprehension over symbolic sequence')
        kty, vty = self.type_of_value(k), self.type_of_value(v)
        ks, vs = type_sort(kty, self.env.classes), type_sort(vty, self.env.classes)
        j = smt.fresh_bound('j', INT)
        kt = self.term_of(k)
        kj = smt.subst(kt, {i.key(): j})
        self.oblige('comp-keys-distinct@%d' % node.lineno, 'pre',
                    smt.ForAll([i, j], smt.Implies(
                        smt.And(rng, smt.Le(smt.IntC(0), j), smt.Lt(j, n), smt.Not(smt.Eq(i, j))),
                        smt.Not(smt.Eq(kt, kj)))), 'line %d' % node.lineno)
        dom = self.fresh_term('comp@%d.dom' % node.lineno, smt.SetS(ks), False)
        arr = self.fresh_term('comp@%d.val' % node.lineno, smt.ArrS(ks, vs), False)
        self.assume(smt.ForAll([i], smt.Implies(rng, smt.And(
            smt.SetMember(kt, dom), smt.Eq(smt.Select(arr, kt), self.term_of(v))))))
        return self.alloc_dict(SMapV(dom, arr, kty, vty))

    # -- calls
    def ex_Call(self, node, fr):
        # intrinsic old(...) is evaluated in the pre-state
        if isinstance(node.func, ast.Name) and node.func.id == 'old' and \
                self.lookup_name(fr, 'old') is self.env.intrinsics.get('old'):
            saved, savedg = self.heap, self.ghost
            self.heap, self.ghost = dict(self.old_heap), dict(self.old_ghost)
            try:
                return self.eval(node.args[0], fr)
            finally:
                self.heap, self.ghost = saved, savedg
        f = self.eval(node.func, fr)
        if (f is _bi.any or f is _bi.all) and len(node.args) == 1 and not node.keywords and \
                isinstance(node.args[0], (ast.GeneratorExp, ast.ListComp)):
            r = self.quantified(node.args[0], fr, f is _bi.all)
            if r is not None:
                return r
        if f is _bi.set and len(node.args) == 1 and not node.keywords and \
                isinstance(node.args[0], ast.GeneratorExp):
            # set(<generator>) is a set comprehension
            return self.comprehension(node.args[0], fr, 'set')
        args = []
        for a in node.args:
            if isinstance(a, ast.Starred):
                sv_ = self.eval(a.value, fr)
                if self.concrete_items(sv_) is None:
                    args.append(SymStar(self.seq_value(sv_)))
                else:
                    args.extend(self.need_items(sv_))
            else:
                args.append(self.eval(a, fr))
        kwargs = {}
        for kw in node.keywords:
            if kw.arg is None:
                d = self.eval(kw.value, fr)
                p = self.heap[d.oid] if isinstance(d, MDict) else d
                if not isinstance(p, dict):
                    raise Unsupported('** of symbolic mapping')
                kwargs.update(p)
            else:
                kwargs[kw.arg] = self.eval(kw.value, fr)
        self.cur_node = node
        if self.env.site_hooks:
            cname = node.func.attr if isinstance(node.func, ast.Attribute) else \
                node.func.id if isinstance(node.func, ast.Name) else None
            hook = self.env.site_hooks.get((fr.qualname, cname))
            if hook is not None:
                ns = {}
                f2 = fr
                while f2 is not None:
                    for k_, v_ in f2.locals.items():
                        ns.setdefault(k_, v_)
                    f2 = f2.parent
                ns['call_args'] = tuple(args)
                ns['call_kwargs'] = dict(kwargs)
                t = self.truth(self.call_spec(hook, ns, fr))
                self.oblige('site/%s->%s@%d' % (fr.qualname, cname, node.lineno), 'site', t,
                            'call site line %d' % node.lineno)
        return self.call(f, args, kwargs)

    def lookup_name(self, fr, name):
        try:
            return self.ex_Name(ast.Name(id=name, ctx=ast.Load()), fr)
        except TargetExc:
            return None

    # -- helpers on containers
    def concrete_items(self, v):
        """python list of element values if the structure of v is concrete, else None"""
        if isinstance(v, (tuple, list)):
            return list(v)
        if isinstance(v, (frozenset, set)):
            return sorted(v, key=repr)
        if isinstance(v, range):
            return list(v)
        if isinstance(v, MList):
            p = self.heap[v.oid]
            return list(p) if isinstance(p, tuple) else None
        if isinstance(v, MDict):
            p = self.heap[v.oid]
            return list(p.keys()) if isinstance(p, dict) else None
        if isinstance(v, dict):
            return list(v.keys())
        if isinstance(v, str):
            return list(v)
        if isinstance(v, (SSeqV, MSet, SSetV, SMapV, SymRange, SymEnumerate, SymZip)):
            return None
        if isinstance(v, (dict.keys.__class__,)):
            return list(v)
        try:
            if isinstance(v, (type({}.keys()), type({}.values()), type({}.items()))):
                return list(v)
        except Exception:
            pass
        raise Unsupported('iteration over %r' % (v,))

    def need_items(self, v):
        items = self.concrete_items(v)
        if items is None:
            raise Unsupported('needs a concrete-length collection: %r' % (v,))
        return items

    def seq_value(self, v, like=None):
        if isinstance(v, SSeqV):
            return v
        if isinstance(v, MList):
            p = self.heap[v.oid]
            if isinstance(p, SSeqV):
                return p
            if p:
                return self.lift_list(p, self.type_of_value(p[0]))
        if isinstance(v, tuple) and v:
            return self.lift_list(v, self.type_of_value(v[0]))
        raise Unsupported('not a symbolic sequence: %r' % (v,))


import operator as _op
_PYOPS = {ast.Add: _op.add, ast.Sub: _op.sub, ast.Mult: _op.mul, ast.Mod: _op.mod,
          ast.FloorDiv: _op.floordiv, ast.BitOr: _op.or_, ast.BitAnd: _op.and_,
          ast.Div: _op.truediv}
_PYCMP = {ast.Lt: _op.lt, ast.LtE: _op.le, ast.Gt: _op.gt, ast.GtE: _op.ge}
