"""Symbolic semantics of the python builtins and container/str methods that the
verified functions use.  Each entry is an axiomatised library contract (listed
in the evidence trusted base)."""
from __future__ import annotations

import builtins as _bi
import copy as _copy
import itertools
import types

from . import smt
from .smt import INT, BOOL, STR, REF
from .values import *  # noqa
from .interp import TargetExc, NeedFork, PathEnd

USED_AXIOMS = set()


def _axiom(name):
    USED_AXIOMS.add(name)


# ---------------------------------------------------------------- builtins
def b_len(I, v):
    if isinstance(v, (MList, MSet, MDict)):
        v = I.heap[v.oid]
    if isinstance(v, (tuple, dict, str, list, set, frozenset)):
        return len(v)
    if isinstance(v, SSeqV):
        return SInt(smt.SeqLen(v.t))
    if isinstance(v, SSetV):
        _axiom('len(set) = set cardinality (cvc5 finite sets)')
        return SInt(smt.SetCard(v.t))
    if isinstance(v, SStr):
        return SInt(smt.StrLen(v.t))
    if isinstance(v, SMapV):
        return SInt(smt.SetCard(v.dom))
    raise Unsupported('len of %r' % (v,))


def b_set(I, v=None):
    if v is None:
        raise Unsupported('set() without element type')
    if isinstance(v, MSet):
        return I.alloc_set(I.heap[v.oid])
    if isinstance(v, SSetV):
        return I.alloc_set(v)
    items = I.concrete_items(v)
    if items is not None:
        if not items:
            raise Unsupported('set(()) without element type')
        return I.make_set(tuple(items))
    sv = I.seq_value(v)
    _axiom('set(seq): x in result <=> exists i. seq[i] == x')
    es = type_sort(sv.ety, I.env.classes)
    memo = I.ghost.setdefault('@memo', {})
    if ('set_of_seq', sv.t.key()) in memo:
        return I.alloc_set(SSetV(memo[('set_of_seq', sv.t.key())], sv.ety))
    if sv.t.op == 'var' and sv.t.data in I.env.abstract_sets:
        r = I.fresh_term('set(%s)' % sv.t.data, smt.SetS(es), True)
        memo[('set_of_seq', sv.t.key())] = r
        return I.alloc_set(SSetV(r, sv.ety))
    r = I.fresh_term('set_of_seq', smt.SetS(es), False)
    memo[('set_of_seq', sv.t.key())] = r
    i = smt.fresh_bound('i', INT)
    x = smt.fresh_bound('x', es)
    rng = smt.And(smt.Le(smt.IntC(0), i), smt.Lt(i, smt.SeqLen(sv.t)))
    I.assume(smt.ForAll([i], smt.Implies(rng, smt.SetMember(smt.SeqNth(sv.t, i), r))))
    I.assume(smt.ForAll([x], smt.Implies(smt.SetMember(x, r),
                                         smt.Exists([i], smt.And(rng, smt.Eq(smt.SeqNth(sv.t, i), x))))))
    return I.alloc_set(SSetV(r, sv.ety))


def b_list(I, v=()):
    if isinstance(v, MList):
        return I.alloc_list(I.heap[v.oid])
    if isinstance(v, SSeqV):
        return I.alloc_list(v)
    items = I.concrete_items(v)
    if items is not None:
        return I.alloc_list(tuple(items))
    if isinstance(v, (MSet, SSetV)):
        sv = I.set_value(v)
        _axiom('list(set): a sequence whose length is the cardinality of the set '
               '(element order and membership left unconstrained)')
        es = smt.sort_args(sv.t.sort)[1][0]
        r = I.fresh_term('list_of_set', smt.SeqS(es), False)
        I.assume(smt.Eq(smt.SeqLen(r), smt.SetCard(sv.t)))
        # membership of the elements is asserted lazily, per index actually read (no quantifier)
        I.ghost.setdefault('@list_of_set', {})[r.key()] = sv.t
        return I.alloc_list(SSeqV(r, sv.ety))
    raise Unsupported('list(%r)' % (v,))


def b_tuple(I, v=()):
    items = I.concrete_items(v)
    if items is None and isinstance(v, (MSet, SSetV)):
        # tuple(<symbolic set>): only usable where order does not matter (str.startswith / endswith)
        return SymTupleOfSet(I.set_value(v))
    return tuple(I.need_items(v))


def b_dict(I, v=None, **kw):
    d = {}
    if v is not None:
        p = I.heap[v.oid] if isinstance(v, MDict) else v
        if not isinstance(p, dict):
            raise Unsupported('dict(%r)' % (v,))
        d.update(p)
    d.update(kw)
    return I.alloc_dict(d)


def b_bool(I, v=False):
    return I.as_bool_value(I.truth(v))


def b_str(I, v=''):
    return I.to_str(v)


def b_repr(I, v):
    if isinstance(v, (str, SStr)):
        return I.str_concat(["'", v, "'"])
    return I.to_str(v)


def b_int(I, v=0):
    if isinstance(v, (int, SInt)) and not isinstance(v, bool):
        return v
    if isinstance(v, bool):
        return int(v)
    if isinstance(v, SBool):
        return SInt(I.int_term(v))
    if isinstance(v, str):
        try:
            return int(v)
        except ValueError as e:
            raise TargetExc(I.make_exception(ValueError, [str(e)], {}))
    if isinstance(v, SStr):
        _axiom('int(str): decimal digit strings only (str.to_int), anything else raises ValueError; '
               'signs, whitespace and underscores accepted by CPython are not modelled')
        ok = smt.Ge(smt.StrToInt(v.t), smt.IntC(0))
        if not I.choose(ok):
            raise TargetExc(I.make_exception(ValueError, ['invalid literal for int()'], {}))
        return SInt(smt.StrToInt(v.t))
    if isinstance(v, SOpt) or v is None:
        if I.choose(I.is_none(v)):
            raise TargetExc(I.make_exception(TypeError, ['int() argument must be a string'], {}))
        return b_int(I, v.val)
    raise Unsupported('int(%r)' % (v,))


def b_isinstance(I, v, cls):
    classes = cls if isinstance(cls, tuple) else (cls,)
    if isinstance(v, Obj) and isinstance(v.cls, type):
        h = I.env.isinstance_hook
        if h is not None:
            r = h(I, v, classes)
            if r is not None:
                return r
        return issubclass(v.cls, classes)
    if isinstance(v, SRef):
        h = I.env.isinstance_hook
        if h is not None:
            r = h(I, v, classes)
            if r is not None:
                return r
        raise Unsupported('isinstance on symbolic %s' % v.cls)
    if isinstance(v, (SStr,)):
        return str in classes
    if isinstance(v, SInt):
        return int in classes
    if isinstance(v, SBool):
        return bool in classes or int in classes
    if isinstance(v, (MSet, SSetV)):
        return set in classes
    if isinstance(v, MList):
        return list in classes
    if isinstance(v, MDict):
        return dict in classes
    if isinstance(v, SOpt):
        if I.choose(v.isnone):
            return type(None) in classes
        return b_isinstance(I, v.val, cls)
    if isinstance(v, SV):
        raise Unsupported('isinstance on %r' % (v,))
    return isinstance(v, classes)


def b_issubclass(I, a, b):
    return issubclass(a, b)


def _quant(I, v, is_all):
    items = I.concrete_items(v)
    if items is not None:
        ts = [I.truth(x) for x in items]
        return I.as_bool_value(smt.And(*ts) if is_all else smt.Or(*ts))
    sv = I.seq_value(v)
    if sv.ety != ('bool',):
        raise Unsupported('any/all over non-bool symbolic sequence')
    i = smt.fresh_bound('i', INT)
    rng = smt.And(smt.Le(smt.IntC(0), i), smt.Lt(i, smt.SeqLen(sv.t)))
    e = smt.SeqNth(sv.t, i)
    if is_all:
        return I.as_bool_value(smt.ForAll([i], smt.Implies(rng, e)))
    return I.as_bool_value(smt.Exists([i], smt.And(rng, e)))


def b_any(I, v): return _quant(I, v, False)
def b_all(I, v): return _quant(I, v, True)


def _extreme(I, args, kwargs, is_max):
    key = kwargs.get('key')
    default = kwargs.get('default', _NOD)
    if len(args) > 1:
        items = list(args)
    else:
        items = I.concrete_items(args[0])
    cmp = smt.Gt if is_max else smt.Lt
    if items is not None:
        if not items:
            if default is not _NOD:
                return default
            raise TargetExc(I.make_exception(ValueError, ['max() arg is an empty sequence'], {}))
        best = items[0]
        bk = I.call(key, [best], {}) if key is not None else best
        for x in items[1:]:
            xk = I.call(key, [x], {}) if key is not None else x
            if isinstance(xk, SV) or isinstance(bk, SV):
                c = cmp(I.int_term(xk), I.int_term(bk))
                best = I.ite_val(c, x, best)
                bk = I.ite_val(c, xk, bk)
            else:
                if (xk > bk) if is_max else (xk < bk):
                    best, bk = x, xk
        return best
    sv = I.seq_value(args[0])
    _axiom('max/min(seq, key=f): returns seq[k] with f(seq[k]) extreme and k the first such index; '
           'ValueError on empty')
    n = smt.SeqLen(sv.t)
    if not I.choose(smt.Gt(n, smt.IntC(0))):
        if default is not _NOD:
            return default
        raise TargetExc(I.make_exception(ValueError, ['arg is an empty sequence'], {}))
    k = I.fresh_term('argext', INT, False)
    I.assume(smt.And(smt.Le(smt.IntC(0), k), smt.Lt(k, n)))
    i = smt.fresh_bound('i', INT)

    def keyterm(idx):
        x = I.value_of_sort(smt.SeqNth(sv.t, idx), sv.ety)
        if key is None:
            return I.int_term(x)
        I.pure += 1
        if idx is i:
            I.qctx.append(([i], smt.And(smt.Le(smt.IntC(0), i), smt.Lt(i, n))))
        try:
            return I.int_term(I.call(key, [x], {}))
        except NeedFork:
            raise Unsupported('max/min key needs a decision')
        finally:
            I.pure -= 1
            if idx is i:
                I.qctx.pop()
    ki = keyterm(i)
    kk = smt.subst(ki, {i.key(): k})
    rng = smt.And(smt.Le(smt.IntC(0), i), smt.Lt(i, n))
    le = smt.Le if is_max else smt.Ge
    lt = smt.Lt if is_max else smt.Gt
    I.assume(smt.ForAll([i], smt.Implies(rng, le(ki, kk))))
    I.assume(smt.ForAll([i], smt.Implies(smt.And(rng, smt.Lt(i, k)), lt(ki, kk))))
    return I.value_of_sort(smt.SeqNth(sv.t, k), sv.ety)


def b_max(I, *a, **k): return _extreme(I, a, k, True)
def b_min(I, *a, **k): return _extreme(I, a, k, False)


def b_reversed(I, v):
    items = I.concrete_items(v)
    if items is not None:
        return tuple(reversed(items))
    sv = I.seq_value(v)
    _axiom('reversed(seq)[i] = seq[len-1-i]')
    memo = I.ghost.setdefault('@reversed', {})
    if sv.t.key() in memo:
        return SSeqV(memo[sv.t.key()], sv.ety)
    r = I.fresh_term('reversed', sv.t.sort, False)
    memo[sv.t.key()] = r
    n = smt.SeqLen(sv.t)
    i = smt.fresh_bound('i', INT)
    I.assume(smt.Eq(smt.SeqLen(r), n))
    I.assume(smt.ForAll([i], smt.Implies(
        smt.And(smt.Le(smt.IntC(0), i), smt.Lt(i, n)),
        smt.Eq(smt.SeqNth(r, i), smt.SeqNth(sv.t, smt.Sub(smt.Sub(n, smt.IntC(1)), i))))))
    return SSeqV(r, sv.ety)


def b_enumerate(I, v, start=0):
    if I.concrete_items(v) is None:
        return SymEnumerate(I.seq_value(v), start)
    return tuple((i + start, x) for i, x in enumerate(I.need_items(v)))


def b_zip(I, *vs):
    if any(I.concrete_items(v) is None for v in vs):
        return SymZip(tuple(I.seq_value(v) for v in vs))
    return tuple(zip(*[I.need_items(v) for v in vs]))


def b_range(I, *a):
    if any(isinstance(x, SV) for x in a):
        if len(a) == 1:
            return SymRange(smt.IntC(0), I.int_term(a[0]))
        if len(a) == 2:
            return SymRange(I.int_term(a[0]), I.int_term(a[1]))
        raise Unsupported('symbolic range with step')
    return range(*a)


def b_sorted(I, v, key=None, reverse=False):
    if I.concrete_items(v) is None:
        # sorted() of a symbolic collection: only its identity is kept (used for messages)
        return SOpaque(I.fresh_term('sorted', smt.REF, False), 'sorted')
    items = I.need_items(v)
    if any(isinstance(x, SV) for x in items) or key is not None and not isinstance(key, types.FunctionType):
        raise Unsupported('sorted on symbolic items')
    return I.alloc_list(tuple(sorted(items, key=key, reverse=reverse)))


def b_getattr(I, o, name, default=_bi.object):
    try:
        return I.get_attr(o, name)
    except TargetExc as e:
        if default is not _bi.object and isinstance(e.exc.cls, type) and \
                issubclass(e.exc.cls, AttributeError):
            return default
        raise


def b_setattr(I, o, name, v):
    I.set_attr(o, name, v)


def b_hasattr(I, o, name):
    try:
        I.get_attr(o, name)
        return True
    except TargetExc as e:
        if isinstance(e.exc.cls, type) and issubclass(e.exc.cls, AttributeError):
            return False
        raise


def b_type(I, v):
    if isinstance(v, Obj) and isinstance(v.cls, type):
        return v.cls
    if isinstance(v, SV):
        raise Unsupported('type() of symbolic value')
    return type(v)


def b_print(I, *a, **k):
    h = I.env.print_hook
    if h is not None:
        h(I, a)
    return None


def b_copy(I, v):
    if isinstance(v, MSet):
        return I.alloc_set(I.heap[v.oid])
    if isinstance(v, MList):
        return I.alloc_list(I.heap[v.oid])
    if isinstance(v, MDict):
        p = I.heap[v.oid]
        return I.alloc_dict(dict(p) if isinstance(p, dict) else p)
    if isinstance(v, (SV, int, str, bool, tuple, frozenset)) or v is None:
        return v
    if isinstance(v, set):
        if v:
            raise Unsupported('copy of non-empty concrete set')
        return _copy.copy(v)
    raise Unsupported('copy(%r)' % (v,))


def b_callable(I, v):
    return isinstance(v, (Closure, BoundMeth, types.FunctionType, type, ModelMethod))


def b_filter(I, f, v):
    items = I.need_items(v)
    out = []
    for x in items:
        if I.choose(I.truth(I.call(f, [x], {}))):
            out.append(x)
    return tuple(out)


def b_map(I, f, v):
    return tuple(I.call(f, [x], {}) for x in I.need_items(v))


def b_islice(I, v, a, b=None):
    start, stop = (0, a) if b is None else (a, b)
    start, stop = I.strip_opt(start), I.strip_opt(stop)
    items = I.concrete_items(v)
    if items is not None and not isinstance(start, SV) and not isinstance(stop, SV):
        return tuple(itertools.islice(items, start, stop))
    sv = I.seq_value(v)
    return I._seq_slice(sv, start, stop)


_NOD = object()

BUILTINS = {
    _bi.len: b_len, _bi.set: b_set, _bi.list: b_list, _bi.tuple: b_tuple, _bi.dict: b_dict,
    _bi.bool: b_bool, _bi.str: b_str, _bi.repr: b_repr, _bi.int: b_int,
    _bi.isinstance: b_isinstance, _bi.issubclass: b_issubclass,
    _bi.any: b_any, _bi.all: b_all, _bi.max: b_max, _bi.min: b_min,
    _bi.reversed: b_reversed, _bi.enumerate: b_enumerate, _bi.zip: b_zip, _bi.range: b_range,
    _bi.sorted: b_sorted, _bi.getattr: b_getattr, _bi.setattr: b_setattr, _bi.hasattr: b_hasattr,
    _bi.type: b_type, _bi.print: b_print, _copy.copy: b_copy, _bi.callable: b_callable,
    _bi.filter: b_filter, _bi.map: b_map, itertools.islice: b_islice,
}
TYPE_CALLS = {k: v for k, v in BUILTINS.items() if isinstance(k, type)}


def call_builtin(I, f, args, kwargs):
    m = I.env.fn_models.get(f)
    if m is not None:
        return m(I, *args, **kwargs)
    h = BUILTINS.get(f)
    if h is not None:
        return h(I, *args, **kwargs)
    # pure python callables on fully concrete arguments may be run natively
    if I.env.native_ok(f) and not any(_has_sym(I, a) for a in list(args) + list(kwargs.values())):
        try:
            return f(*args, **kwargs)
        except Exception as e:  # mirrors the real exception
            raise TargetExc(I.make_exception(type(e), list(e.args), {}))
    raise Unsupported('builtin/external callable %r' % (f,))


def _has_sym(I, v):
    if isinstance(v, (SV, Obj, MList, MSet, MDict, Closure, BoundMeth)):
        return True
    if isinstance(v, (tuple, list)):
        return any(_has_sym(I, x) for x in v)
    return False


# ---------------------------------------------------------------- methods
def call_method(I, selfv, name, args, kwargs):
    v = selfv
    if isinstance(v, (str, SStr)):
        return str_method(I, v, name, args, kwargs)
    if isinstance(v, MSet):
        return set_method(I, v, name, args, kwargs)
    if isinstance(v, SSetV):
        return set_method(I, I.alloc_set(v), name, args, kwargs)
    if isinstance(v, MList):
        return list_method(I, v, name, args, kwargs)
    if isinstance(v, MDict):
        return dict_method(I, v, name, args, kwargs)
    if isinstance(v, SMapV):
        return map_method(I, v, name, args, kwargs)
    if isinstance(v, tuple):
        if name == 'index':
            return v.index(*args)
        if name == 'count':
            return v.count(*args)
    if isinstance(v, SSeqV):
        return list_method(I, I.alloc_list(v), name, args, kwargs)
    raise Unsupported('method %s of %r' % (name, v))


def str_method(I, s, name, args, kwargs):
    sym = isinstance(s, SStr) or any(isinstance(a, (SV, MSet, MList)) for a in args)
    if name == 'format':
        return I.str_format(s, args, kwargs)
    if not sym and not any(_has_sym(I, a) for a in args):
        try:
            r = getattr(s, name)(*args, **kwargs)
        except Exception as e:
            raise TargetExc(I.make_exception(type(e), list(e.args), {}))
        if isinstance(r, list):
            return I.alloc_list(tuple(r))
        return r
    st = I.term_of(s)
    taint = s.taint if isinstance(s, SStr) else None
    args = [I.strip_opt(a) for a in args]
    if name == 'startswith':
        (p,) = args
        if isinstance(p, tuple):
            return I.as_bool_value(smt.Or(*[smt.StrPrefixOf(I.term_of(x), st) for x in p]))
        if isinstance(p, SymTupleOfSet):
            x = smt.fresh_bound('x', STR)
            return I.as_bool_value(smt.Exists([x], smt.And(smt.SetMember(x, p.setv.t), smt.StrPrefixOf(x, st))))
        return I.as_bool_value(smt.StrPrefixOf(I.term_of(p), st))
    if name == 'endswith':
        (p,) = args
        return I.as_bool_value(smt.StrSuffixOf(I.term_of(p), st))
    if name == 'replace':
        a, b = args[0], args[1]
        if len(args) > 2:
            if args[2] == 1:
                return SStr(smt.StrReplace(st, I.term_of(a), I.term_of(b)), taint)
            raise Unsupported('replace count')
        h = I.env.replace_hook
        if h is not None:
            r = h(I, s, a, b)
            if r is not None:
                return r
        return SStr(smt.StrReplaceAll(st, I.term_of(a), I.term_of(b)), taint)
    if name == 'join' and not isinstance(s, SStr):
        h = I.env.str_models.get('join')
        if h is not None:
            return h(I, s, *args, **kwargs)
        return SStr(I.fresh_term('joined', smt.STR, False))
    if name in ('strip', 'rstrip', 'lstrip', 'lower', 'upper', 'split', 'splitlines', 'join',
                'encode', 'decode'):
        h = I.env.str_models.get(name)
        if h is not None:
            return h(I, s, *args, **kwargs)
    if name == 'splitlines' and not args and not kwargs:
        _axiom("str.splitlines(): a list of strings, empty iff the string is empty (contents unconstrained)")
        r = I.fresh_term('splitlines', smt.SeqS(STR), False)
        I.assume(smt.Eq(smt.Eq(smt.SeqLen(r), smt.IntC(0)), smt.Eq(st, smt.StrC(''))))
        return I.alloc_list(SSeqV(r, ('str',)))
    raise Unsupported('str method %s on symbolic string' % name)


def set_method(I, s, name, args, kwargs):
    cur = I.heap[s.oid]
    if name == 'add':
        (x,) = args
        x = I.force_some(x)
        I.heap[s.oid] = SSetV(smt.SetUnion(cur.t, smt.SetSingleton(I.term_of(x))), cur.ety)
        return None
    if name == 'update' and len(args) == 1 and isinstance(I.strip_opt(args[0]), (str, SStr)):
        # set.update(<string>) adds the CHARACTERS of the string
        st = I.term_of(args[0])
        chars = I.fresh_term('chars_of', cur.t.sort, False)
        # true facts about the set of characters of st (quantifier-free on purpose: refutable)
        n = smt.StrLen(st)
        c0, c1 = smt.StrAt(st, smt.IntC(0)), smt.StrAt(st, smt.IntC(1))
        I.assume(smt.Implies(smt.Eq(n, smt.IntC(0)), smt.Eq(chars, smt.SetEmpty(STR))))
        I.assume(smt.Implies(smt.Eq(n, smt.IntC(1)), smt.Eq(chars, smt.SetSingleton(st))))
        I.assume(smt.Implies(smt.Gt(n, smt.IntC(1)), smt.And(smt.Not(smt.SetMember(st, chars)), smt.SetMember(c0, chars),
                                                             smt.SetMember(c1, chars))))
        I.heap[s.oid] = SSetV(smt.SetUnion(cur.t, chars), cur.ety)
        return None
    if name in ('discard', 'remove'):
        (x,) = args
        xt = I.term_of(x)
        if name == 'remove' and not I.choose(smt.SetMember(xt, cur.t)):
            raise TargetExc(I.make_exception(KeyError, [x], {}))
        I.heap[s.oid] = SSetV(smt.SetMinus(cur.t, smt.SetSingleton(xt)), cur.ety)
        return None
    if name in ('intersection', 'union', 'difference'):
        (o,) = args
        ot = I.set_value(o, cur)
        f = {'intersection': smt.SetInter, 'union': smt.SetUnion, 'difference': smt.SetMinus}[name]
        return I.alloc_set(SSetV(f(cur.t, ot.t), cur.ety))
    if name == 'issubset':
        (o,) = args
        return I.as_bool_value(smt.SetSubset(cur.t, I.set_value(o, cur).t))
    if name == 'copy':
        return I.alloc_set(cur)
    if name == 'update':
        (o,) = args
        I.heap[s.oid] = SSetV(smt.SetUnion(cur.t, I.set_value(o, cur).t), cur.ety)
        return None
    raise Unsupported('set method %s' % name)


def list_method(I, l, name, args, kwargs):
    p = I.heap[l.oid]
    if kwargs and name in ('remove', 'append', 'pop', 'index', 'insert', 'extend'):
        raise TargetExc(I.make_exception(TypeError, ['list.%s() takes no keyword arguments' % name], {}))
    if isinstance(p, SSeqV) and name == 'index' and len(args) == 1:
        # first position of x in a symbolic sequence (ValueError when absent)
        xt = I.term_of(args[0])
        j = smt.fresh_bound('j', INT)
        rng = smt.And(smt.Le(smt.IntC(0), j), smt.Lt(j, smt.SeqLen(p.t)))
        if not I.choose(smt.Exists([j], smt.And(rng, smt.Eq(smt.SeqNth(p.t, j), xt)))):
            raise TargetExc(I.make_exception(ValueError, ['not in list'], {}))
        k = I.fresh_term('index', INT, False)
        I.assume(smt.And(smt.Le(smt.IntC(0), k), smt.Lt(k, smt.SeqLen(p.t)), smt.Eq(smt.SeqNth(p.t, k), xt)))
        I.assume(smt.ForAll([j], smt.Implies(smt.And(smt.Le(smt.IntC(0), j), smt.Lt(j, k)),
                                             smt.Not(smt.Eq(smt.SeqNth(p.t, j), xt)))))
        return SInt(k)
    if isinstance(p, tuple):
        if name == 'append':
            I.heap[l.oid] = p + (args[0],)
            return None
        if name == 'extend':
            items = I.concrete_items(args[0])
            if items is not None:
                I.heap[l.oid] = p + tuple(items)
                return None
        if name == 'insert' and isinstance(args[0], int):
            lst = list(p)
            lst.insert(args[0], args[1])
            I.heap[l.oid] = tuple(lst)
            return None
        if name == 'pop':
            if not p:
                raise TargetExc(I.make_exception(IndexError, ['pop from empty list'], {}))
            idx = args[0] if args else -1
            lst = list(p)
            r = lst.pop(idx)
            I.heap[l.oid] = tuple(lst)
            return r
        if name == 'index':
            (x,) = args
            for k, y in enumerate(p):
                if I.choose(I.eq(x, y)):
                    return k
            raise TargetExc(I.make_exception(ValueError, ['not in list'], {}))
        if name == 'remove':
            (x,) = args
            for k, y in enumerate(p):
                if I.choose(I.eq(x, y)):
                    I.heap[l.oid] = p[:k] + p[k + 1:]
                    return None
            raise TargetExc(I.make_exception(ValueError, ['not in list'], {}))
        if name == 'copy':
            return I.alloc_list(p)
        if name == 'sort' and not any(isinstance(x, (SV, Obj)) for x in p):
            I.heap[l.oid] = tuple(sorted(p, **kwargs))
            return None
        if name == '__len__':
            return len(p)
        if name == 'reverse':
            I.heap[l.oid] = tuple(reversed(p))
            return None
        if name == 'count':
            return sum(1 for y in p if smt.is_true(I.eq(args[0], y)))
    sv = I.seq_value(l) if not isinstance(p, SSeqV) else p
    if name == 'append':
        (x,) = args
        I.heap[l.oid] = SSeqV(smt.SeqConcat(sv.t, smt.SeqUnit(I.term_of(x))), sv.ety)
        return None
    if name == 'pop':
        n = smt.SeqLen(sv.t)
        if not I.choose(smt.Gt(n, smt.IntC(0))):
            raise TargetExc(I.make_exception(IndexError, ['pop from empty list'], {}))
        idx = args[0] if args else -1
        if idx == 0:
            r = smt.SeqNth(sv.t, smt.IntC(0))
            rest = smt.SeqExtract(sv.t, smt.IntC(1), smt.Sub(n, smt.IntC(1)))
            I.heap[l.oid] = SSeqV(rest, sv.ety)
            # a fact of the sequence theory, stated so that quantifier instantiation does not depend on the
            # sequence solver rewriting nth-of-extract first: rest[q] = old[q + 1]
            q = smt.fresh_bound('q', INT)
            I.assume(smt.ForAll([q], smt.Implies(smt.And(smt.Le(smt.IntC(0), q), smt.Lt(q, smt.Sub(n, smt.IntC(1)))),
                                                 smt.Eq(smt.SeqNth(rest, q), smt.SeqNth(sv.t, smt.Add(q, smt.IntC(1)))))))
        elif idx == -1:
            r = smt.SeqNth(sv.t, smt.Sub(n, smt.IntC(1)))
            I.heap[l.oid] = SSeqV(smt.SeqExtract(sv.t, smt.IntC(0), smt.Sub(n, smt.IntC(1))), sv.ety)
        else:
            raise Unsupported('pop(%r) on symbolic list' % (idx,))
        return I.value_of_sort(r, sv.ety)
    if name == '__len__':
        return SInt(smt.SeqLen(sv.t))
    if name == 'copy':
        return I.alloc_list(sv)
    if name == 'extend':
        o = I.seq_value(args[0])
        I.heap[l.oid] = SSeqV(smt.SeqConcat(sv.t, o.t), sv.ety)
        return None
    raise Unsupported('list method %s on %r' % (name, p))


def dict_method(I, d, name, args, kwargs):
    p = I.heap[d.oid]
    if isinstance(p, SMapV):
        return map_method(I, p, name, args, kwargs, handle=d)
    if name == 'get':
        k = args[0]
        default = args[1] if len(args) > 1 else None
        if isinstance(k, SV):
            res = default
            for kk in reversed(list(p.keys())):
                try:
                    res = I.ite_val(I.eq(k, kk), p[kk], res)
                except NeedFork:
                    if I.choose(I.eq(k, kk)):
                        return p[kk]
            return res
        return p.get(k, default)
    if name == 'items':
        return tuple(p.items())
    if name == 'keys':
        return tuple(p.keys())
    if name == 'values':
        return tuple(p.values())
    if name == 'pop':
        k = args[0]
        if isinstance(k, SV):
            raise Unsupported('dict.pop with symbolic key')
        if k in p:
            q = dict(p)
            r = q.pop(k)
            I.heap[d.oid] = q
            return r
        if len(args) > 1:
            return args[1]
        raise TargetExc(I.make_exception(KeyError, [k], {}))
    if name == 'setdefault':
        k, v = args
        if k in p:
            return p[k]
        q = dict(p)
        q[k] = v
        I.heap[d.oid] = q
        return v
    if name == 'update':
        o = args[0]
        op = I.heap[o.oid] if isinstance(o, MDict) else o
        if not isinstance(op, dict):
            raise Unsupported('dict.update with symbolic mapping')
        q = dict(p)
        q.update(op)
        q.update(kwargs)
        I.heap[d.oid] = q
        return None
    if name == 'copy':
        return I.alloc_dict(dict(p))
    raise Unsupported('dict method %s' % name)


def map_method(I, m, name, args, kwargs, handle=None):
    if name == 'get':
        k = args[0]
        default = args[1] if len(args) > 1 else None
        kt = I.term_of(k)
        present = smt.SetMember(kt, m.dom)
        val = _map_value(I, m, kt)
        try:
            return I.ite_val(present, val, default)
        except NeedFork:
            if I.choose(present):
                return val
            return default
    if name == 'keys':
        return SSetV(m.dom, m.kty)
    raise Unsupported('map method %s' % name)


def _map_value(I, m, kt):
    vty = m.vty
    if vty[0] == 'map':
        # nested map: value is identified by two uninterpreted selectors
        raise Unsupported('nested symbolic map value')
    return I.value_of_sort(smt.Select(m.arr, kt), vty)
