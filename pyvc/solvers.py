"""Solver portfolio: z3 (python API, text in) then cvc5 (python API, text in).

A query is a list of smt.T assertions; `solve` answers 'unsat' | 'sat' |
'unknown' and, for sat, a dict of python values for the requested outputs.
Queries are run in worker processes so that a stuck solver can be abandoned.
"""
from __future__ import annotations

import multiprocessing as mp
import os
import time

from . import smt

CARD_OPS = {'set.card'}


def _needs_cvc5(assertions):
    return any(smt.uses_op(t, CARD_OPS) for t in assertions)


# ---------------------------------------------------------------------- z3
def _z3_value(v):
    import z3
    if z3.is_int_value(v):
        return v.as_long()
    if z3.is_true(v):
        return True
    if z3.is_false(v):
        return False
    if z3.is_string_value(v):
        return _z3_unescape(v.as_string())
    if z3.is_seq(v):
        # sequence value: concat / unit / empty
        if z3.is_app_of(v, z3.Z3_OP_SEQ_EMPTY):
            return []
        if z3.is_app_of(v, z3.Z3_OP_SEQ_UNIT):
            return [_z3_value(v.arg(0))]
        if z3.is_app_of(v, z3.Z3_OP_SEQ_CONCAT):
            out = []
            for i in range(v.num_args()):
                out.extend(_z3_value(v.arg(i)))
            return out
    return {'__raw__': str(v)}


def _z3_unescape(s):
    # z3's as_string() keeps \u{..} escapes
    import re
    return re.sub(r'\\u\{([0-9a-fA-F]+)\}', lambda m: chr(int(m.group(1), 16)), s)


def run_z3(text, outputs, timeout_ms):
    import z3
    t0 = time.time()
    s = z3.Solver()
    s.set('timeout', int(timeout_ms))
    try:
        s.from_string(text.replace('(check-sat)\n', ''))
    except z3.Z3Exception as e:
        return {'answer': 'error', 'detail': 'z3 parse: %s' % e, 'time': time.time() - t0}
    r = s.check()
    res = {'answer': str(r), 'time': time.time() - t0, 'backend': 'z3-' + z3.get_version_string()}
    if r == z3.unknown:
        res['detail'] = s.reason_unknown()
    if r == z3.sat and outputs:
        m = s.model()
        vals = {}
        byname = {d.name(): d for d in m.decls()}
        for name in outputs:
            d = byname.get(name)
            if d is None:
                vals[name] = None
            else:
                vals[name] = _z3_value(m[d])
        res['model'] = vals
    return res


# ---------------------------------------------------------------------- cvc5
def _cvc5_value(v):
    import cvc5
    k = v.getKind()
    s = v.getSort()
    if s.isBoolean():
        return v.getBooleanValue()
    if s.isInteger():
        return v.getIntegerValue()
    if s.isString():
        return v.getStringValue()
    if s.isSet():
        return sorted((_cvc5_value(e) for e in v.getSetValue()), key=repr)
    if s.isSequence():
        return [_cvc5_value(e) for e in v.getSequenceValue()]
    if s.isUninterpretedSort():
        return {'__ref__': v.getUninterpretedSortValue()}
    return {'__raw__': str(v)}


def run_cvc5(text, outputs, timeout_ms, want_model=True):
    import cvc5
    t0 = time.time()
    slv = cvc5.Solver()
    slv.setOption('tlimit-per', str(int(timeout_ms)))
    slv.setOption('strings-exp', 'true')
    if want_model and outputs:
        slv.setOption('produce-models', 'true')
    parser = cvc5.InputParser(slv)
    parser.setStringInput(cvc5.InputLanguage.SMT_LIB_2_6,
                          text.replace('(check-sat)\n', ''), 'q')
    sm = parser.getSymbolManager()
    try:
        while True:
            cmd = parser.nextCommand()
            if cmd.isNull():
                break
            cmd.invoke(slv, sm)
    except Exception as e:  # parse / logic errors
        return {'answer': 'error', 'detail': 'cvc5 parse: %s' % e, 'time': time.time() - t0}
    try:
        r = slv.checkSat()
    except Exception as e:
        return {'answer': 'unknown', 'detail': 'cvc5: %s' % e, 'time': time.time() - t0,
                'backend': 'cvc5-' + cvc5.__version__}
    ans = 'sat' if r.isSat() else 'unsat' if r.isUnsat() else 'unknown'
    res = {'answer': ans, 'time': time.time() - t0, 'backend': 'cvc5-' + cvc5.__version__}
    if ans == 'unknown':
        res['detail'] = str(r.getUnknownExplanation())
    if ans == 'sat' and outputs and want_model:
        vals = {}
        try:
            for t in sm.getDeclaredTerms():
                n = t.getSymbol() if t.hasSymbol() else None
                if n in outputs:
                    vals[n] = _cvc5_value(slv.getValue(t))
        except Exception as e:
            res['model_error'] = str(e)
        res['model'] = vals
    return res


OLD_Z3 = '/usr/bin/z3'


def run_z3_cli(text, timeout_ms):
    """third back end: the Debian z3 4.8.12 binary (different quantifier heuristics)"""
    import subprocess
    import tempfile
    t0 = time.time()
    with tempfile.NamedTemporaryFile('w', suffix='.smt2', delete=False) as f:
        f.write(text)
        path = f.name
    try:
        p = subprocess.run([OLD_Z3, '-T:%d' % max(1, int(timeout_ms / 1000)), path],
                           capture_output=True, text=True, timeout=timeout_ms / 1000 + 10)
        out = (p.stdout or '').strip().splitlines()
        ans = out[0].strip() if out else 'unknown'
        if ans not in ('sat', 'unsat'):
            ans = 'unknown'
        return {'answer': ans, 'time': time.time() - t0, 'backend': 'z3-4.8.12-cli',
                'detail': None if ans != 'unknown' else ' '.join(out)[:200]}
    except Exception as e:
        return {'answer': 'unknown', 'time': time.time() - t0, 'backend': 'z3-4.8.12-cli', 'detail': repr(e)}
    finally:
        os.unlink(path)


# ---------------------------------------------------------------------- portfolio
def _weak(job):
    return job.get('z3_weak')


def solve_one(job):
    """job: dict(name, z3_text|None, cvc5_text, outputs, budget_ms). Runs in a worker."""
    outputs = job.get('outputs') or []
    budget = job['budget_ms']
    attempts = []
    res = None
    useq_sat = None
    if job.get('fast'):
        # feasibility probe: only a quick `unsat` matters
        if job.get('z3_text'):
            r = run_z3(job['z3_text'], [], budget)
            if r['answer'] == 'sat' and _weak(job):
                r['answer'] = 'unknown'
            r['attempts'] = []
            return r
        r = run_cvc5(job['cvc5_text'], [], budget, want_model=False)
        r['attempts'] = []
        return r
    if job.get('z3_text'):
        res = run_z3(job['z3_text'], outputs, budget)
        attempts.append({k: res.get(k) for k in ('backend', 'answer', 'time', 'detail')})
        if res['answer'] == 'unsat' or (res['answer'] == 'sat' and not _weak(job)):
            res['attempts'] = attempts
            return res
        if res['answer'] == 'sat':
            attempts[-1]['detail'] = 'sat under incomplete cardinality axioms: not trusted'
            res = None
        elif job.get('z3_useq_text'):
            # sequences abstracted to an uninterpreted sort (nth/len): only `unsat` is meaningful
            # (twice the budget: this is the attempt that turns a hard refutation into a verdict)
            r2 = run_z3(job['z3_useq_text'], [], budget * 2)
            r2['backend'] = (r2.get('backend') or 'z3') + '+useq'
            attempts.append({k: r2.get(k) for k in ('backend', 'answer', 'time', 'detail')})
            if r2['answer'] == 'unsat':
                r2['attempts'] = attempts
                return r2
            if r2['answer'] == 'sat':
                useq_sat = r2
    res2 = run_cvc5(job['cvc5_text'], outputs, budget)
    attempts.append({k: res2.get(k) for k in ('backend', 'answer', 'time', 'detail')})
    if res2['answer'] not in ('sat', 'unsat') and job.get('z3_text') and os.path.exists(OLD_Z3) \
            and 'lambda' not in job['z3_text']:
        res3 = run_z3_cli(job['z3_text'], budget)
        attempts.append({k: res3.get(k) for k in ('backend', 'answer', 'time', 'detail')})
        if res3['answer'] == 'unsat' or (res3['answer'] == 'sat' and not _weak(job)):
            res3['attempts'] = attempts
            return res3
    res2['attempts'] = attempts
    if res2['answer'] == 'error' and res is not None and res['answer'] != 'error':
        res['attempts'] = attempts
        return res
    if res2['answer'] not in ('sat', 'unsat') and useq_sat is None and job.get('z3_interp_text') and not _weak(job):
        r4 = run_z3(job['z3_interp_text'], [], budget)
        r4['backend'] = (r4.get('backend') or 'z3') + '+instance'
        attempts.append({k: r4.get(k) for k in ('backend', 'answer', 'time', 'detail')})
        if r4['answer'] == 'sat':
            return {'answer': 'sat', 'backend': r4['backend'], 'time': r4.get('time'),
                    'detail': 'refuted in a concrete finite instance of the abstract sorts (no input extracted)',
                    'attempts': attempts, 'abstract_model': True}
    if res2['answer'] not in ('sat', 'unsat') and useq_sat is not None:
        # no exact back end decided; the obligation is refuted in the sequence abstraction
        # (sequences as an uninterpreted sort with nth/len): reported as a refutation without input
        return {'answer': 'sat', 'backend': useq_sat['backend'], 'time': useq_sat.get('time'),
                'detail': 'refuted in the sequence abstraction only (no concrete model)', 'attempts': attempts,
                'abstract_model': True}
    return res2


_INSTANCE_THEOREMS = {}


def _axiom_of_instance(t, interp):
    """closed universally quantified formula over the interpreted symbols only, valid in the instance"""
    if t.op != 'forall':
        return False
    decls, sorts = {}, set()
    smt.collect(t, decls, sorts)
    if any(name not in interp['funs'] for (_, name) in decls):
        return False
    if any(srt not in interp['sorts'] for _, srt in t.data):
        return False
    import re
    key = re.sub(r'_\d+\b', '_', smt.to_smt(t, 'z3'))
    if key not in _INSTANCE_THEOREMS:
        # decided by the z3 binary in a subprocess: the parent process must stay free of solver state (it forks
        # the worker pool)
        r = run_z3_cli(smt.script([smt.Not(t)], 'z3', None, interp=interp), 20000)
        _INSTANCE_THEOREMS[key] = (r['answer'] == 'unsat')
    return _INSTANCE_THEOREMS[key]


def make_job(name, assertions, outputs=None, budget_ms=10000, interp=None):
    outs = {'out!' + k: v for k, v in (outputs or {}).items()}
    z3_text = None
    weak = _needs_cvc5(list(assertions) + list(outs.values()))
    try:
        z3_text = smt.script(assertions, 'z3', outs)
    except smt.Unsupported:
        z3_text = None
    cvc5_text = smt.script(assertions, 'cvc5', outs)
    useq_text = None
    if any(smt.uses_op(t, {'forall', 'exists'}) and smt.uses_op(t, {'seq.nth', 'seq.len'}) for t in assertions):
        try:
            useq_text = smt.script(assertions, 'z3', None, useq=True)
        except smt.Unsupported:
            useq_text = None
    interp_text = None
    if interp is not None:
        # the same query with the abstract sorts replaced by a concrete finite instance: `sat` there is a
        # genuine counter-model of the abstract query.  Axioms that only talk about the interpreted symbols
        # are theorems of the instance (checked once each, below) and are left out of the instance query.
        try:
            kept = [a for a in assertions if not _axiom_of_instance(a, interp)]
            interp_text = smt.script(kept, 'z3', None, useq=useq_text is not None, interp=interp)
        except smt.Unsupported:
            interp_text = None
    return {'name': name, 'z3_text': z3_text, 'cvc5_text': cvc5_text, 'z3_weak': weak,
            'z3_useq_text': useq_text, 'z3_interp_text': interp_text,
            'outputs': list(outs), 'budget_ms': budget_ms}


_POOL = None


def pool(n=None):
    global _POOL
    if _POOL is None:
        n = n or min(16, os.cpu_count() or 4)
        ctx = mp.get_context('fork')
        _POOL = ctx.Pool(n)
    return _POOL


def close_pool():
    global _POOL
    if _POOL is not None:
        _POOL.terminate()
        _POOL = None


def solve_many(jobs, hard_factor=4):
    """Solve a list of jobs in parallel; returns results in order."""
    if not jobs:
        return []
    p = pool()
    asyncs = [p.apply_async(solve_one, (j,)) for j in jobs]
    out = []
    for j, a in zip(jobs, asyncs):
        try:
            r = a.get(timeout=hard_factor * j['budget_ms'] / 1000.0 + 30)
            if 'model' in r:
                r['model'] = {k[4:] if k.startswith('out!') else k: v
                              for k, v in r['model'].items()}
            out.append(r)
        except mp.TimeoutError:
            out.append({'answer': 'unknown', 'detail': 'hard timeout', 'time': None,
                        'attempts': []})
        except Exception as e:  # worker crashed
            out.append({'answer': 'error', 'detail': repr(e), 'time': None, 'attempts': []})
    return out


def quick_sat(assertions, timeout_ms=300):
    """In-process feasibility test used for path pruning: returns 'unsat' only
    when z3 proves it; anything else counts as feasible."""
    if _needs_cvc5(assertions):
        # z3 with the weak cardinality axioms can only prove infeasibility
        try:
            if run_z3(smt.script(assertions, 'z3'), [], timeout_ms)['answer'] == 'unsat':
                return 'unsat'
        except smt.Unsupported:
            pass
        return run_cvc5(smt.script(assertions, 'cvc5'), [], timeout_ms, want_model=False)['answer']
    try:
        text = smt.script(assertions, 'z3')
    except smt.Unsupported:
        return 'unknown'
    return run_z3(text, [], timeout_ms)['answer']
