#!/usr/bin/env python3
"""Kill-matrix runner: apply each deliberate mutant of specs/mutants.json to /repo's
working tree, run the property's check, restore the tree.  usage: tools/mut.py [Cxx ...]"""
import json, subprocess, sys, os
ROOT = os.path.dirname(os.path.dirname(os.path.abspath(__file__)))
muts = json.load(open(os.path.join(ROOT, 'specs', 'mutants.json')))
want = set(sys.argv[1:])
assert subprocess.run(['git', '-C', '/repo', 'status', '--porcelain'], capture_output=True, text=True).stdout.strip() == '', '/repo not clean'
res = []
for m in muts:
    if want and m['property'] not in want and m['name'] not in want:
        continue
    p = os.path.join('/repo', m['file'])
    src = open(p).read()
    if src.count(m['old']) != 1:
        print('SKIP %s: pattern occurs %d times' % (m['name'], src.count(m['old'])))
        continue
    try:
        open(p, 'w').write(src.replace(m['old'], m['new']))
        r = subprocess.run([os.path.join(ROOT, 'check'), m['property']], capture_output=True, text=True, cwd=ROOT,
                           env=dict(os.environ, PYVC_EVIDENCE_DIR='/tmp/pyvc-mutant-evidence'))
    finally:
        subprocess.run(['git', '-C', '/repo', 'checkout', '--', '.'])
    last = r.stdout.strip().splitlines()[-1] if r.stdout.strip() else r.stderr[-300:]
    verdict = {0: 'SURVIVED', 1: 'KILLED', 2: 'undecided', 3: 'checker-error'}.get(r.returncode, str(r.returncode))
    print('%-10s %-40s exit=%d %s' % (verdict, m['name'], r.returncode, last[:160]))
    for ln in r.stdout.splitlines():
        if ln.startswith(('VIOLATION', 'UNDECIDED', 'CHECKER')):
            print('      ', ln[:220])
    res.append((m['name'], r.returncode))
    rf = os.path.join(ROOT, 'specs', 'mutants_results.json')
    allres = json.load(open(rf)) if os.path.exists(rf) else {}
    allres[m['name']] = {'property': m['property'], 'verdict': verdict, 'exit': r.returncode,
                         'lines': [ln[:200] for ln in r.stdout.splitlines() if ln.startswith(('VIOLATION', 'UNDECIDED'))][:3]}
    json.dump(allres, open(rf, 'w'), indent=1, sort_keys=True)
sys.exit(0 if all(c == 1 for _, c in res) else 1)
