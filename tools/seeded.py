#!/usr/bin/env python3
"""Run the registered quick check of each seeded change under /verif/seeded/<id>-k/ (patch.diff,
demo.py, meta.json): apply to /repo's working tree, run ./check <property>, undo.  usage:
tools/seeded.py [name-or-property ...]; writes seeded/RESULTS.json"""
import json, os, subprocess, sys
ROOT = os.path.dirname(os.path.dirname(os.path.abspath(__file__)))
SD = os.path.join(ROOT, 'seeded')
want = set(sys.argv[1:])
assert subprocess.run(['git', '-C', '/repo', 'status', '--porcelain'], capture_output=True, text=True).stdout.strip() == '', '/repo not clean'
resf = os.path.join(SD, 'RESULTS.json')
results = json.load(open(resf)) if os.path.exists(resf) else {}
for name in sorted(os.listdir(SD)):
    d = os.path.join(SD, name)
    if not os.path.isdir(d) or not os.path.exists(os.path.join(d, 'patch.diff')):
        continue
    meta = json.load(open(os.path.join(d, 'meta.json')))
    pid = meta['property']
    if want and name not in want and pid not in want:
        continue
    try:
        r0 = subprocess.run(['git', '-C', '/repo', 'apply', os.path.join(d, 'patch.diff')], capture_output=True, text=True)
        if r0.returncode != 0:
            print('PATCH-FAILS', name, r0.stderr[:200]); continue
        r = subprocess.run([os.path.join(ROOT, 'check'), pid], capture_output=True, text=True, cwd=ROOT,
                           env=dict(os.environ, PYVC_EVIDENCE_DIR='/tmp/pyvc-mutant-evidence'))
        demo = subprocess.run(['/venv/bin/python', os.path.join(d, 'demo.py')], capture_output=True, text=True, cwd='/repo')
    finally:
        subprocess.run(['git', '-C', '/repo', 'checkout', '--', '.'])
        subprocess.run(['git', '-C', '/repo', 'clean', '-fdq'])
    lines = [ln for ln in r.stdout.splitlines() if ln.startswith(('VIOLATION', 'UNDECIDED', 'CHECKER'))]
    verdict = {0: 'MISSED', 1: 'CAUGHT', 2: 'undecided', 3: 'checker-error'}.get(r.returncode, str(r.returncode))
    results[name] = {'property': pid, 'verdict': verdict, 'exit': r.returncode, 'demo_exit_on_patched_tree': demo.returncode,
                     'summary': meta.get('summary'), 'lines': lines[:4]}
    print('%-10s %-8s demo=%d %s' % (verdict, name, demo.returncode, (meta.get('summary') or '')[:110]))
    for ln in lines[:3]:
        print('      ', ln[:200])
json.dump(results, open(resf, 'w'), indent=1, sort_keys=True)
