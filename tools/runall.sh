#!/bin/bash
# run every check registered in MANIFEST.json on the current tree (regenerates evidence/)
cd "$(dirname "$0")/.."
tier=${1:-quick}
for id in $(python3 -c "import json;print(' '.join(c['property_id'] for c in json.load(open('MANIFEST.json'))['checks']))"); do
  ./check $id --tier $tier | tail -1
done
