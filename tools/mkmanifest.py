#!/usr/bin/env python3
"""Regenerate MANIFEST.json from the table below (kept valid at all times)."""
import json, os
ROOT = os.path.dirname(os.path.dirname(os.path.abspath(__file__)))
ALL = ['C%02d' % i for i in range(1, 21)]
TABLE = json.load(open(os.path.join(ROOT, 'tools', 'manifest_table.json')))
checks = []
for pid in ALL:
    e = TABLE.get(pid)
    if not e or e.get('not_applicable'):
        continue
    checks.append({
        'property_id': pid,
        'quick_cmd': './check %s --tier quick' % pid,
        'thorough_cmd': './check %s --tier thorough' % pid,
        'evidence_file': 'evidence/%s.json' % pid,
        'replay_cmd_template': './check %s --replay {path}' % pid,
        'engine': 'pyvc',
        'level_claimed': {'category': e['category'], 'text': e['text'], 'design_ref': e.get('design_ref', 'DESIGN.md section 5, ' + pid)},
        'level_note': e['note'],
        'technique': e['technique'],
    })
na = [{'property_id': pid, 'reason': (TABLE.get(pid) or {}).get('reason', 'no check built yet for this property (work in progress); nothing is claimed')}
      for pid in ALL if not TABLE.get(pid) or TABLE[pid].get('not_applicable')]
man = {
    'version': 1,
    'setup_cmd': './setup.sh',
    'hooks': {'guard': 'BERT_E_VERIF', 'enable': 'none needed: scality/bert-e is not instrumented; checks read /repo source and import its modules', 'baseline_off_cmd': 'cd /repo && /venv/bin/python -m pytest -ra -q -p no:cacheprovider --timeout=900 --continue-on-collection-errors', 'source_commits': [], 'add_only': True},
    'engines': [{'name': 'pyvc', 'path': 'pyvc/', 'serves_properties': [c['property_id'] for c in checks],
                 'kind_free_text': 'home-built verification-condition generator: symbolic execution of the AST of the real functions of /repo against sidecar contracts (specs/), obligations discharged by z3 5.1 and cvc5 1.4; bounded stand-ins (bounded/) on the real functions where labelled'}],
    'checks': checks,
    'not_applicable': na,
    'notes': 'See DESIGN.md. Exit codes of ./check: 0 held, 1 violation, 2 undecided (proof no longer goes through, nothing found wrong), 3 checker error.',
}
json.dump(man, open(os.path.join(ROOT, 'MANIFEST.json'), 'w'), indent=1)
print('checks:', [c['property_id'] for c in checks])
