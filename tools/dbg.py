#!/usr/bin/env python3
"""tools/dbg.py Cxx [substring]: run the deductive part and dump non-unsat obligations."""
import sys, json, os
ROOT = os.path.dirname(os.path.dirname(os.path.abspath(__file__)))
sys.path.insert(0, ROOT); sys.path.insert(0, '/repo')
import importlib
from pyvc import verify, solvers
pid = sys.argv[1]; sub = sys.argv[2] if len(sys.argv) > 2 else ''
mod = importlib.import_module('specs.' + pid.lower())
env = mod.base_env()
for c in mod.contracts(env):
    if len(sys.argv) > 3 and sys.argv[3] not in c.target: continue
    r = verify.verify_function(env, c, budget_ms=10000)
    print(c.target, r.status, r.detail[:3000], 'paths', r.paths, 'covers', r.covers, 'missing', r.missing_covers)
    n = 0
    for o in r.obligations:
        if o['answer'] != 'unsat' and sub in o['name']:
            print('==', o['name'], o['answer'], o.get('backend'), o.get('detail'), o['where'])
            print(json.dumps(o.get('model'), default=str)[:1500])
            if n == 0:
                open('/tmp/dbg.smt2', 'w').write(o.get('smt2') or '')
                open('/tmp/dbg_z3.smt2', 'w').write(o.get('z3_smt2') or '')
                print(o.get('attempts'))
                print('smt2 -> /tmp/dbg.smt2')
            if c.replay and o.get('model'): print('replay:', c.replay(o['model']))
            n += 1
            if n >= 3: break
solvers.close_pool()
