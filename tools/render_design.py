#!/usr/bin/env python3
"""Render DESIGN.md section 10 from DESIGN_asbuilt.md + the machine-written result files
(evidence/*.json, known_findings.json, specs/mutants_results.json, seeded/RESULTS.json)."""
import json, os, re
ROOT = os.path.dirname(os.path.dirname(os.path.abspath(__file__)))
J = lambda *p: json.load(open(os.path.join(ROOT, *p)))  # noqa: E731
design = open(os.path.join(ROOT, 'DESIGN.md')).read()
MARK = '\n## 10. As built'
if MARK in design:
    design = design[:design.index(MARK)]
body = open(os.path.join(ROOT, 'DESIGN_asbuilt.md')).read()
man = J('MANIFEST.json')
tech = {c['property_id']: c for c in man['checks']}
rows = ['| id | deciding method (MANIFEST `technique`) | functions under contract | obligations discharged | bounded cases | known findings |',
        '|---|---|---|---|---|---|']
for pid in ['C%02d' % i for i in range(1, 21)]:
    c = tech.get(pid)
    if not c:
        na = [n for n in man['not_applicable'] if n['property_id'] == pid]
        rows.append('| %s | not applicable: %s | | | | |' % (pid, na[0]['reason'] if na else ''))
        continue
    try:
        ev = J('evidence', pid + '.json')
        cov = ev['coverage']
        fns = len(cov.get('functions_under_contract', []))
        ob = '%s / %s' % (cov.get('discharged'), cov.get('obligations'))
        bc = sum(int(b.get('cases') or 0) for b in cov.get('bounded', []))
        kf = ', '.join(sorted({k['finding'] for k in cov.get('known_findings_reproduced', [])}))
    except Exception:
        fns, ob, bc, kf = '?', '?', '?', ''
    rows.append('| %s | %s | %s | %s | %s | %s |' % (pid, c['technique'], fns, ob, bc or '', kf))
body = body.replace('@@STATUS_TABLE@@', '\n'.join(rows))
kf = J('known_findings.json')
frows = ['| property | commit | what failed |', '|---|---|---|']
for line in kf['fixed']:
    m = re.match(r'fixed: property=(\S+) (\S+) (.*)', line)
    frows.append('| %s | `%s` | %s |' % (m.group(1), m.group(2), m.group(3).replace('|', '\\|')))
body = body.replace('@@FIXED_TABLE@@', '\n'.join(frows))
krows = ['| id | property | what fails | why not repaired |', '|---|---|---|---|']
for f in kf['findings']:
    krows.append('| %s | %s | %s | %s |' % (f['id'], f['property'], f['what'].replace('|', '\\|'),
                                            f.get('why_not_fixed', '').replace('|', '\\|')))
body = body.replace('@@KNOWN_TABLE@@', '\n'.join(krows))
try:
    mr = J('specs', 'mutants_results.json')
except Exception:
    mr = {}
muts = J('specs', 'mutants.json')
by = {}
for m in muts:
    r = mr.get(m['name'])
    by.setdefault(m['property'], []).append((m['name'], r['verdict'] if r else 'not run'))
mrows = ['| property | mutants | killed (exit 1) | undecided (exit 2) | survived | names of those not killed |', '|---|---|---|---|---|---|']
for pid in sorted(by):
    v = by[pid]
    nk = [n for n, x in v if x != 'KILLED']
    mrows.append('| %s | %d | %d | %d | %d | %s |' % (
        pid, len(v), sum(1 for _, x in v if x == 'KILLED'), sum(1 for _, x in v if x == 'undecided'),
        sum(1 for _, x in v if x == 'SURVIVED'), ', '.join('%s (%s)' % (n, dict(v)[n]) for n in nk)))
body = body.replace('@@MUTANT_TABLE@@', '\n'.join(mrows))
try:
    sr = J('seeded', 'RESULTS.json')
except Exception:
    sr = {}
srows = ['| seeded change | property | final verdict of the registered check | demo on changed tree | what was changed |', '|---|---|---|---|---|']
for name in sorted(sr):
    r = sr[name]
    srows.append('| %s | %s | %s | exit %s | %s |' % (name, r['property'], r['verdict'], r.get('demo_exit_on_patched_tree'),
                                                 (r.get('summary') or '').replace('|', '\\|')[:260]))
body = body.replace('@@SEEDED_TABLE@@', '\n'.join(srows))
try:
    nr = J('specs', 'neutral_results.json')
except Exception:
    nr = {}
nrows = ['| behaviour-preserving edit | property | verdict of the check |', '|---|---|---|']
for name in sorted(nr):
    nrows.append('| %s | %s | %s%s |' % (name, nr[name]['property'], nr[name]['verdict'],
                                        (' - ' + nr[name]['lines'][0][:160]) if nr[name]['lines'] else ''))
body = body.replace('@@NEUTRAL_TABLE@@', '\n'.join(nrows))
open(os.path.join(ROOT, 'DESIGN.md'), 'w').write(design.rstrip('\n') + '\n\n' + body)
print('DESIGN.md rendered:', len(design.splitlines()), '+', len(body.splitlines()), 'lines')
