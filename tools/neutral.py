#!/usr/bin/env python3
"""Behaviour-preserving edits (specs/neutral.json): apply each to /repo's working tree, run the property's
check, restore.  A check that answers 1 (violation) on such an edit raises a false alarm; 2 (undecided) means the
proof is brittle against that edit.  Results: specs/neutral_results.json"""
import json, os, subprocess, sys
ROOT = os.path.dirname(os.path.dirname(os.path.abspath(__file__)))
edits = json.load(open(os.path.join(ROOT, 'specs', 'neutral.json')))
assert subprocess.run(['git', '-C', '/repo', 'status', '--porcelain'], capture_output=True, text=True).stdout.strip() == '', '/repo not clean'
out = {}
for m in edits:
    if len(sys.argv) > 1 and m['name'] not in sys.argv[1:] and m['property'] not in sys.argv[1:]:
        continue
    p = os.path.join('/repo', m['file'])
    src = open(p).read()
    assert src.count(m['old']) == 1, m['name']
    try:
        open(p, 'w').write(src.replace(m['old'], m['new']))
        r = subprocess.run([os.path.join(ROOT, 'check'), m['property']], capture_output=True, text=True, cwd=ROOT,
                           env=dict(os.environ, PYVC_EVIDENCE_DIR='/tmp/pyvc-mutant-evidence'))
    finally:
        subprocess.run(['git', '-C', '/repo', 'checkout', '--', '.'])
    verdict = {0: 'held', 1: 'FALSE ALARM', 2: 'undecided', 3: 'checker-error'}.get(r.returncode, str(r.returncode))
    lines = [ln[:220] for ln in r.stdout.splitlines() if ln.startswith(('VIOLATION', 'UNDECIDED', 'CHECKER'))][:3]
    out[m['name']] = {'property': m['property'], 'verdict': verdict, 'exit': r.returncode, 'lines': lines}
    print('%-12s %-45s' % (verdict, m['name']))
    for ln in lines:
        print('      ', ln)
rf = os.path.join(ROOT, 'specs', 'neutral_results.json')
allres = json.load(open(rf)) if os.path.exists(rf) else {}
allres.update(out)
json.dump(allres, open(rf, 'w'), indent=1, sort_keys=True)
