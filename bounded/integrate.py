"""Glue between the system-level bounded stand-ins and the property checks.  Bounded, never counted as
proved: each property's evidence gets the scope/case counts of the run and only the failures of the
clauses that belong to that property become violations (keys `bounded:<module>:<signature>`)."""
KEEP = ('name', 'scope', 'cases', 'evaluations', 'distinct_nontrivial', 'rule', 'notes', 'n_failures',
        'failure_signatures', 'clause_counts', 'per_clause', 'exhaustive', 'truncated', 'wall_s', 'wall')


def _add(rep, modname, res, want, what):
    from pyvc.cli import write_replay
    sigs = res.get('failure_signatures') or {}
    rep.bounded.append(dict({k: res.get(k) for k in KEEP if k in res},
                            clauses_counted_for_this_property=sorted(want),
                            failure_signatures_counted={s: n for s, n in sigs.items() if s.split(':')[0] in want}
                            if isinstance(sigs, dict) else None))
    rep.samples.extend((res.get('samples') or [])[:1])
    seen = set()
    fails = res.get('failures') or res.get('violations') or []
    for f in fails:
        clause = f.get('clause') or f.get('signature', '').split(':')[0]
        if clause not in want:
            continue
        k = 'bounded:%s:%s' % (modname, f.get('signature', clause))
        if k in seen:
            continue
        seen.add(k)
        path = write_replay(rep.pid, k, f)
        rep.violations.append({'key': k, 'what': '%s: %s' % (what, f.get('signature', clause)), 'replay': path,
                               'input': f.get('case'), 'noinput': False})
    if res.get('error'):
        rep.errors.append('bounded/%s.py: %s' % (modname, str(res['error'])[:300]))


def system_histories(rep, tier, seed, clauses):
    from bounded import system_histories as sh
    _add(rep, 'system_histories', sh.run(tier, seed), set(clauses), 'history of real evaluations')


def crash(rep, tier, seed, clauses=('all_or_none', 'inclusion', 'recovery_same_trees')):
    from bounded import c02_crash
    _add(rep, 'c02_crash', c02_crash.run(tier, seed), set(clauses), 'fault injection')


def replay(data):
    case = data.get('case')
    if not isinstance(case, dict):
        return None
    if 'fault' in case:
        from bounded import c02_crash
        return c02_crash.replay(case)
    if 'events' in case:
        from bounded import system_histories as sh
        return sh.replay(data if 'signature' in data else case)
    return None
