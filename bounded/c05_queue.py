"""Bounded exhaustive check of property C05 (queue evaluation) on the REAL
``QueueCollection`` / ``BranchCascade`` / ``merge_queues`` of bert-e, running
on the in-memory ``FakeRepo``.

    python bounded/c05_queue.py [quick|thorough] [seed]

See ``run.__doc__`` / the 'rule' and 'scope' keys of the result for what is
enumerated and how.
"""
import sys

sys.dont_write_bytecode = True
for _p in ('/repo', '/verif'):
    if _p not in sys.path:
        sys.path.insert(0, _p)

import itertools  # noqa: E402
import json  # noqa: E402
import logging  # noqa: E402
import multiprocessing  # noqa: E402
import random  # noqa: E402
import re  # noqa: E402
import time  # noqa: E402
import warnings  # noqa: E402
from types import SimpleNamespace  # noqa: E402

warnings.filterwarnings('ignore')

from harness.fakerepo import FakeRepo  # noqa: E402
from bert_e import exceptions as berte_exceptions  # noqa: E402
from bert_e.workflow import git_utils  # noqa: E402
from bert_e.workflow.gitwaterflow import branches as gwf  # noqa: E402
from bert_e.workflow.gitwaterflow import integration  # noqa: E402
from bert_e.workflow.gitwaterflow import queueing  # noqa: E402

logging.disable(logging.CRITICAL)

NAME = 'c05_queue'
BUILD_KEY = 'pre-merge'
GREEN = 'SUCCESSFUL'
NONGREEN = ('FAILED', 'INPROGRESS', 'NOTSTARTED', 'STOPPED')
STATUSES = (GREEN,) + NONGREEN

# ----------------------------------------------------------------------- #
# the fixed vocabulary of the scope
# ----------------------------------------------------------------------- #
VERSIONS = ('4.3', '5.1', '10.0')
STAB_OF = {'4.3': '4.3.18', '5.1': '5.1.4', '10.0': '10.0.1'}
RELEASED_TAG = {'4.3': '4.3.17', '5.1': '5.1.3', '10.0': '10.0.0'}
HOTFIX_BRANCH = 'hotfix/4.2.17'
HOTFIX_TAG = '4.2.17.0'
HOTFIX_QVERSION = '4.2.17.1'


def all_shapes():
    """Every cascade shape of the scope: 1..3 development versions (always a
    leading part of 4.3 < 5.1 < 10.0 - only the number of versions and where
    the stabilization branches hang matters), any subset of them carrying a
    stabilization branch, optional hotfix/4.2.17 (+ tag 4.2.17.0)."""
    shapes = []
    for n in (1, 2, 3):
        devs = VERSIONS[:n]
        for r in range(n + 1):
            for stabs in itertools.combinations(devs, r):
                for hotfix in (False, True):
                    shapes.append({'devs': list(devs), 'stabs': list(stabs),
                                   'hotfix': hotfix})
    return shapes


def destinations(shape):
    """Branches a pull request may target in this cascade."""
    out = []
    if shape['hotfix']:
        out.append(HOTFIX_BRANCH)
    for v in shape['devs']:
        if v in shape['stabs']:
            out.append('stabilization/' + STAB_OF[v])
        out.append('development/' + v)
    return out


# ----------------------------------------------------------------------- #
# ORACLE - written from the property statement only.  It never looks at a
# repository: a queue is the list of pull requests in entry order, each with
# the list of versions it targets.
# ----------------------------------------------------------------------- #
def oracle_targets(shape, dest):
    """Queue versions targeted by a PR whose destination branch is dest."""
    kind, ver = dest.split('/')
    if kind == 'hotfix':
        return [HOTFIX_QVERSION]
    devs = list(shape['devs'])
    if kind == 'development':
        return devs[devs.index(ver):]
    base = '.'.join(ver.split('.')[:2])
    return [ver] + devs[devs.index(base):]


def branch_of_version(version):
    n = version.count('.') + 1
    if n == 2:
        return 'development/' + version
    if n == 3:
        return 'stabilization/' + version
    return 'hotfix/' + version.rsplit('.', 1)[0]


def oracle_queues(shape, prs):
    """Split the entry-ordered PR list into the independent queues of the
    property: the main queue and one queue per hotfix branch.
    Returns {queue_name: [(pr_id, [versions])...]} in entry order."""
    queues = {'main': []}
    for pr_id, dest in enumerate(prs, 1):
        tg = oracle_targets(shape, dest)
        name = dest if dest.startswith('hotfix/') else 'main'
        queues.setdefault(name, []).append((pr_id, tg))
    return queues


def prefix_heads(queue, j):
    """{version: pr_id of the newest PR among the first j that targets it}"""
    heads = {}
    for pr_id, tg in queue[:j]:
        for v in tg:
            heads[v] = pr_id
    return heads


def oracle(shape, prs, status, force_merge):
    """status: {(pr_id, version): status string}.
    Returns (selected pr ids (set), {destination branch: (pr_id, version)})"""
    selected, moves = set(), {}
    for queue in oracle_queues(shape, prs).values():
        best = 0
        if force_merge:
            best = len(queue)
        else:
            for j in range(len(queue), -1, -1):       # longest prefix first
                heads = prefix_heads(queue, j)
                if all(status[(p, v)] == GREEN for v, p in heads.items()):
                    best = j
                    break
        selected |= {pr_id for pr_id, _ in queue[:best]}
        for v, p in prefix_heads(queue, best).items():
            moves[branch_of_version(v)] = (p, v)
    return selected, moves


# ----------------------------------------------------------------------- #
# building the repository with the real bert-e code
# ----------------------------------------------------------------------- #
def base_repo(shape):
    """Remote with the cascade's branches and tags, nothing queued."""
    repo = FakeRepo()
    devs = shape['devs']
    first = 'development/' + devs[0]
    root = repo.commit(first, author='root')
    repo.set_tag(HOTFIX_TAG, root)
    if shape['hotfix']:
        repo.create_branch(HOTFIX_BRANCH, root)
        repo.commit(HOTFIX_BRANCH, author='maintainer')
    prev = first
    for i, v in enumerate(devs):
        name = 'development/' + v
        if i:
            repo.create_branch(name, prev)
            repo.commit(name, author='maintainer')
        repo.set_tag(RELEASED_TAG[v], name)
        if v in shape['stabs']:
            repo.create_branch('stabilization/' + STAB_OF[v], name)
            repo.commit('stabilization/' + STAB_OF[v], author='maintainer')
            # the development branch must contain its stabilization branch
            repo.clone()
            gwf.branch_factory(repo, name).merge(
                gwf.branch_factory(repo, 'stabilization/' + STAB_OF[v]))
            repo.push(name)
            repo.reset()
        repo.commit(name, author='maintainer')
        prev = name
    # later development branches must contain the earlier ones
    repo.clone()
    for a, b in zip(devs, devs[1:]):
        gwf.branch_factory(repo, 'development/' + b).merge(
            gwf.branch_factory(repo, 'development/' + a))
        repo.push('development/' + b)
    repo.reset()
    del repo.trace[:]
    return repo


def _pr_job(repo, pr_id, src, dst):
    job = SimpleNamespace()
    job.pull_request = SimpleNamespace(id=pr_id, src_branch=src,
                                       dst_branch=dst)
    job.settings = SimpleNamespace(no_octopus=False)
    job.active_options = []
    job.git = SimpleNamespace(repo=repo, cascade=gwf.BranchCascade(),
                              src_branch=gwf.branch_factory(repo, src),
                              dst_branch=gwf.branch_factory(repo, dst))
    return job


def queue_pull_request(repo, pr_id, dest):
    """What _handle_pull_request does between clone and Queued, restricted to
    its git operations, using the REAL functions: build_branch_cascade,
    cascade.validate, create/update_integration_branches, push, add_to_queue.
    """
    src = 'bugfix/pr%d' % pr_id
    repo.create_branch(src, dest, where='remote')
    repo.commit(src, author='dev%d' % pr_id, where='remote')
    repo.reset()
    repo.clone()
    job = _pr_job(repo, pr_id, src, dest)
    gwf.build_branch_cascade(job)
    job.git.cascade.validate()
    wbranches = list(integration.create_integration_branches(job))
    integration.update_integration_branches(job, wbranches)
    git_utils.push(repo, wbranches[1:])
    queueing.add_to_queue(job, wbranches)
    job.git.cascade.validate()
    return [b.version for b in job.git.cascade.dst_branches]


class Built(object):
    """A repository with a queue in it + bookkeeping."""
    pass


def build_case_repo(shape, prs):
    repo = base_repo(shape)
    built = Built()
    built.repo = repo
    built.shape, built.prs = shape, list(prs)
    built.anomalies = []
    for pr_id, dest in enumerate(prs, 1):
        real_targets = queue_pull_request(repo, pr_id, dest)
        if real_targets != oracle_targets(shape, dest):
            built.anomalies.append(('targets', pr_id, dest, real_targets,
                                    oracle_targets(shape, dest)))
    repo.reset()
    # (pr_id, version) -> sha of the queue commit, in entry order
    built.qw = {}
    for pr_id, dest in enumerate(prs, 1):
        for v in oracle_targets(shape, dest):
            ref = 'q/w/%d/%s/bugfix/pr%d' % (pr_id, v, pr_id)
            built.qw[(pr_id, v)] = repo.remote.get(ref)
    built.keys = list(built.qw)
    built.sha_key = {sha: k for k, sha in built.qw.items()}
    if None in built.sha_key or len(built.sha_key) != len(built.qw):
        built.anomalies.append(('queue refs missing or shared',
                                {('%d:%s' % k): s
                                 for k, s in built.qw.items()}))
    built.dest_branches = destinations(shape)
    built.snapshot = repo.snapshot()
    return built


# ----------------------------------------------------------------------- #
# running the real queue evaluation
# ----------------------------------------------------------------------- #
class NeedDecision(Exception):
    """The code under test asked for a status that is not decided yet."""
    def __init__(self, sha):
        Exception.__init__(self, sha)
        self.sha = sha


class Status(str):
    """A build status that records what it is compared with."""
    log = None

    def __eq__(self, other):
        self.log.add(('==', other if isinstance(other, str) else repr(other)))
        return str.__eq__(self, other)

    def __ne__(self, other):
        self.log.add(('!=', other if isinstance(other, str) else repr(other)))
        return str.__ne__(self, other)

    __hash__ = str.__hash__


class StubHost(object):
    """Stand-in for the git host: answers get_build_status from a (possibly
    partial) assignment {sha: status}."""
    def __init__(self, assign, comparisons):
        self.assign = assign
        self.comparisons = comparisons
        self.asked = []
        self.unknown = []

    def get_build_status(self, sha, key):
        sha = str(sha)
        self.asked.append(sha)
        if key != BUILD_KEY:
            self.unknown.append(('key', key))
        if sha not in self.assign:
            raise NeedDecision(sha)
        st = Status(self.assign[sha])
        st.log = self.comparisons
        return st


_CODE_NAMES = {}
for _n in dir(berte_exceptions):
    _o = getattr(berte_exceptions, _n)
    if isinstance(_o, type) and getattr(_o, 'code', None) is not None:
        _CODE_NAMES.setdefault(str(_o.code), _n)


def incoherence_names(err):
    """names of the errors listed in an IncoherentQueues message"""
    codes = re.findall(r' - \[(\w+)\]', str(err))
    return sorted(_CODE_NAMES.get(c, c) for c in codes) or [str(err)]


def run_real(built, assign, force_merge, comparisons=None):
    """One evaluation of the queues by the real code, as handle_merge_queues
    does it: fresh clone, cascade.build, QueueCollection.build, validate,
    mergeable_prs / mergeable_queues, merge_queues, push --all --prune.
    ``assign`` maps sha -> status (NeedDecision escapes if it is partial).
    """
    repo = built.repo
    repo.restore(built.snapshot)
    repo.reset()
    repo.clone()
    if comparisons is None:
        comparisons = set()
    host = StubHost(assign, comparisons)
    res = {'validate_raised': None, 'asked_before_validate': 0}
    cascade = gwf.BranchCascade()
    cascade.build(repo)
    paths = cascade.get_merge_paths()
    res['merge_paths'] = [[b.name for b in p] for p in paths]
    qc = gwf.QueueCollection(host, BUILD_KEY, paths, force_merge)
    qc.build(repo)
    try:
        qc.validate()
    except berte_exceptions.IncoherentQueues as err:
        res['validate_raised'] = incoherence_names(err)
        return res
    res['asked_before_validate'] = len(host.asked)
    res['queued_prs'] = list(qc.queued_prs)
    res['mergeable_prs'] = list(qc.mergeable_prs)
    mq = qc.mergeable_queues
    res['mergeable_queues'] = {
        '.'.join(map(str, v)): [b.name for b in
                                q[gwf.QueueIntegrationBranch]]
        for v, q in mq.items()}
    before = {d: repo.remote.get(d) for d in built.dest_branches}
    try:
        queueing.merge_queues(mq)
        git_utils.push(repo, prune=True)
    except NeedDecision:
        raise
    except Exception as err:                      # pragma: no cover
        res['error'] = '%s: %s' % (type(err).__name__, err)
    res['moved'] = {d: repo.remote.get(d) for d in built.dest_branches
                    if repo.remote.get(d) != before[d]}
    res['remaining_qw'] = sorted(n for n in repo.remote
                                 if n.startswith('q/w/'))
    res['asked'] = list(host.asked)
    res['unknown'] = host.unknown
    return res


# ----------------------------------------------------------------------- #
# judging one evaluation against the oracle, clause by clause
# ----------------------------------------------------------------------- #
def key_str(key):
    return '%d:%s' % key


def structural_signature(clause, detail, shape, prs):
    """clause + direction + structure of the case (no statuses)."""
    n_paths = 1 + len(shape['stabs'])          # what get_merge_paths yields
    entry = {oracle_targets(shape, d)[0] for d in prs
             if not d.startswith('hotfix/')}
    hf = any(d.startswith('hotfix/') for d in prs)
    return '%s:%s|merge_paths=%d|entry_branches=%d|hotfix_pr=%d' % (
        clause, detail, n_paths, len(entry), int(hf))


def expected_moves_for(shape, prs, selected):
    """clause (b): given a set of selected PRs, where must each destination
    branch go?  {destination branch: (pr_id, version)}"""
    moves = {}
    for pr_id, dest in enumerate(prs, 1):
        if pr_id in selected:
            for v in oracle_targets(shape, dest):
                moves[branch_of_version(v)] = (pr_id, v)
    return moves


def judge(built, status, force_merge, res):
    """Slow, dictionary based judgement of one real evaluation ``res``
    (output of run_real) under the full status assignment
    ``status`` {(pr, version): str}.  Returns a list of failed clauses:
    [{'clause', 'detail', 'expected', 'got'}] (empty = property holds)."""
    shape, prs = built.shape, built.prs
    out = []
    if res.get('validate_raised'):
        return [{'clause': 'validate_raised', 'detail': 'validate',
                 'expected': 'validate() returns for a queue built by '
                 'add_to_queue', 'got': res['validate_raised']}]
    if res.get('error'):
        out.append({'clause': 'exception', 'detail': 'merge',
                    'expected': 'no exception', 'got': res['error']})
    exp_sel, _ = oracle(shape, prs, status, force_merge)
    got_sel = set(res['mergeable_prs'])
    # (a) prefix + maximality
    if got_sel != exp_sel or len(got_sel) != len(res['mergeable_prs']):
        if got_sel > exp_sel:
            detail = 'over-selects'
        elif got_sel < exp_sel:
            detail = 'under-selects'
        else:
            detail = 'incomparable'
        out.append({'clause': 'a', 'detail': detail,
                    'expected': sorted(exp_sel),
                    'got': list(res['mergeable_prs'])})
    # (b) destinations moved exactly to the queue commit of the newest
    #     selected PR (judged against the code's own selection)
    exp_moves = {d: built.qw[k] for d, k in
                 expected_moves_for(shape, prs, got_sel).items()}
    if res['moved'] != exp_moves:
        def show(moves):
            return {d: key_str(built.sha_key[s]) if s in built.sha_key
                    else s for d, s in sorted(moves.items())}
        out.append({'clause': 'b', 'detail': 'moves',
                    'expected': show(exp_moves), 'got': show(res['moved'])})
    # (c) every commit a destination moved to is SUCCESSFUL
    if not force_merge:
        bad = {}
        for d, sha in sorted(res['moved'].items()):
            k = built.sha_key.get(sha)
            st = status.get(k) if k else 'not a queue commit'
            if st != GREEN:
                bad[d] = [key_str(k) if k else sha, st]
        if bad:
            out.append({'clause': 'c', 'detail': 'red-commit-merged',
                        'expected': 'every destination moves to a '
                        'SUCCESSFUL commit', 'got': bad})
    # (d) queued_prs
    out.extend(judge_queued(prs, res['queued_prs']))
    return out


def judge_queued(prs, queued):
    non_hf = [i for i, d in enumerate(prs, 1) if not d.startswith('hotfix/')]
    got_non_hf = [p for p in queued if p in non_hf]
    hf = [i for i, d in enumerate(prs, 1) if d.startswith('hotfix/')]
    got_hf = [p for p in queued if p in hf]
    # (the pull requests of one hotfix queue are listed in entry order too)
    if got_non_hf != non_hf or got_hf != hf or \
            sorted(queued) != list(range(1, len(prs) + 1)):
        return [{'clause': 'd', 'detail': 'queued_prs',
                 'expected': {'non_hotfix_in_entry_order': non_hf,
                              'hotfix_in_entry_order': hf,
                              'all': list(range(1, len(prs) + 1))},
                 'got': list(queued)}]
    return []


def make_case(shape, prs, force_merge, status):
    return {'devs': list(shape['devs']), 'stabs': list(shape['stabs']),
            'hotfix': bool(shape['hotfix']), 'prs': list(prs),
            'force_merge': bool(force_merge),
            'status': {key_str(k): v for k, v in status.items()}}


def case_parts(case):
    shape = {'devs': list(case['devs']), 'stabs': list(case['stabs']),
             'hotfix': bool(case['hotfix'])}
    prs = list(case['prs'])
    status = {}
    for k, v in (case.get('status') or {}).items():
        pr, ver = k.split(':')
        status[(int(pr), ver)] = v
    return shape, prs, bool(case.get('force_merge')), status


def replay(case):
    """Re-run one case through the unmodified slow path (fresh repository,
    fresh clone, real cascade / QueueCollection / merge_queues / push)."""
    shape, prs, force, status = case_parts(case)
    built = build_case_repo(shape, prs)
    for k in built.keys:
        status.setdefault(k, 'NOTSTARTED')
    assign = {built.qw[k]: status[k] for k in built.keys}
    comparisons = set()
    res = run_real(built, assign, force, comparisons)
    failed = judge(built, status, force, res)
    if built.anomalies:
        failed.append({'clause': 'build', 'detail': 'anomaly',
                       'expected': 'none', 'got': repr(built.anomalies)})
    exp_sel, exp_moves = oracle(shape, prs, status, force)
    summary = {
        'selected': res.get('mergeable_prs'),
        'queued_prs': res.get('queued_prs'),
        'moved': {d: key_str(built.sha_key[s]) if s in built.sha_key else s
                  for d, s in sorted(res.get('moved', {}).items())},
        'oracle_selected': sorted(exp_sel),
        'oracle_moves': {d: key_str(k) for d, k in sorted(exp_moves.items())},
        'merge_paths': res.get('merge_paths'),
        'status_comparisons_seen': sorted(map(list, comparisons)),
    }
    first = failed[0] if failed else None
    return {'ok': not failed,
            'clause': first['clause'] if first else None,
            'expected': first['expected'] if first else None,
            'got': first['got'] if first else None,
            'failed_clauses': failed, 'result': summary}


# ----------------------------------------------------------------------- #
# fast path: one prepared QueueCollection per (shape, prs, force), then one
# real QueueCollection._process() per status assignment
# ----------------------------------------------------------------------- #
import copy as _copy  # noqa: E402
from bert_e.lib import git as _git  # noqa: E402

_BRANCH_TYPES = [_git.Branch] + [
    t for t in vars(gwf).values()
    if isinstance(t, type) and issubclass(t, _git.Branch)]


def fast_copy(enabled):
    """The real _process()/validate() deep-copy the whole queue dictionary
    once per merge path; ~80% of that time is spent re-creating Branch
    objects that are never mutated afterwards.  In the fast path the Branch
    classes are registered as atomic for copy.deepcopy (dicts and lists - the
    only things the code pops from - are still really copied).  The slow path
    (replay, cross-checks) runs with the registration removed."""
    for t in _BRANCH_TYPES:
        if enabled:
            _copy._deepcopy_dispatch[t] = _copy._deepcopy_atomic
        else:
            _copy._deepcopy_dispatch.pop(t, None)


class Prepared(object):
    """Everything of handle_merge_queues that does not depend on statuses,
    done once: fresh clone, cascade.build, QueueCollection.build, validate,
    queued_prs."""

    def __init__(self, built, force_merge, comparisons):
        self.built = built
        self.force = force_merge
        repo = built.repo
        repo.restore(built.snapshot)
        repo.reset()
        repo.clone()
        self.host = StubHost({}, comparisons)
        cascade = gwf.BranchCascade()
        cascade.build(repo)
        self.paths = cascade.get_merge_paths()
        self.qc = gwf.QueueCollection(self.host, BUILD_KEY, self.paths,
                                      force_merge)
        self.qc.build(repo)
        self.validate_raised = None
        try:
            self.qc.validate()
        except berte_exceptions.IncoherentQueues as err:
            self.validate_raised = incoherence_names(err)
            return
        self.asked_early = len(self.host.asked)
        self.queued = list(self.qc.queued_prs)
        self.snap = repo.snapshot()
        self.merge_memo = {}

    def evaluate(self, assign):
        """-> (mergeable_prs tuple, moved {dest: sha}, error or None).
        merge_queues + push are a deterministic function of the repository
        (always restored to the post-validate snapshot) and of
        mergeable_queues, so their outcome is memoised per distinct
        mergeable_queues content."""
        host, qc, repo = self.host, self.qc, self.built.repo
        host.assign = assign
        del host.asked[:]
        qc._process()
        prs = tuple(qc.mergeable_prs)
        mq = qc.mergeable_queues
        sig = tuple((v, tuple(b.name for b in q[gwf.QueueIntegrationBranch]))
                    for v, q in mq.items())
        got = self.merge_memo.get(sig)
        if got is None:
            before = {d: repo.remote.get(d) for d in self.built.dest_branches}
            err = None
            try:
                queueing.merge_queues(mq)
                git_utils.push(repo, prune=True)
            except Exception as exc:              # pragma: no cover
                err = '%s: %s' % (type(exc).__name__, exc)
            moved = {d: repo.remote.get(d) for d in self.built.dest_branches
                     if repo.remote.get(d) != before[d]}
            repo.restore(self.snap)
            got = self.merge_memo[sig] = (moved, err)
        return prs, got[0], got[1]


def popcount(x):
    return bin(x).count('1')


class Acc(object):
    """Accumulates verdicts of one worker task."""

    def __init__(self):
        self.cases = 0
        self.nontrivial = 0
        self.n_failures = 0
        self.sigs = {}
        self.examples = {}       # signature -> [(size key, failure dict)]
        self.samples = []
        self.cross = 0
        self.cross_mismatch = []
        self.comparisons = set()
        self.anomalies = []
        self.evals = 0
        self.direct4 = 0
        self.direct4_fail = 0

    def fail(self, sig, size_key, failure):
        self.sigs[sig] = self.sigs.get(sig, 0) + 1
        ex = self.examples.setdefault(sig, [])
        if len(ex) < 3 or size_key < ex[-1][0]:
            ex.append((size_key, failure))
            ex.sort(key=lambda e: e[0])
            del ex[3:]


def status_of_mask(keys, mask, seed):
    """The concrete 4-valued assignment standing for a green/non-green
    pattern: non-green commits rotate through FAILED/INPROGRESS/NOTSTARTED
    (mixed within one assignment)."""
    rot = popcount(mask) + seed
    return {k: (GREEN if mask >> i & 1 else NONGREEN[(i + rot) % len(NONGREEN)])
            for i, k in enumerate(keys)}


def check_tuple(shape, prs, seed, acc, forces=(False, True),
                cross_every=1024, direct4_max_m=0, mask_filter=None):
    """All status assignments of one (cascade shape, PR destination tuple)."""
    built = build_case_repo(shape, prs)
    keys = built.keys
    m = len(keys)
    shas = [built.qw[k] for k in keys]
    bit_of_sha = {s: i for i, s in enumerate(shas)}
    size0 = (len(prs), len(shape['devs']) + len(shape['stabs']) +
             int(shape['hotfix']), m)
    if built.anomalies:
        acc.anomalies.append({'shape': shape, 'prs': list(prs),
                              'anomaly': repr(built.anomalies)})
    # --- oracle tables (from the declarative definitions above) ---------
    queues = list(oracle_queues(shape, prs).values())
    bit_of_key = {k: i for i, k in enumerate(keys)}
    need = []                    # per queue: need[j] = mask of prefix heads
    for q in queues:
        need.append([sum(1 << bit_of_key[(p, v)]
                         for v, p in prefix_heads(q, j).items())
                     for j in range(len(q) + 1)])
    sel_of_js = {}

    def oracle_fast(green):
        js = []
        for qi, q in enumerate(queues):
            nq = need[qi]
            j = len(q)
            while nq[j] & ~green:
                j -= 1
            js.append(j)
        js = tuple(js)
        sel = sel_of_js.get(js)
        if sel is None:
            sel = sel_of_js[js] = frozenset(
                p for q, j in zip(queues, js) for p, _ in q[:j])
        return sel

    moves_for_sel = {}

    def clause_b(sel_tuple, moved):
        exp = moves_for_sel.get(sel_tuple)
        if exp is None:
            exp = moves_for_sel[sel_tuple] = {
                d: built.qw[k] for d, k in
                expected_moves_for(shape, prs, set(sel_tuple)).items()}
        return exp == moved, exp

    def show(moves):
        return {d: key_str(built.sha_key[s]) if s in built.sha_key else s
                for d, s in sorted(moves.items())}

    for force in forces:
        prep = Prepared(built, force, acc.comparisons)
        n_here = 1 if force else (1 << m)
        if prep.validate_raised:
            acc.cases += n_here
            acc.n_failures += n_here
            sig = structural_signature('validate_raised', 'validate', shape,
                                       prs)
            acc.sigs[sig] = acc.sigs.get(sig, 0) + n_here - 1
            acc.fail(sig, size0 + (0,), {
                'case': make_case(shape, prs, force,
                                  status_of_mask(keys, (1 << m) - 1, seed)),
                'clause': 'validate_raised', 'signature': sig,
                'expected': 'validate() returns',
                'got': prep.validate_raised})
            continue
        d_fail = judge_queued(prs, prep.queued)
        if prep.asked_early:
            acc.anomalies.append({'shape': shape, 'prs': list(prs),
                                  'anomaly': 'status asked before validate'})
        if force:
            # status-blind evaluation: any status query raises NeedDecision
            masks = [None]
        elif mask_filter is not None:
            masks = mask_filter(m)
        else:
            masks = range(1 << m)
        for mask in masks:
            if mask is None:
                assign = {}
                green = 0
            else:
                rot = popcount(mask) + seed
                assign = {s: (GREEN if mask >> i & 1
                              else NONGREEN[(i + rot) % len(NONGREEN)])
                          for i, s in enumerate(shas)}
                green = mask
            try:
                sel_t, moved, err = prep.evaluate(assign)
            except NeedDecision:
                acc.anomalies.append({'shape': shape, 'prs': list(prs),
                                      'anomaly': 'force_merge asked status'})
                continue
            acc.evals += 1
            acc.cases += 1
            if prs and not force and mask != (1 << m) - 1:
                acc.nontrivial += 1
            failed = []
            sel = frozenset(sel_t)
            # (a)
            if force:
                exp_sel = frozenset(range(1, len(prs) + 1))
            else:
                exp_sel = oracle_fast(green)
            if sel != exp_sel or len(sel) != len(sel_t):
                detail = ('over-selects' if sel > exp_sel else
                          'under-selects' if sel < exp_sel else
                          'incomparable')
                failed.append({'clause': 'a', 'detail': detail,
                               'expected': sorted(exp_sel),
                               'got': list(sel_t)})
            # (b)
            ok_b, exp_moves = clause_b(sel_t, moved)
            if not ok_b:
                failed.append({'clause': 'b', 'detail': 'moves',
                               'expected': show(exp_moves),
                               'got': show(moved)})
            # (c)
            if not force:
                for d, sha in moved.items():
                    bit = bit_of_sha.get(sha)
                    if bit is None or not green >> bit & 1:
                        st = status_of_mask(keys, mask, seed)
                        bad = {}
                        for d2, s2 in sorted(moved.items()):
                            k2 = built.sha_key.get(s2)
                            v2 = st[k2] if k2 else 'not a queue commit'
                            if v2 != GREEN:
                                bad[d2] = [key_str(k2) if k2 else s2, v2]
                        failed.append({
                            'clause': 'c', 'detail': 'red-commit-merged',
                            'expected': 'every destination moves to a '
                            'SUCCESSFUL commit', 'got': bad})
                        break
            # (d)
            failed.extend(d_fail)
            if err:
                failed.append({'clause': 'exception', 'detail': 'merge',
                               'expected': 'no exception', 'got': err})
            if failed:
                acc.n_failures += 1
                st = status_of_mask(keys, mask or 0, seed)
                case = make_case(shape, prs, force, st)
                size_key = size0 + (m - popcount(mask or 0),)
                for f in failed:
                    sig = structural_signature(f['clause'], f['detail'],
                                               shape, prs)
                    acc.fail(sig, size_key, {
                        'case': case, 'clause': f['clause'],
                        'signature': sig, 'expected': f['expected'],
                        'got': f['got']})
            # cross-check of the fast path against the slow path
            if cross_every and (acc.evals % cross_every == 0):
                cross_check(built, keys, mask, seed, force, failed, sel_t,
                            moved, acc)
            elif not failed and len(acc.samples) < 1 and \
                    mask is not None and 0 < len(sel_t) < len(prs) and \
                    (mask * 2654435761 + seed) % 7 == 0:
                acc.samples.append({
                    'case': make_case(shape, prs, force,
                                      status_of_mask(keys, mask, seed)),
                    'result': {'queued_prs': prep.queued,
                               'selected': list(sel_t),
                               'moved': show(moved)}})
        # genuinely 4-valued enumeration (no green/non-green abstraction):
        # every one of the 4^m assignments is run and judged by the
        # dictionary oracle; its outcome must also equal the outcome of the
        # run of its green/non-green pattern (what the abstraction claims)
        if not force and 0 < m <= direct4_max_m:
            pattern_run = {}
            for combo in itertools.product(STATUSES, repeat=m):
                assign = dict(zip(shas, combo))
                sel_t, moved, err = prep.evaluate(assign)
                status = dict(zip(keys, combo))
                exp_sel, exp_mv = oracle(shape, prs, status, False)
                green = sum(1 << i for i, c4 in enumerate(combo)
                            if c4 == GREEN)
                acc.direct4 += 1
                if exp_sel != oracle_fast(green):
                    acc.cross_mismatch.append(
                        {'what': 'fast oracle != dict oracle',
                         'case': make_case(shape, prs, False, status)})
                bad_move = [d for d, s4 in moved.items()
                            if status.get(built.sha_key.get(s4)) != GREEN]
                if (set(sel_t) != exp_sel or bad_move or err or moved != {
                        d: built.qw[k] for d, k in expected_moves_for(
                            shape, prs, set(sel_t)).items()}):
                    acc.direct4_fail += 1
                if green not in pattern_run:
                    rot_st = status_of_mask(keys, green, seed)
                    pattern_run[green] = prep.evaluate(
                        {built.qw[k]: v for k, v in rot_st.items()})[:2]
                if pattern_run[green] != (sel_t, moved):
                    acc.cross_mismatch.append(
                        {'what': '4-valued run differs from the run of its '
                         'green/non-green pattern',
                         'case': make_case(shape, prs, False, status)})
    return built


def cross_check(built, keys, mask, seed, force, failed_fast, sel_t, moved,
                acc):
    """Same case through the unmodified slow path + dictionary oracle."""
    status = status_of_mask(keys, mask or 0, seed)
    assign = {built.qw[k]: v for k, v in status.items()}
    keep = built.repo.snapshot()
    fast_copy(False)
    try:
        res = run_real(built, assign, force, acc.comparisons)
        failed_slow = judge(built, status, force, res)
    finally:
        fast_copy(True)
        built.repo.restore(keep)
    acc.cross += 1
    a = sorted((f['clause'], f['detail']) for f in failed_fast)
    b = sorted((f['clause'], f['detail']) for f in failed_slow)
    if a != b or tuple(res.get('mergeable_prs', ())) != tuple(sel_t) or \
            res.get('moved') != moved:
        acc.cross_mismatch.append({
            'what': 'fast path != slow path',
            'case': make_case(built.shape, built.prs, force, status),
            'fast': [list(x) for x in a], 'slow': [list(x) for x in b]})


# ----------------------------------------------------------------------- #
# QWF: a queue built by add_to_queue validates and is chained; damaged
# queues are rejected by validate()
# ----------------------------------------------------------------------- #
def _qw_ref(pr_id, version):
    return 'q/w/%d/%s/bugfix/pr%d' % (pr_id, version, pr_id)


def _validate_state(built, mutate=None):
    """Fresh clone of the (possibly damaged) remote -> cascade ->
    QueueCollection.build -> validate.  Returns (kind, detail, repo state)
    kind in {'ok', 'incoherent', 'exception'}."""
    repo = built.repo
    repo.restore(built.snapshot)
    if mutate:
        mutate(repo)
    repo.reset()
    repo.clone()
    try:
        cascade = gwf.BranchCascade()
        cascade.build(repo)
        qc = gwf.QueueCollection(StubHost({}, set()), BUILD_KEY,
                                 cascade.get_merge_paths(), False)
        qc.build(repo)
        qc.validate()
    except berte_exceptions.IncoherentQueues as err:
        return 'incoherent', incoherence_names(err), None
    except Exception as err:
        return 'exception', '%s: %s' % (type(err).__name__, err), None
    return 'ok', None, cascade


def qwf_damages(built):
    """Every single structural damage of the scope, as
    (kind, description, mutate(repo))."""
    shape, prs = built.shape, built.prs
    per_version = {}
    for pr_id, dest in enumerate(prs, 1):
        for v in oracle_targets(shape, dest):
            per_version.setdefault(v, []).append(pr_id)
    out = []
    for (pr_id, v) in built.keys:
        ref = _qw_ref(pr_id, v)
        out.append(('delete_qw', ref,
                    lambda repo, ref=ref: repo.set_remote(ref, None)))
    for v in per_version:
        ref = 'q/' + v
        out.append(('delete_q', ref,
                    lambda repo, ref=ref: repo.set_remote(ref, None)))
        dst = branch_of_version(v)
        out.append(('reset_q_to_dst', '%s -> %s' % (ref, dst),
                    lambda repo, ref=ref, dst=dst:
                    repo.set_remote(ref, repo.remote[dst])))
    for v, ids in per_version.items():
        for idx in range(1, len(ids)):
            newer, older = ids[idx], ids[idx - 1]
            ref = _qw_ref(newer, v)
            if idx >= 2:
                where = _qw_ref(ids[idx - 2], v)
            else:
                where = branch_of_version(v)
            out.append((
                'swap_qw', '%s recreated on %s (i.e. before PR %d entered)'
                % (ref, where, older),
                lambda repo, ref=ref, where=where:
                repo.set_remote(ref, repo.remote[where])))
    return out


def check_qwf(case):
    """Queue well-formedness on one case (statuses are irrelevant).

    1. for the queue as built by the real add_to_queue: validate() returns;
       for every merge path and every PR, the q/w commits of consecutive
       versions include each other (q/w/<pr>/<next> includes q/w/<pr>/<v>);
       every q/<v> points at the newest q/w of that version and includes the
       tip of its destination branch;
    2. for each single damage in {delete one q/w ref, delete one q/<v> ref,
       reset one q/<v> to its destination branch, recreate one q/w on the
       commit preceding the previous PR's entry (order swap)}: validate()
       raises IncoherentQueues.
    """
    shape, prs, _, _ = case_parts(case)
    built = build_case_repo(shape, prs)
    failures = []
    checks = 0
    base = {'devs': shape['devs'], 'stabs': shape['stabs'],
            'hotfix': shape['hotfix'], 'prs': prs}
    kind, detail, cascade = _validate_state(built)
    checks += 1
    if kind != 'ok':
        failures.append({'case': base, 'check': 'validate_intact',
                         'expected': 'returns', 'got': [kind, detail]})
    else:
        repo = built.repo
        targets = {i: oracle_targets(shape, d) for i, d in enumerate(prs, 1)}
        paths = [[b.name for b in p] for p in cascade.get_merge_paths()]
        for path in paths:
            versions = [n.split('/')[1] for n in path]
            for a, b in zip(versions, versions[1:]):
                for pr_id, tg in targets.items():
                    if a in tg and b in tg:
                        checks += 1
                        hi = gwf.branch_factory(repo, _qw_ref(pr_id, b))
                        lo = gwf.branch_factory(repo, _qw_ref(pr_id, a))
                        if not hi.includes_commit(lo):
                            failures.append({
                                'case': base, 'check': 'chained',
                                'expected': '%s includes %s' % (hi, lo),
                                'got': 'not included'})
        heads = {}
        for pr_id, tg in targets.items():
            for v in tg:
                heads[v] = pr_id
        for v, pr_id in heads.items():
            checks += 2
            q = gwf.branch_factory(repo, 'q/' + v)
            if q.get_latest_commit() != gwf.branch_factory(
                    repo, _qw_ref(pr_id, v)).get_latest_commit():
                failures.append({'case': base, 'check': 'head',
                                 'expected': 'q/%s == %s' % (
                                     v, _qw_ref(pr_id, v)),
                                 'got': 'different commits'})
            if not q.includes_commit(q.dst_branch.get_latest_commit()):
                failures.append({'case': base, 'check': 'includes_dst',
                                 'expected': '%s includes %s' % (
                                     q, q.dst_branch), 'got': 'not included'})
    n_damage = {}
    for dkind, desc, mutate in qwf_damages(built):
        checks += 1
        n_damage[dkind] = n_damage.get(dkind, 0) + 1
        kind, detail, _ = _validate_state(built, mutate)
        if kind != 'incoherent':
            failures.append({
                'case': base, 'check': 'damage:' + dkind, 'damage': desc,
                'expected': 'validate() raises IncoherentQueues',
                'got': 'validate() returned normally' if kind == 'ok'
                else detail})
    return {'ok': not failures, 'checks': checks, 'damages': n_damage,
            'n_failures': len(failures), 'failures': failures}


def qwf_signature(shape, prs, failure):
    """structural signature of a QWF failure"""
    sig = failure['check']
    if failure['check'].startswith('damage:'):
        ref = failure['damage'].split(' ')[0]
        m = re.match(r'q/w/(\d+)/([^/]+)/', ref)
        if m:
            pr_id, v = int(m.group(1)), m.group(2)
            tg = oracle_targets(shape, prs[pr_id - 1])
            newest = [i for i, d in enumerate(prs, 1)
                      if v in oracle_targets(shape, d)][-1]
            pos = ('only' if len(tg) == 1 else
                   'lowest' if v == tg[0] else
                   'highest' if v == tg[-1] else 'middle')
            sig += '|version_is_%s_target_of_pr|%s' % (
                pos, 'newest_in_version' if newest == pr_id
                else 'not_newest_in_version')
            sig += '|hotfix' if v.count('.') == 3 else ''
        else:
            v = ref.split('/')[1]
            sig += '|hotfix' if v.count('.') == 3 else ''
        sig += '|got=' + ('returned' if 'returned' in str(failure['got'])
                          else str(failure['got']).split(':')[0])
    return sig


# ----------------------------------------------------------------------- #
# enumeration, workers, aggregation
# ----------------------------------------------------------------------- #
def tuple_weight(shape, prs):
    return 1 << sum(len(oracle_targets(shape, d)) for d in prs)


def enumerate_tasks(tier, seed):
    """-> (tasks, description).  task = (shape, prs, options)"""
    shapes = all_shapes()
    tasks = []
    if tier == 'thorough':
        for sh in shapes:
            dests = destinations(sh)
            for k in range(0, 5):
                for prs in itertools.product(dests, repeat=k):
                    tasks.append((sh, prs, {'qwf': True,
                                            'direct4': 6 if k <= 3 else 0}))
        desc = ('all 28 cascade shapes x every destination tuple of 0..4 '
                'PRs (17578 tuples) x force_merge in {False, True}; for '
                'force_merge=False every green/non-green pattern of the '
                'q/w commits (2^m per tuple)')
        return tasks, desc, True
    rng = random.Random(seed)
    budget = 8000             # status patterns of 4-PR tuples per shape
    n4 = 0
    for sh in shapes:
        dests = destinations(sh)
        for k in range(0, 4):
            for prs in itertools.product(dests, repeat=k):
                # 4-valued one-by-one: m <= 4 everywhere, m <= 6 on the
                # cascade of the smallest counterexamples
                # (development/4.3, development/5.1, stabilization/5.1.4)
                small = sh['devs'] == ['4.3', '5.1'] and sh['stabs'] == ['5.1']
                tasks.append((sh, prs, {
                    'qwf': k <= 2 or len(sh['devs']) <= 2,
                    'direct4': 6 if small else 4}))
        four = list(itertools.product(dests, repeat=4))
        rng.shuffle(four)
        left = budget
        for prs in four:
            w = tuple_weight(sh, prs)
            if w <= left:
                left -= w
                n4 += 1
                tasks.append((sh, prs, {'qwf': False, 'direct4': 0}))
    desc = ('all 28 cascade shapes x every destination tuple of 0..3 PRs '
            '(3372 tuples, exhaustive) + a seeded (seed=%d) selection of '
            '%d of the 14206 4-PR tuples (per shape: tuples drawn in random '
            'order while their 2^m patterns fit a budget of %d) x '
            'force_merge in {False, True}; for force_merge=False every '
            'green/non-green pattern of the q/w commits of each selected '
            'tuple (2^m, exhaustive)' % (seed, n4, budget))
    return tasks, desc, False


def _worker(args):
    shape, prs, opts, seed = args
    fast_copy(True)
    acc = Acc()
    t0 = time.time()
    out = {'qwf_cases': 0, 'qwf_checks': 0, 'qwf_fail': 0, 'qwf_sigs': {},
           'qwf_examples': {}, 'qwf_damages': {}}
    try:
        check_tuple(shape, prs, seed, acc, cross_every=opts.get('cross', 512),
                    direct4_max_m=opts.get('direct4', 0))
        if opts.get('qwf'):
            fast_copy(False)
            r = check_qwf({'devs': shape['devs'], 'stabs': shape['stabs'],
                           'hotfix': shape['hotfix'], 'prs': list(prs)})
            out['qwf_cases'] = 1
            out['qwf_checks'] = r['checks']
            out['qwf_damages'] = r['damages']
            out['qwf_fail'] = 1 if r['failures'] else 0
            for f in r['failures']:
                sig = qwf_signature(shape, list(prs), f)
                out['qwf_sigs'][sig] = out['qwf_sigs'].get(sig, 0) + 1
                out['qwf_examples'].setdefault(
                    sig, ((len(prs), len(shape['devs']) + len(shape['stabs'])
                           + int(shape['hotfix'])), f))
    except Exception as err:                       # harness bug, not a verdict
        import traceback
        out['crash'] = {'shape': shape, 'prs': list(prs),
                        'error': traceback.format_exc()[-1500:]}
    out.update({
        'cases': acc.cases, 'nontrivial': acc.nontrivial,
        'n_failures': acc.n_failures, 'sigs': acc.sigs,
        'examples': acc.examples, 'samples': acc.samples[:1],
        'cross': acc.cross, 'cross_mismatch': acc.cross_mismatch[:3],
        'comparisons': sorted(acc.comparisons), 'anomalies': acc.anomalies,
        'direct4': acc.direct4,
        'direct4_fail': acc.direct4_fail,
        'evals': acc.evals, 'm': sum(len(oracle_targets(shape, d))
                                     for d in prs),
        't': time.time() - t0})
    return out


def run(tier='quick', seed=0, jobs=16, deadline_s=None):
    """Bounded check of C05 (+ QWF) - see module docstring / 'rule'."""
    t0 = time.time()
    if deadline_s is None:
        deadline_s = 85 if tier == 'quick' else 24 * 60
    tasks, scope_desc, full = enumerate_tasks(tier, seed)
    # heaviest first, for load balancing
    order = sorted(range(len(tasks)),
                   key=lambda i: -tuple_weight(tasks[i][0], tasks[i][1]))
    args = [(tasks[i][0], tasks[i][1], tasks[i][2], seed) for i in order]
    tot = {'cases': 0, 'nontrivial': 0, 'n_failures': 0, 'cross': 0,
           'direct4': 0, 'direct4_fail': 0, 'evals': 0, 'represented4': 0,
           'qwf_cases': 0, 'qwf_checks': 0, 'qwf_fail': 0}
    sigs, examples, samples = {}, {}, []
    qwf_sigs, qwf_examples, qwf_damages = {}, {}, {}
    cross_mismatch, anomalies, crashes = [], [], []
    comparisons = set()
    n_tuples = 0
    if jobs > 1:
        pool = multiprocessing.get_context('fork').Pool(jobs)
        results = pool.imap_unordered(_worker, args, chunksize=1)
    else:
        pool = None
        results = map(_worker, args)
    timed_out = False
    for out in results:
        n_tuples += 1
        if time.time() - t0 > deadline_s:
            timed_out = True
            break
        for k in tot:
            if k in out:
                tot[k] += out[k]
        tot['represented4'] += 4 ** out['m'] * 2
        for s, n in out['sigs'].items():
            sigs[s] = sigs.get(s, 0) + n
        for s, exs in out['examples'].items():
            cur = examples.setdefault(s, [])
            cur.extend(exs)
            cur.sort(key=lambda e: e[0])
            del cur[3:]
        if out['samples'] and len(samples) < 40:
            samples.extend(out['samples'])
        for s, n in out['qwf_sigs'].items():
            qwf_sigs[s] = qwf_sigs.get(s, 0) + n
        for s, ex in out['qwf_examples'].items():
            if s not in qwf_examples or ex[0] < qwf_examples[s][0]:
                qwf_examples[s] = ex
        for s, n in out['qwf_damages'].items():
            qwf_damages[s] = qwf_damages.get(s, 0) + n
        cross_mismatch.extend(out['cross_mismatch'])
        anomalies.extend(out['anomalies'])
        comparisons.update(map(tuple, out['comparisons']))
        if 'crash' in out:
            crashes.append(out['crash'])
    if pool:
        if timed_out:
            pool.terminate()
        else:
            pool.close()
        pool.join()
    unfinished = len(args) - n_tuples + (1 if timed_out else 0)
    if timed_out:
        n_tuples -= 1           # the result in hand when time ran out
    # failures: smallest examples first, round-robin over the signatures
    ranked = sorted(examples.items(), key=lambda kv: kv[1][0][0])
    failures = []
    for rnd in range(3):
        for s, exs in ranked:
            if rnd < len(exs) and len(failures) < 50:
                failures.append(exs[rnd][1])
    # every reported failure is confirmed through the slow path
    fast_copy(False)
    confirmed = 0
    for f in failures:
        r = replay(f['case'])
        f['replay_confirms'] = (not r['ok']) and any(
            x['clause'] == f['clause'] for x in r['failed_clauses'])
        confirmed += bool(f['replay_confirms'])
    # samples: a few passing cases, re-run through the slow path as well
    rng = random.Random(seed)
    rng.shuffle(samples)
    good = []
    for smp in samples:
        if len(good) >= 5:
            break
        r = replay(smp['case'])
        if r['ok']:
            smp['result']['replay'] = r['result']
            good.append(smp)
    abstraction_ok = comparisons <= {('!=', GREEN)}
    rule = (
        "A case = (cascade shape, destination branch of each queued PR in "
        "entry order, force_merge, status of every q/w commit). The "
        "repository of each (shape, destinations) tuple is built by the real "
        "create/update_integration_branches + add_to_queue on FakeRepo. "
        "force_merge=False: one real QueueCollection._process() run per "
        "green/non-green pattern of the m q/w commits (2^m per tuple, non-"
        "green commits rotating through FAILED/INPROGRESS/NOTSTARTED, mixed "
        "inside one assignment); every pattern stands for the 3^(#non-green) "
        "4-valued assignments with that pattern, which is sound because the "
        "code only ever evaluates `status != 'SUCCESSFUL'` on a status "
        "(recorded by an instrumented str: comparisons seen = %s); "
        "all 4^m assignments are additionally enumerated one by one for the "
        "tuples of <= 3 PRs with m <= 6 (thorough) / m <= 4, and m <= 6 on "
        "the cascade 4.3, 5.1 + stabilization/5.1.4 (quick). QWF runs on "
        "every tuple (thorough) / on tuples of <= 2 PRs, and of 3 PRs on "
        "cascades of <= 2 development versions (quick). "
        "force_merge=True: one status-blind run per tuple (the stub raises "
        "on any status query; none happened), which covers every status "
        "assignment of the tuple; it counts as ONE case. build()+validate() "
        "are executed once per (tuple, force); merge_queues()+push are "
        "executed once per distinct mergeable_queues content and memoised "
        "(same repository snapshot => same outcome). Fast path registers "
        "Branch classes as atomic for copy.deepcopy; 1 evaluation in 512 "
        "plus every reported failure and sample is re-run through the "
        "unmodified slow path (fresh clone, full handle_merge_queues "
        "sequence, dictionary oracle). Non-trivial = at least one PR "
        "queued, force_merge=False and not every q/w commit SUCCESSFUL. "
        "All enumerated cases are pairwise distinct by construction."
        % sorted(comparisons))
    res = {
        'name': NAME,
        'scope': '%s tier: %s%s' % (
            tier, scope_desc,
            ' -- TIMED OUT after %ds: %d of the %d tuples (the lightest '
            'ones, tasks run heaviest first) were NOT evaluated'
            % (deadline_s, unfinished, len(args)) if timed_out else ''),
        'cases': tot['cases'],
        'distinct_nontrivial': tot['nontrivial'],
        'rule': rule,
        'n_failures': tot['n_failures'],
        'failures': failures,
        'failure_signatures': dict(sorted(sigs.items())),
        'samples': good,
        'exhaustive': bool(full and not crashes and not timed_out),
        'timed_out': timed_out,
        'unfinished_tuples': unfinished,
        'wall_s': 0.0,
        'tuples': n_tuples,
        'real_process_runs': tot['evals'],
        'represented_4valued_assignments': tot['represented4'],
        'status_abstraction_sound': abstraction_ok,
        'direct_4valued': {'cases': tot['direct4'],
                           'n_failures': tot['direct4_fail']},
        'slow_path_crosschecks': {'n': tot['cross'],
                                  'mismatches': cross_mismatch[:10],
                                  'n_mismatches': len(cross_mismatch)},
        'reported_failures_confirmed_by_replay': '%d/%d' % (confirmed,
                                                            len(failures)),
        'harness_anomalies': anomalies[:10],
        'harness_crashes': crashes[:5],
        'qwf': {
            'cases': tot['qwf_cases'], 'checks': tot['qwf_checks'],
            'damages_applied': qwf_damages,
            'n_failures': tot['qwf_fail'],
            'failure_signatures': dict(sorted(qwf_sigs.items())),
            'failures': [dict(ex[1], signature=s) for s, ex in
                         sorted(qwf_examples.items(),
                                key=lambda kv: kv[1][0])][:50],
        },
    }
    res['wall_s'] = round(time.time() - t0, 1)
    return res


if __name__ == '__main__':
    _tier = sys.argv[1] if len(sys.argv) > 1 else 'quick'
    _seed = int(sys.argv[2]) if len(sys.argv) > 2 else 0
    _jobs = int(sys.argv[3]) if len(sys.argv) > 3 else 16
    print(json.dumps(run(_tier, _seed, _jobs), indent=1, default=str))
