"""Bounded exhaustive check of property C05 (queue evaluation) on the REAL
``QueueCollection`` / ``BranchCascade`` / ``merge_queues`` of bert-e, running
on the in-memory ``FakeRepo``.

    python bounded/c05_queue.py [quick|thorough] [seed]

See ``run.__doc__`` / the 'rule' and 'scope' keys of the result for what is
enumerated and how.
"""
import sys

sys.dont_write_bytecode = True
for _p in ('/repo', '/verif'):
    if _p not in sys.path:
        sys.path.insert(0, _p)

import itertools  # noqa: E402
import json  # noqa: E402
import logging  # noqa: E402
import multiprocessing  # noqa: E402
import random  # noqa: E402
import time  # noqa: E402
import warnings  # noqa: E402
from types import SimpleNamespace  # noqa: E402

warnings.filterwarnings('ignore')

from harness.fakerepo import FakeRepo  # noqa: E402
from bert_e import exceptions as berte_exceptions  # noqa: E402
from bert_e.workflow import git_utils  # noqa: E402
from bert_e.workflow.gitwaterflow import branches as gwf  # noqa: E402
from bert_e.workflow.gitwaterflow import integration  # noqa: E402
from bert_e.workflow.gitwaterflow import queueing  # noqa: E402

logging.disable(logging.CRITICAL)

NAME = 'c05_queue'
BUILD_KEY = 'pre-merge'
GREEN = 'SUCCESSFUL'
NONGREEN = ('FAILED', 'INPROGRESS', 'NOTSTARTED')
STATUSES = (GREEN,) + NONGREEN

# ----------------------------------------------------------------------- #
# the fixed vocabulary of the scope
# ----------------------------------------------------------------------- #
VERSIONS = ('4.3', '5.1', '10.0')
STAB_OF = {'4.3': '4.3.18', '5.1': '5.1.4', '10.0': '10.0.1'}
RELEASED_TAG = {'4.3': '4.3.17', '5.1': '5.1.3', '10.0': '10.0.0'}
HOTFIX_BRANCH = 'hotfix/4.2.17'
HOTFIX_TAG = '4.2.17.0'
HOTFIX_QVERSION = '4.2.17.1'


def all_shapes():
    """Every cascade shape of the scope: 1..3 development versions (always a
    leading part of 4.3 < 5.1 < 10.0 - only the number of versions and where
    the stabilization branches hang matters), any subset of them carrying a
    stabilization branch, optional hotfix/4.2.17 (+ tag 4.2.17.0)."""
    shapes = []
    for n in (1, 2, 3):
        devs = VERSIONS[:n]
        for r in range(n + 1):
            for stabs in itertools.combinations(devs, r):
                for hotfix in (False, True):
                    shapes.append({'devs': list(devs), 'stabs': list(stabs),
                                   'hotfix': hotfix})
    return shapes


def destinations(shape):
    """Branches a pull request may target in this cascade."""
    out = []
    if shape['hotfix']:
        out.append(HOTFIX_BRANCH)
    for v in shape['devs']:
        if v in shape['stabs']:
            out.append('stabilization/' + STAB_OF[v])
        out.append('development/' + v)
    return out


# ----------------------------------------------------------------------- #
# ORACLE - written from the property statement only.  It never looks at a
# repository: a queue is the list of pull requests in entry order, each with
# the list of versions it targets.
# ----------------------------------------------------------------------- #
def oracle_targets(shape, dest):
    """Queue versions targeted by a PR whose destination branch is dest."""
    kind, ver = dest.split('/')
    if kind == 'hotfix':
        return [HOTFIX_QVERSION]
    devs = list(shape['devs'])
    if kind == 'development':
        return devs[devs.index(ver):]
    base = '.'.join(ver.split('.')[:2])
    return [ver] + devs[devs.index(base):]


def branch_of_version(version):
    n = version.count('.') + 1
    if n == 2:
        return 'development/' + version
    if n == 3:
        return 'stabilization/' + version
    return 'hotfix/' + version.rsplit('.', 1)[0]


def oracle_queues(shape, prs):
    """Split the entry-ordered PR list into the independent queues of the
    property: the main queue and one queue per hotfix branch.
    Returns {queue_name: [(pr_id, [versions])...]} in entry order."""
    queues = {'main': []}
    for pr_id, dest in enumerate(prs, 1):
        tg = oracle_targets(shape, dest)
        name = dest if dest.startswith('hotfix/') else 'main'
        queues.setdefault(name, []).append((pr_id, tg))
    return queues


def prefix_heads(queue, j):
    """{version: pr_id of the newest PR among the first j that targets it}"""
    heads = {}
    for pr_id, tg in queue[:j]:
        for v in tg:
            heads[v] = pr_id
    return heads


def oracle(shape, prs, status, force_merge):
    """status: {(pr_id, version): status string}.
    Returns (selected pr ids (set), {destination branch: (pr_id, version)})"""
    selected, moves = set(), {}
    for queue in oracle_queues(shape, prs).values():
        best = 0
        if force_merge:
            best = len(queue)
        else:
            for j in range(len(queue), -1, -1):       # longest prefix first
                heads = prefix_heads(queue, j)
                if all(status[(p, v)] == GREEN for v, p in heads.items()):
                    best = j
                    break
        selected |= {pr_id for pr_id, _ in queue[:best]}
        for v, p in prefix_heads(queue, best).items():
            moves[branch_of_version(v)] = (p, v)
    return selected, moves


# ----------------------------------------------------------------------- #
# building the repository with the real bert-e code
# ----------------------------------------------------------------------- #
def base_repo(shape):
    """Remote with the cascade's branches and tags, nothing queued."""
    repo = FakeRepo()
    devs = shape['devs']
    first = 'development/' + devs[0]
    root = repo.commit(first, author='root')
    repo.set_tag(HOTFIX_TAG, root)
    if shape['hotfix']:
        repo.create_branch(HOTFIX_BRANCH, root)
        repo.commit(HOTFIX_BRANCH, author='maintainer')
    prev = first
    for i, v in enumerate(devs):
        name = 'development/' + v
        if i:
            repo.create_branch(name, prev)
            repo.commit(name, author='maintainer')
        repo.set_tag(RELEASED_TAG[v], name)
        if v in shape['stabs']:
            repo.create_branch('stabilization/' + STAB_OF[v], name)
            repo.commit('stabilization/' + STAB_OF[v], author='maintainer')
            # the development branch must contain its stabilization branch
            repo.clone()
            gwf.branch_factory(repo, name).merge(
                gwf.branch_factory(repo, 'stabilization/' + STAB_OF[v]))
            repo.push(name)
            repo.reset()
        repo.commit(name, author='maintainer')
        prev = name
    # later development branches must contain the earlier ones
    repo.clone()
    for a, b in zip(devs, devs[1:]):
        gwf.branch_factory(repo, 'development/' + b).merge(
            gwf.branch_factory(repo, 'development/' + a))
        repo.push('development/' + b)
    repo.reset()
    del repo.trace[:]
    return repo


def _pr_job(repo, pr_id, src, dst):
    job = SimpleNamespace()
    job.pull_request = SimpleNamespace(id=pr_id, src_branch=src,
                                       dst_branch=dst)
    job.settings = SimpleNamespace(no_octopus=False)
    job.active_options = []
    job.git = SimpleNamespace(repo=repo, cascade=gwf.BranchCascade(),
                              src_branch=gwf.branch_factory(repo, src),
                              dst_branch=gwf.branch_factory(repo, dst))
    return job


def queue_pull_request(repo, pr_id, dest):
    """What _handle_pull_request does between clone and Queued, restricted to
    its git operations, using the REAL functions: build_branch_cascade,
    cascade.validate, create/update_integration_branches, push, add_to_queue.
    """
    src = 'bugfix/pr%d' % pr_id
    repo.create_branch(src, dest, where='remote')
    repo.commit(src, author='dev%d' % pr_id, where='remote')
    repo.reset()
    repo.clone()
    job = _pr_job(repo, pr_id, src, dest)
    gwf.build_branch_cascade(job)
    job.git.cascade.validate()
    wbranches = list(integration.create_integration_branches(job))
    integration.update_integration_branches(job, wbranches)
    git_utils.push(repo, wbranches[1:])
    queueing.add_to_queue(job, wbranches)
    job.git.cascade.validate()
    return [b.version for b in job.git.cascade.dst_branches]


class Built(object):
    """A repository with a queue in it + bookkeeping."""
    pass


def build_case_repo(shape, prs):
    repo = base_repo(shape)
    built = Built()
    built.repo = repo
    built.shape, built.prs = shape, list(prs)
    built.anomalies = []
    for pr_id, dest in enumerate(prs, 1):
        real_targets = queue_pull_request(repo, pr_id, dest)
        if real_targets != oracle_targets(shape, dest):
            built.anomalies.append(('targets', pr_id, dest, real_targets,
                                    oracle_targets(shape, dest)))
    repo.reset()
    # (pr_id, version) -> sha of the queue commit, in entry order
    built.qw = {}
    for pr_id, dest in enumerate(prs, 1):
        for v in oracle_targets(shape, dest):
            ref = 'q/w/%d/%s/bugfix/pr%d' % (pr_id, v, pr_id)
            built.qw[(pr_id, v)] = repo.remote.get(ref)
    built.keys = list(built.qw)
    built.sha_key = {sha: k for k, sha in built.qw.items()}
    if None in built.sha_key or len(built.sha_key) != len(built.qw):
        built.anomalies.append(('queue refs missing or shared',
                                {('%d:%s' % k): s
                                 for k, s in built.qw.items()}))
    built.dest_branches = destinations(shape)
    built.snapshot = repo.snapshot()
    return built


# ----------------------------------------------------------------------- #
# running the real queue evaluation
# ----------------------------------------------------------------------- #
class NeedDecision(Exception):
    """The code under test asked for a status that is not decided yet."""
    def __init__(self, sha):
        Exception.__init__(self, sha)
        self.sha = sha


class Status(str):
    """A build status that records what it is compared with."""
    log = None

    def __eq__(self, other):
        self.log.add(('==', other if isinstance(other, str) else repr(other)))
        return str.__eq__(self, other)

    def __ne__(self, other):
        self.log.add(('!=', other if isinstance(other, str) else repr(other)))
        return str.__ne__(self, other)

    __hash__ = str.__hash__


class StubHost(object):
    """Stand-in for the git host: answers get_build_status from a (possibly
    partial) assignment {sha: status}."""
    def __init__(self, assign, comparisons):
        self.assign = assign
        self.comparisons = comparisons
        self.asked = []
        self.unknown = []

    def get_build_status(self, sha, key):
        sha = str(sha)
        self.asked.append(sha)
        if key != BUILD_KEY:
            self.unknown.append(('key', key))
        if sha not in self.assign:
            raise NeedDecision(sha)
        st = Status(self.assign[sha])
        st.log = self.comparisons
        return st


def run_real(built, assign, force_merge, comparisons=None):
    """One evaluation of the queues by the real code, as handle_merge_queues
    does it: fresh clone, cascade.build, QueueCollection.build, validate,
    mergeable_prs / mergeable_queues, merge_queues, push --all --prune.
    ``assign`` maps sha -> status (NeedDecision escapes if it is partial).
    """
    repo = built.repo
    repo.restore(built.snapshot)
    repo.reset()
    repo.clone()
    if comparisons is None:
        comparisons = set()
    host = StubHost(assign, comparisons)
    res = {'validate_raised': None, 'asked_before_validate': 0}
    cascade = gwf.BranchCascade()
    cascade.build(repo)
    paths = cascade.get_merge_paths()
    res['merge_paths'] = [[b.name for b in p] for p in paths]
    qc = gwf.QueueCollection(host, BUILD_KEY, paths, force_merge)
    qc.build(repo)
    try:
        qc.validate()
    except berte_exceptions.IncoherentQueues as err:
        res['validate_raised'] = sorted(
            type(e).__name__ for e in err.args[0]) if err.args else ['?']
        return res
    res['asked_before_validate'] = len(host.asked)
    res['queued_prs'] = list(qc.queued_prs)
    res['mergeable_prs'] = list(qc.mergeable_prs)
    mq = qc.mergeable_queues
    res['mergeable_queues'] = {
        '.'.join(map(str, v)): [b.name for b in
                                q[gwf.QueueIntegrationBranch]]
        for v, q in mq.items()}
    before = {d: repo.remote.get(d) for d in built.dest_branches}
    queueing.merge_queues(mq)
    git_utils.push(repo, prune=True)
    res['moved'] = {d: repo.remote.get(d) for d in built.dest_branches
                    if repo.remote.get(d) != before[d]}
    res['remaining_qw'] = sorted(n for n in repo.remote
                                 if n.startswith('q/w/'))
    res['asked'] = list(host.asked)
    res['unknown'] = host.unknown
    return res
