"""Bounded stand-in (NOT a proof): settings.UserDict, the configured users (admins, project_leaders, robot) that
check_approvals / handle_comments compare with the handles reported by the git host (strings) through `in`, `==`
and set operations.  Oracle (settings documentation: a user is `username` or `username@account_id`): a string
denotes the user iff it IS the username or the account id; set membership / intersection / difference agree with
that (so hash and eq are consistent for the string the host uses: the account id when there is one).
Scope: users over usernames/account ids from a small alphabet incl. fragments and prefixes of each other, every
probe string of the same alphabet."""
import itertools
import time


def run(tier='quick', seed=0, jobs=1):
    from bert_e.settings import UserDict
    t0 = time.time()
    names = ['ann', 'ann-marie', 'marie', 'root', 'roo', 'a', '']
    ids = [None, '557058:abc', '557058', 'abc']
    probes = sorted(set(names + [i for i in ids if i] + ['nn', 'ann-', 'oot', '557058:ab']))
    users = [UserDict({'username': u, 'account_id': a}) for u in names if u for a in ids]
    fails, cases = [], 0

    def fail(sig, detail):
        if len(fails) < 20:
            fails.append({'clause': 'userdict', 'signature': sig, 'case': detail, 'detail': detail})
    for u in users:
        un, ac = u.username, u.account_id
        for p in probes:
            cases += 1
            want = (p == un) or (ac is not None and p == ac)
            try:
                got = (u == p)
            except Exception as e:  # noqa
                fail('eq_crash', {'user': [un, ac], 'probe': p, 'error': repr(e)})
                continue
            if bool(got) != want:
                fail('eq_with_string', {'user': [un, ac], 'probe': p, 'got': got, 'want': want})
            if bool(p in [u]) != want:
                fail('membership_in_list', {'user': [un, ac], 'probe': p})
        # the handle the host reports for this user: the account id when it has one, else the username
        handle = ac if ac else un
        cases += 1
        if handle not in {u} or not ({handle} & {u}) or ({handle} - {u}):
            fail('set_operations_with_host_handle', {'user': [un, ac], 'handle': handle})
    for a, b in itertools.product(users, repeat=2):
        cases += 1
        if a.account_id and b.account_id:
            want = a.account_id == b.account_id
        else:
            want = a.username == b.username
        if bool(a == b) != want:
            fail('eq_between_users', {'a': [a.username, a.account_id], 'b': [b.username, b.account_id]})
        if want and hash(a) != hash(b) and bool(a.account_id) == bool(b.account_id):
            fail('hash_inconsistent_with_eq', {'a': [a.username, a.account_id], 'b': [b.username, b.account_id]})
    sigs = {}
    for f in fails:
        sigs[f['signature']] = sigs.get(f['signature'], 0) + 1
    return {'name': 'bounded/userdict.py', 'scope': __doc__.split('Scope:')[1].strip(), 'cases': cases,
            'distinct_nontrivial': cases, 'n_failures': len(fails), 'failure_signatures': sigs, 'failures': fails[:6],
            'wall_s': round(time.time() - t0, 2)}


def integrate(rep):
    from pyvc.cli import write_replay
    res = run()
    rep.bounded.append({k: res.get(k) for k in ('name', 'scope', 'cases', 'distinct_nontrivial', 'n_failures',
                                                'failure_signatures', 'wall_s')})
    seen = set()
    for f in res['failures']:
        k = 'bounded:userdict:%s' % f['signature']
        if k in seen:
            continue
        seen.add(k)
        rep.violations.append({'key': k, 'what': 'configured users vs host handles: %s' % f['signature'],
                               'replay': write_replay(rep.pid, k, f), 'input': f['case'], 'noinput': False})


if __name__ == '__main__':
    import json
    print(json.dumps(run(), indent=1, default=str)[:2000])
