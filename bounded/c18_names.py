#!/verif/.venv/bin/python
"""Bounded exhaustive check of property C18 (branch naming grammar and
round trip of derived w/ q/ q/w/ names) against the REAL
``bert_e.workflow.gitwaterflow.branches.branch_factory``.

The oracle below is a hand written scanner of the naming grammar: it does not
use ``re`` and does not look at the ``pattern`` attributes of the real classes.

Usage:  /verif/.venv/bin/python bounded/c18_names.py [quick|thorough] [seed]
"""
import sys
sys.path.insert(0, '/repo')

import itertools
import json
import multiprocessing as mp
import time
from types import SimpleNamespace

from bert_e import exceptions as berte_errors
from bert_e.workflow.gitwaterflow import branches as gwfb
from bert_e.workflow.gitwaterflow import queueing as gwfq

NAME = 'c18_names'

# --------------------------------------------------------------------------
# The grammar, as stated by the property / documentation (NOT the patterns).
# --------------------------------------------------------------------------
FEATURE_PREFIXES = ('improvement', 'bugfix', 'feature', 'project',
                    'documentation', 'design', 'dependabot', 'epic', 'bug')
DESTINATION_KINDS = ('DevelopmentBranch', 'StabilizationBranch',
                     'HotfixBranch')
CLAUSES = ('classification', 'attributes', 'destination_flag',
           'roundtrip_w', 'roundtrip_qw', 'roundtrip_q')
DIGITS = '0123456789'
LOWER = 'abcdefghijklmnopqrstuvwxyz'
UPPER = 'ABCDEFGHIJKLMNOPQRSTUVWXYZ'
ANY = '*'          # wildcard used in ambiguous ('either') outcomes
REJECT = {'cls': None}


def _scan_version(text, allowed_lengths):
    """<digits>('.'<digits>)* with a number of components in allowed_lengths.

    Returns the list of component strings or None."""
    parts = []
    i, n = 0, len(text)
    while True:
        j = i
        while j < n and text[j] in DIGITS:
            j += 1
        if j == i:
            return None                    # empty component
        parts.append(text[i:j])
        if j == n:
            break
        if text[j] != '.':
            return None
        i = j + 1
    if len(parts) not in allowed_lengths:
        return None
    return parts


def _has_leading_zero(parts):
    return any(len(p) > 1 and p[0] == '0' for p in parts)


def _version_fields(parts):
    vals = [int(p) for p in parts] + [None] * (4 - len(parts))
    return dict(zip(('major', 'minor', 'micro', 'hfrev'), vals))


def _version_tuple(parts):
    """the version a robot name parses back to, as a tuple: (major, minor or None) plus the micro and the
    hotfix revision when the name has them (0 is a component like any other)"""
    vals = [int(p) for p in parts]
    if len(vals) == 1:
        return (vals[0], None)
    return tuple(vals)


def _scan_ticket(label):
    """Leading ticket key <PROJECT>-<digits>, PROJECT = [A-Za-z0-9_]+.

    Returns (key, project, ambiguous)."""
    n = len(label)
    i = 0
    while i < n and (label[i] in DIGITS or label[i] in LOWER or
                     label[i] in UPPER or label[i] == '_'):
        i += 1
    if i == 0 or i >= n or label[i] != '-':
        return None, None, False
    j = i + 1
    while j < n and label[j] in DIGITS:
        j += 1
    if j == i + 1:
        return None, None, False
    # 'A-1B': the grammar does not say whether a ticket number may be glued
    # to a following letter -> either 'A-1' or no ticket at all.
    ambiguous = j < n and (label[j] in LOWER or label[j] in UPPER)
    return label[:j].upper(), label[:i].upper(), ambiguous


def _feature_outcomes(name):
    """Outcomes (list of attribute dicts) if name is feature-like, else []."""
    k = name.find('/')
    if k < 0:
        return []
    prefix, label = name[:k], name[k + 1:]
    if prefix not in FEATURE_PREFIXES or label == '':
        return []
    key, project, ambiguous = _scan_ticket(label)
    base = {'prefix': prefix, 'label': label, 'feature_branch': name}
    outs = [dict(base, jira_issue_key=key, jira_project=project)]
    if ambiguous:
        outs.append(dict(base, jira_issue_key=None, jira_project=None))
    return outs


def oracle(name):
    """Return the list of acceptable outcomes for ``name``.

    One element: the grammar is definite.  Several: genuinely ambiguous
    ('either')."""
    k = name.find('/')
    if k < 0:
        return [REJECT]
    head, rest = name[:k], name[k + 1:]

    def versioned(cls, lengths, alt=REJECT, extra=None):
        parts = _scan_version(rest, lengths)
        if parts is None:
            return None
        out = {'cls': cls, 'version': rest}
        fields = _version_fields(parts)
        for key in ('major', 'minor', 'micro', 'hfrev')[:max(lengths)]:
            out[key] = fields[key]
        if extra:
            out.update(extra(parts))
        if _has_leading_zero(parts):
            if 'queue_dst' in out:
                out['queue_dst'] = ANY
            return [out, alt]
        return [out]

    if head == 'development':
        return versioned('DevelopmentBranch', (1, 2)) or [REJECT]
    if head == 'stabilization':
        return versioned('StabilizationBranch', (3,)) or [REJECT]
    if head == 'release':
        return versioned('ReleaseBranch', (2,)) or [REJECT]
    if head == 'hotfix':
        if rest == '':
            return [REJECT]
        legacy = {'cls': 'LegacyHotfixBranch', 'label': rest}
        return versioned('HotfixBranch', (3,), alt=legacy) or [legacy]
    if head == 'user':
        if rest == '':
            return [REJECT]
        return [{'cls': 'UserBranch', 'label': rest}]
    if head in FEATURE_PREFIXES:
        outs = _feature_outcomes(name)
        if not outs:
            return [REJECT]
        return [dict(o, cls='FeatureBranch') for o in outs]
    if head == 'w':
        return _integration_outcomes(rest, 'IntegrationBranch', {})
    if head == 'q':
        if rest[:2] == 'w/':
            tail = rest[2:]
            k2 = tail.find('/')
            if k2 < 0:
                return [REJECT]
            pr_txt, tail2 = tail[:k2], tail[k2 + 1:]
            if pr_txt == '' or any(c not in DIGITS for c in pr_txt):
                return [REJECT]
            outs = _integration_outcomes(tail2, 'QueueIntegrationBranch',
                                         {'pr_id': int(pr_txt)})
            if outs != [REJECT] and len(pr_txt) > 1 and pr_txt[0] == '0':
                if REJECT not in outs:
                    outs = outs + [REJECT]
            return outs

        def qdst(parts):
            if len(parts) == 4:
                return {'queue_dst': 'hotfix/' + '.'.join(parts[:3])}
            if len(parts) == 3:
                return {'queue_dst': 'stabilization/' + rest}
            return {'queue_dst': 'development/' + rest}
        return versioned('QueueBranch', (1, 2, 3, 4), extra=qdst) or [REJECT]
    return [REJECT]


def _integration_outcomes(rest, cls, extra):
    k = rest.find('/')
    if k < 0:
        return [REJECT]
    ver, src = rest[:k], rest[k + 1:]
    parts = _scan_version(ver, (1, 2, 3, 4))
    if parts is None:
        return [REJECT]
    fouts = _feature_outcomes(src)
    if not fouts:
        return [REJECT]
    outs = []
    for fo in fouts:
        o = dict(fo, cls=cls, version=ver)
        o.update(_version_fields(parts))
        o.update(extra)
        outs.append(o)
    if _has_leading_zero(parts):
        outs.append(REJECT)
    return outs


# --------------------------------------------------------------------------
# Observation of the real code
# --------------------------------------------------------------------------
class _FakeRepo:
    """Enough of git.Repository for Branch.exists()."""
    def checkout(self, name):
        return None

    def cmd(self, *args, **kwargs):
        return ''


FAKE = _FakeRepo()
VERSION_ATTRS = ('version', 'major', 'minor', 'micro', 'hfrev')
FEATURE_ATTRS = ('prefix', 'label', 'jira_issue_key', 'jira_project',
                 'feature_branch')
ATTRS = {
    'DevelopmentBranch': VERSION_ATTRS[:3],
    'StabilizationBranch': VERSION_ATTRS[:4],
    'HotfixBranch': VERSION_ATTRS[:4],
    'ReleaseBranch': VERSION_ATTRS[:3],
    'FeatureBranch': FEATURE_ATTRS,
    'IntegrationBranch': VERSION_ATTRS + FEATURE_ATTRS,
    'QueueBranch': VERSION_ATTRS,
    'QueueIntegrationBranch': ('pr_id',) + VERSION_ATTRS + FEATURE_ATTRS,
    'UserBranch': ('label',),
    'LegacyHotfixBranch': ('label',),
}
FACTORY_CLASSES = [gwfb.StabilizationBranch, gwfb.DevelopmentBranch,
                   gwfb.ReleaseBranch, gwfb.QueueBranch,
                   gwfb.QueueIntegrationBranch, gwfb.FeatureBranch,
                   gwfb.HotfixBranch, gwfb.LegacyHotfixBranch,
                   gwfb.IntegrationBranch, gwfb.UserBranch]


def observe(name, with_matches=True):
    """What the real branch_factory says about ``name``."""
    try:
        branch = gwfb.branch_factory(None, name)
    except berte_errors.UnrecognizedBranchPattern:
        return {'cls': None}
    except Exception as err:                      # pragma: no cover
        return {'cls': 'EXC:' + type(err).__name__, 'error': str(err)[:80]}
    cls = type(branch).__name__
    got = {'cls': cls, 'name': branch.name,
           'dest': bool(branch.can_be_destination)}
    for attr in ATTRS.get(cls, ()):
        got[attr] = getattr(branch, attr, '<missing>')
    if cls in ('IntegrationBranch', 'QueueBranch', 'QueueIntegrationBranch'):
        try:
            got['version_t'] = tuple(branch.version_t)
        except Exception as err:                  # pragma: no cover
            got['version_t'] = 'EXC:' + type(err).__name__
    if cls == 'QueueBranch':
        dst = branch.dst_branch
        got['queue_dst'] = getattr(dst, 'name', repr(dst))
        got['queue_dst_is_destination'] = bool(
            getattr(dst, 'can_be_destination', False))
    if with_matches:
        matches = []
        for klass in FACTORY_CLASSES:
            try:
                klass(None, name)
                matches.append(klass.__name__)
            except berte_errors.BranchNameInvalid:
                pass
            except Exception as err:              # pragma: no cover
                matches.append('EXC:%s:%s' % (klass.__name__,
                                              type(err).__name__))
        got['matching_classes'] = matches
    return got


def _matches(expected, got):
    if expected['cls'] is None or got['cls'] is None:
        return expected['cls'] == got['cls']
    for key, val in expected.items():
        if val == ANY:
            continue
        if got.get(key, '<absent>') != val:
            return False
    return True


def check_name(name):
    """Compare oracle and real code on one name.  Returns list of failures
    (clause, expected, got)."""
    outs = oracle(name)
    got = observe(name)
    fails = []
    # destination flag
    if got['cls'] is not None:
        exp_dest = got['cls'] in DESTINATION_KINDS
        if got.get('dest') != exp_dest:
            fails.append(('destination_flag', exp_dest, got))
        if got.get('name') != name:
            fails.append(('attributes', {'name': name}, got))
        if got['cls'] == 'QueueBranch' and \
                not got.get('queue_dst_is_destination'):
            fails.append(('destination_flag',
                          'q/<ver> targets a destination kind', got))
        allowed = {got['cls']}
        if got['cls'] == 'HotfixBranch':
            allowed.add('LegacyHotfixBranch')   # documented overlap
        if set(got.get('matching_classes', ())) - allowed:
            fails.append(('classification',
                          'exactly one kind: %s' % sorted(allowed), got))
    if any(_matches(o, got) for o in outs):
        return fails, outs, got
    classes = [o['cls'] for o in outs]
    if got['cls'] not in classes:
        fails.append(('classification', outs if len(outs) > 1 else outs[0],
                      got))
    else:
        fails.append(('attributes', outs if len(outs) > 1 else outs[0], got))
    return fails, outs, got


def _stub_job(src):
    dsts = [SimpleNamespace(hfrev=-1, version='0'),
            SimpleNamespace(hfrev=-1, version='1')]
    return SimpleNamespace(
        git=SimpleNamespace(repo=FAKE, cascade=SimpleNamespace(
            dst_branches=dsts)),
        pull_request=SimpleNamespace(src_branch=src))


def check_roundtrip(pr, ver, src):
    """Round trip of the names Bert-E derives for (pr, ver, src)."""
    fails = []
    parts = _scan_version(ver, (1, 2, 3, 4))
    fields = _version_fields(parts)
    try:
        real_src = gwfb.branch_factory(None, src)
    except berte_errors.UnrecognizedBranchPattern:
        return [('roundtrip_w', 'source is a FeatureBranch', 'rejected')]
    except Exception as err:      # the factory must classify or reject, not crash
        return [('roundtrip_w', 'source is a FeatureBranch',
                 'crash: %s: %s' % (type(err).__name__, str(err)[:80]))]
    if type(real_src).__name__ != 'FeatureBranch':
        return [('roundtrip_w', 'source is a FeatureBranch',
                 type(real_src).__name__)]
    dst = SimpleNamespace(version=ver)
    # same expression as integration.py
    wname = "w/{}/{}".format(dst.version, real_src)
    exp_w = dict(fields, cls='IntegrationBranch', version=ver, version_t=_version_tuple(parts),
                 feature_branch=src, prefix=real_src.prefix,
                 label=real_src.label,
                 jira_issue_key=real_src.jira_issue_key,
                 jira_project=real_src.jira_project)
    got_w = observe(wname, with_matches=False)
    if not _matches(exp_w, got_w):
        fails.append(('roundtrip_w', exp_w, got_w))
        if got_w['cls'] != 'IntegrationBranch':
            return fails
    # real queueing.get_queue_integration_branch
    exp_q = dict(exp_w, cls='QueueIntegrationBranch', pr_id=pr)
    try:
        wbranch = gwfb.branch_factory(FAKE, wname)
        qw = gwfq.get_queue_integration_branch(_stub_job(src), pr, wbranch)
        got_q = observe(qw.name, with_matches=False)
        got_q['derived_name'] = qw.name
    except berte_errors.UnrecognizedBranchPattern as err:
        got_q = {'cls': None, 'error': str(err)[:100]}
    except Exception as err:
        got_q = {'cls': None, 'error': 'crash: %s: %s' % (
            type(err).__name__, str(err)[:80])}
    if not _matches(exp_q, got_q):
        fails.append(('roundtrip_qw', exp_q, got_q))
    return fails


def check_roundtrip_q(ver):
    parts = _scan_version(ver, (1, 2, 3, 4))
    exp = dict(_version_fields(parts), cls='QueueBranch', version=ver, version_t=_version_tuple(parts))
    try:
        qbranch = gwfq.get_queue_branch(
            SimpleNamespace(git=SimpleNamespace(repo=FAKE)),
            SimpleNamespace(version=ver), create=False)
        got = observe(qbranch.name, with_matches=False)
    except berte_errors.UnrecognizedBranchPattern as err:
        got = {'cls': None, 'error': str(err)[:100]}
    except Exception as err:
        got = {'cls': None, 'error': 'crash: %s: %s' % (
            type(err).__name__, str(err)[:80])}
    if not _matches(exp, got):
        return [('roundtrip_q', exp, got)]
    return []


# --------------------------------------------------------------------------
# Bounded grammar
# --------------------------------------------------------------------------
LABEL_ATOMS = ('w', 'q', 'AB', '4', '10', '-', '_', '.', '/', 'TICKET-1',
               'abc-12')
UNKNOWN_HEADS = ('toto', 'Feature', 'features', 'bu', 'origin/feature',
                 '', 'W', 'dev', 'bugfix-x')
VERSION_NUMS = ('0', '4', '10')
MALFORMED_VERSIONS = ('', '.', '4.', '.4', '4..3', '4.3.', '4.x', 'x', 'x.y',
                      '4.3.18.2.1', '04', '04.3', '4.03', '4.3.018',
                      '4.3.18.02', '00', 'v4.3', '4,3', '4.3-rc1', '4_3',
                      '-1', '+4', '4.3/', '/4.3', '4/3', '4.3.18.2.',
                      '1e3', '0x10', '4.3~', '4.3^')
W_VERSIONS = ('4', '10', '4.3', '10.0', '4.3.18', '4.3.18.2', '0.0.0.0',
              '', '4.', '.4', '4..3', 'x', '04.3', '4.3.18.2.1', '4-3',
              '4.3.18.02')
QW_PRS = ('1', '7', '10', '123', '007', '', 'x', '-1', '1.0')
W_SRC_HEADS = FEATURE_PREFIXES + ('user', 'hotfix', 'development', 'w', 'q',
                                  'toto', '')
NASTY_SOURCES = (
    'bugfix/4.3/x', 'feature/w/1/2', 'bugfix/TICKET-1-q/w/3/4.3/bugfix/x',
    'feature/q/w/7/4.3/feature/x', 'bugfix/w/4.3/bugfix/x',
    'improvement/development/4.3', 'bugfix/hotfix/4.3.18',
    'bugfix/ABC-12-34', 'feature/A-1B', 'bugfix/4-3', 'bugfix/4.3-x',
    'bugfix/_-1', 'bugfix/ABC-', 'bugfix/-12', 'bugfix/ABC--12',
    'bugfix/ABC-12', 'bugfix/abc-0', 'project/test-0006',
    'feature/PROJECT-05-some-text_here', 'feature/some-text_here',
    'dependabot/npm_and_yarn/ui/lodash-4.17.13', 'dependabot/lodash-4.17.13',
    'bugfix/x', 'bug/x', 'bug/fix/x', 'bugfix/bugfix/x', 'epic/RING-1',
    'feature/RING-1/sub/task', 'feature/RING_2-1', 'feature/1.2.3',
    'feature/1', 'feature/.', 'feature/-', 'feature/_', 'feature//',
    'feature/x/', 'feature/x.', 'feature/x..y', 'feature/x.lock',
    'design/10.0/stabilization/10.0.1', 'documentation/release/4.3',
    'improvement/ZENKO-1234-q/4.3', 'bugfix/S3C-1/10', 'bugfix/10/S3C-1',
    'feature/TICKET-1TICKET-2', 'feature/AB-4AB', 'feature/AB-4_AB',
    'feature/AB-4.10', 'feature/4AB-4', 'feature/AB_4-10-w',
)
NASTY_NAMES = (
    'feature', 'feature/', 'epic', 'epic/', 'my-fix', 'TEST-0001-my-fix',
    '/feature/TEST-0001', 'origin/feature/TEST-0001', 'toto/TEST-0005',
    'user/4.3/TEST-0005', 'release/4.3', 'release/4', 'release/4.3.1',
    'development/4.3', 'development/5.1', 'development/10.0', 'development/4',
    'development/4.3.1', 'development/', 'development', 'feature-TEST-0005',
    'stabilization/6.6.6', 'stabilization/6.6', 'stabilization/6.6.6.6',
    'hotfix/6.6.6', 'hotfix/6.6', 'hotfix/6.6.6.1', 'hotfix/', 'hotfix/x',
    'hotfix/6.6.6/x', 'hotfix/06.6.6', 'q/4.3', 'q/4', 'q/4.3.18',
    'q/4.3.18.2', 'q/4.3.18.2.1', 'q/', 'q', 'q/w', 'q/w/', 'q/w/1',
    'q/w/1/4.3', 'q/w/1/4.3/', 'q/w/1/4.3/feature', 'q/w/1/4.3/feature/',
    'q/w/1/4.3/feature/x', 'q/w/1/4.3/user/x', 'q/w/x/4.3/feature/x',
    'q/w//4.3/feature/x', 'q/w/1//feature/x', 'q/q/4.3', 'q/w/w/1/4.3/bug/x',
    'w/4.3/feature/x', 'w/4.3/feature/', 'w/4.3/feature', 'w/4.3/', 'w/4.3',
    'w/', 'w', 'w//feature/x', 'w/feature/x', 'w/4.3/w/4.3/feature/x',
    'w/4.3/user/x', 'w/4.3/development/4.3', 'w/development/4.3',
    'w/4.3.18.2/bugfix/x', 'w/4.3.18.2.1/bugfix/x', 'W/4.3/feature/x',
    'Development/4.3', 'DEVELOPMENT/4.3', 'development/4.3/', 'user/',
    'user/x', 'user/x/y', 'user', 'refs/heads/development/4.3', 'master',
    'main', 'HEAD', 'stabilization/4.3.x', 'development/4.x', 'bugfix//x',
)


def _labels(max_len, first=None):
    for n in range(1, max_len + 1):
        if first is None:
            pools = [LABEL_ATOMS] * n
        else:
            pools = [(first,)] + [LABEL_ATOMS] * (n - 1)
        for combo in itertools.product(*pools):
            yield ''.join(combo)


def _versions():
    for n in (1, 2, 3, 4):
        for combo in itertools.product(VERSION_NUMS, repeat=n):
            yield '.'.join(combo)
    for v in MALFORMED_VERSIONS:
        yield v


def _gen(task):
    """Generate ('name', str) / ('rt', pr, ver, src) cases for a task."""
    kind = task[0]
    if kind == 'head_label':
        _, head, first, max_len = task
        if first == '':
            yield ('name', head + '/')
            yield ('name', head)
            return
        for label in _labels(max_len, first):
            yield ('name', head + '/' + label)
    elif kind == 'head_version':
        _, head = task
        for v in _versions():
            yield ('name', head + '/' + v)
    elif kind == 'w':
        _, ver, max_len = task
        for head in W_SRC_HEADS:
            for label in itertools.chain(('',), _labels(max_len)):
                src = head + '/' + label
                yield ('name', 'w/' + ver + '/' + src)
        for src in NASTY_SOURCES:
            yield ('name', 'w/' + ver + '/' + src)
    elif kind == 'qw':
        _, pr, max_len = task
        for ver in W_VERSIONS:
            for head in W_SRC_HEADS:
                for label in itertools.chain(('',), _labels(max_len)):
                    yield ('name', 'q/w/%s/%s/%s/%s' % (pr, ver, head, label))
            for src in NASTY_SOURCES:
                yield ('name', 'q/w/%s/%s/%s' % (pr, ver, src))
    elif kind == 'nasty':
        for name in NASTY_NAMES + NASTY_SOURCES:
            yield ('name', name)
            yield ('name', name.upper())
            yield ('name', '/' + name)
            yield ('name', name + '/')
            yield ('name', 'origin/' + name)
            yield ('name', name + '.')
    elif kind == 'rt':
        _, head, first, max_len = task
        if first == '':
            srcs = [s for s in NASTY_SOURCES if s.startswith(head + '/')]
        else:
            srcs = (head + '/' + lab for lab in _labels(max_len, first))
        for src in srcs:
            for pr in RT_PRS:
                for ver in RT_VERSIONS:
                    yield ('rt', pr, ver, src)
    elif kind == 'rt_q':
        for ver in RT_VERSIONS + W_VERSIONS[:7]:
            yield ('rt_q', ver)


RT_PRS = (1, 7, 10, 123)
RT_VERSIONS = ('4', '4.3', '10.0', '4.3.18', '4.3.18.2')


def _tasks(tier):
    thorough = tier == 'thorough'
    feat_len = 5 if thorough else 4
    other_len = 4 if thorough else 3
    w_len = 3 if thorough else 2
    qw_len = 2 if thorough else 1
    rt_len = 4 if thorough else 3
    tasks = [('nasty',), ('rt_q',)]
    for head in FEATURE_PREFIXES:
        for first in LABEL_ATOMS + ('',):
            tasks.append(('head_label', head, first, feat_len))
            tasks.append(('rt', head, first, rt_len))
    for head in ('user', 'hotfix', 'development', 'release', 'q', 'w',
                 'stabilization') + UNKNOWN_HEADS:
        for first in LABEL_ATOMS + ('',):
            tasks.append(('head_label', head, first, other_len))
    for head in ('development', 'stabilization', 'hotfix', 'release', 'q',
                 'user', 'w', 'feature', 'toto', 'q/w', 'q/w/1'):
        tasks.append(('head_version', head))
    for ver in W_VERSIONS:
        tasks.append(('w', ver, w_len))
    for pr in QW_PRS:
        tasks.append(('qw', pr, qw_len))
    return tasks


def signature(name):
    """Structural signature: known first component kept, letters/digits
    collapsed."""
    k = name.find('/')
    head = name[:k] if k >= 0 else ''
    known = FEATURE_PREFIXES + ('development', 'stabilization', 'hotfix',
                                'release', 'user', 'w', 'q')
    out = []
    if head in known:
        out.append('<feat>' if head in FEATURE_PREFIXES else head)
        rest = name[k:]
    else:
        rest = name
    prev = None
    i = 0
    while i < len(rest):
        c = rest[i]
        matched = None
        if c == '/':
            for p in FEATURE_PREFIXES:
                if rest.startswith('/' + p + '/', i):
                    matched = p
                    break
        if matched:
            out.append('/<feat>')
            i += len(matched) + 1
            prev = None
            continue
        if c in DIGITS:
            sym = '9'
        elif c in LOWER:
            sym = 'a'
        elif c in UPPER:
            sym = 'A'
        else:
            sym = c
        if not (sym in '9aA' and sym == prev):
            out.append(sym)
        prev = sym
        i += 1
    return ''.join(out)


def _diff_keys(expected, got):
    """Names of the attributes on which got differs from (the first
    acceptable) expected outcome; upper/lower-case-only differences are
    tagged."""
    if isinstance(expected, list):
        expected = expected[0]
    if not isinstance(expected, dict) or not isinstance(got, dict):
        return ''
    out = []
    for key, val in expected.items():
        if key == 'cls' or val == ANY:
            continue
        gval = got.get(key, '<absent>')
        if gval != val:
            if isinstance(val, str) and isinstance(gval, str) and \
                    val.upper() == gval.upper():
                out.append(key + ':case_only')
            else:
                out.append(key)
    return ','.join(sorted(out))


def _case_of(item):
    if item[0] == 'name':
        return {'kind': 'name', 'name': item[1]}
    if item[0] == 'rt':
        return {'kind': 'roundtrip', 'pr': item[1], 'ver': item[2],
                'src': item[3]}
    return {'kind': 'roundtrip_q', 'ver': item[1]}


def _run_task(task):
    cases = 0
    nontrivial = 0
    either = 0
    sigs = {}            # signature -> [count, example failure]
    samples = []
    kinds = {}
    for item in _gen(task):
        cases += 1
        if item[0] == 'name':
            name = item[1]
            fails, outs, got = check_name(name)
            if outs[0]['cls'] is not None:
                nontrivial += 1
            if len(outs) > 1:
                either += 1
            kinds[str(got['cls'])] = kinds.get(str(got['cls']), 0) + 1
            sig_base = signature(name)
            if not fails and len(samples) < 2 and got['cls'] is not None \
                    and cases % 97 == 1:
                samples.append({'case': _case_of(item), 'expected': outs,
                                'got': got})
        elif item[0] == 'rt':
            nontrivial += 1
            fails = check_roundtrip(item[1], item[2], item[3])
            sig_base = 'pr/%s/%s' % ('.'.join('9' for _ in
                                              item[2].split('.')),
                                     signature(item[3]))
        else:
            nontrivial += 1
            fails = check_roundtrip_q(item[1])
            sig_base = 'q/' + item[1]
        for clause, expected, got_f in fails:
            exp_cls = expected.get('cls', '?') if isinstance(expected, dict) \
                else ('either' if isinstance(expected, list) else '?')
            got_cls = got_f.get('cls') if isinstance(got_f, dict) else got_f
            diff = _diff_keys(expected, got_f)
            sig = '%s|%s|exp=%s|got=%s|diff=%s' % (clause, sig_base, exp_cls,
                                                   got_cls, diff)
            failure = {'case': _case_of(item), 'clause': clause,
                       'signature': sig, 'expected': expected, 'got': got_f}
            size = len(json.dumps(failure['case']))
            cur = sigs.get(sig)
            if cur is None:
                sigs[sig] = [1, size, failure]
            else:
                cur[0] += 1
                if size < cur[1]:
                    cur[1], cur[2] = size, failure
    return {'cases': cases, 'nontrivial': nontrivial, 'either': either,
            'sigs': sigs, 'samples': samples, 'kinds': kinds}


def _compact(res):
    if res.get('cls') is None:
        return 'rejected'
    skip = ('cls', 'name', 'matching_classes', 'queue_dst_is_destination')
    return '%s(%s)' % (res['cls'], ', '.join(
        '%s=%s' % (k, ascii(v)) for k, v in res.items()
        if k not in skip and v is not None))


def _probes():
    names = ['development/4.3\n', 'feature/x\n', 'q/4.3\n',
             'w/4.3/feature/x\n', 'hotfix/4.3.1\n', 'user/x\n',
             'stabilization/4.3.1\n', 'release/4.3\n', 'feature/a\nb',
             'feature/\n', 'development/4.3\n\n',
             'development/٤.٣', 'stabilization/４.３.１',
             'q/w/١/4.3/feature/x', 'q/१', 'hotfix/٤.3.1',
             'feature/ABC-١٢', 'feature/été',
             'feature/a b', 'feature/a\tb', ' development/4.3',
             'development/4.3 ', 'development/ 4.3', 'development/4.3\r',
             'development/+4', 'development/4_3', 'development/1_0.0',
             'development/04.3', 'q/w/007/4.3/feature/x',
             'dependabot/lodash-4.17.13', 'bugfix/4-3-backport',
             'feature/A-1B']
    out = {}
    for name in names:
        got = observe(name, with_matches=False)
        try:
            strict = oracle(name)
        except Exception as err:                  # pragma: no cover
            strict = 'oracle error %r' % err
        out[ascii(name)] = {
            'real': _compact(got),
            'strict_grammar': ' | '.join(_compact(o) for o in strict)
            if isinstance(strict, list) else strict,
            'agree': (isinstance(strict, list) and
                      any(_matches(o, got) for o in strict)),
        }
    out['real_feature_prefixes_equal_statement'] = (
        tuple(gwfb.FeatureBranch.all_prefixes) == FEATURE_PREFIXES)
    return out


def run(tier: str = 'quick', seed: int = 0, jobs: int = 16) -> dict:
    t0 = time.time()
    tasks = _tasks(tier)
    # biggest tasks first for load balancing
    tasks.sort(key=lambda t: -(t[3] if len(t) > 3 and isinstance(t[3], int)
                               else 1))
    if jobs > 1:
        with mp.Pool(jobs) as pool:
            results = pool.map(_run_task, tasks, chunksize=1)
    else:
        results = [_run_task(t) for t in tasks]
    cases = sum(r['cases'] for r in results)
    nontrivial = sum(r['nontrivial'] for r in results)
    either = sum(r['either'] for r in results)
    kinds = {}
    sigs = {}
    samples = []
    for res in results:
        for k, v in res['kinds'].items():
            kinds[k] = kinds.get(k, 0) + v
        for sig, (count, size, failure) in res['sigs'].items():
            cur = sigs.get(sig)
            if cur is None:
                sigs[sig] = [count, size, failure]
            else:
                cur[0] += count
                if size < cur[1]:
                    cur[1], cur[2] = size, failure
        samples.extend(res['samples'])
    # group signatures more coarsely for the report: by clause + classes
    n_failures = sum(v[0] for v in sigs.values())
    ordered = sorted(sigs.items(), key=lambda kv: (kv[1][1], kv[0]))
    failures = []
    seen_coarse = {}
    groups = {}
    for sig, (count, size, failure) in ordered:
        coarse = sig.split('|')[0] + '|' + '|'.join(sig.split('|')[2:])
        seen_coarse[coarse] = seen_coarse.get(coarse, 0) + 1
        groups[coarse] = groups.get(coarse, 0) + count
        if seen_coarse[coarse] <= 4 and len(failures) < 50:
            failures.append(failure)
    sample_kinds = set()
    picked = []
    for s in samples:
        k = s['got']['cls']
        if k not in sample_kinds:
            sample_kinds.add(k)
            picked.append(s)
        if len(picked) >= 5:
            break
    notes = [
        "oracle = hand written scanner of the grammar in the statement; "
        "no re, no use of the pattern attributes",
        "names restricted to printable ASCII without whitespace; trailing "
        "newline / non-ASCII digits / whitespace only probed (see probes)",
        "either: a version or pr id component with a leading zero "
        "('development/04.3', 'q/w/007/..') may be accepted (int value) or "
        "rejected; 'hotfix/04.3.1' may be HotfixBranch or LegacyHotfixBranch",
        "either: a ticket number glued to a following letter "
        "('feature/A-1B', 'feature/TICKET-1TICKET-2'): key 'A-1' or no key",
        "decided by the grammar (not either): 'bugfix/ABC-12-34' -> ABC-12 "
        "(PROJECT cannot contain '-', the key is the leading one); PROJECT "
        "may be all digits/underscores ('bugfix/4-3' -> key '4-3', "
        "'dependabot/lodash-4.17.13' -> key 'LODASH-4') because the "
        "statement defines PROJECT as [A-Za-z0-9_]+",
        "labels that are not valid git refs ('feature/x..y', 'feature/x/', "
        "'feature/x.lock') are accepted by the grammar and by the oracle",
        "'exactly one kind' is checked by constructing every class of the "
        "factory list on every name (HotfixBranch+LegacyHotfixBranch overlap "
        "allowed, resolved by factory order)",
        "q/<ver> additionally checked to target development/<ver>, "
        "stabilization/<ver> or hotfix/<x.y.z> (a destination kind)",
        "round trip uses the real queueing.get_queue_integration_branch / "
        "get_queue_branch with a stub job and the same format expression "
        "as integration.py for w/",
        ("FINDING" if groups and all('case_only' in g for g in groups)
         else "KNOWN (check failure_groups, this run %s)" % (
             'has no failure' if not groups else 'has OTHER failures too')) +
        " (attributes, roundtrip_w, roundtrip_qw): IntegrationBranch "
        "and QueueIntegrationBranch do not upper-case jira_issue_key / "
        "jira_project (only FeatureBranch.__init__ does): "
        "'w/4.3/project/test-0006'.jira_issue_key == 'test-0006' while the "
        "source 'project/test-0006' reports 'TEST-0006'; every failure of "
        "this run has diff=...:case_only (see failure_groups)",
        "PROBES (outside printable ASCII): '$' lets a single trailing "
        "newline through for every kind ('development/4.3\\n' is a "
        "DevelopmentBranch whose .name keeps the newline and whose version "
        "drops it; 'feature/x\\n' has feature_branch 'feature/x' != name); "
        "\\d accepts any Unicode decimal digit ('development/\\u0664.\\u0663' "
        "is DevelopmentBranch 4.3, 'q/w/\\u0661/..' has pr_id 1) while the "
        "ticket number uses [0-9]; an interior newline is rejected",
        "either-cases in this run: %d; real classes seen: %s" % (
            either, json.dumps(kinds, sort_keys=True)),
    ]
    return {
        'name': NAME,
        'scope': ('%s tier: %d tasks; heads x labels (<=%d atoms of %r for '
                  'feature prefixes) x version shapes (1-4 components over '
                  '%r + %d malformed); w/ and q/w/ over %d versions x %d pr '
                  'ids; round trip for pr ids %r x versions %r x every '
                  'feature-like source of the grammar (<=%d atoms) + %d '
                  'nasty sources' % (
                      tier, len(tasks), 5 if tier == 'thorough' else 4,
                      LABEL_ATOMS, VERSION_NUMS, len(MALFORMED_VERSIONS),
                      len(W_VERSIONS), len(QW_PRS), RT_PRS, RT_VERSIONS,
                      4 if tier == 'thorough' else 3, len(NASTY_SOURCES))),
        'cases': cases,
        'distinct_nontrivial': nontrivial,
        'rule': ('branch_factory(name) class/attributes/can_be_destination '
                 '== independent grammar scanner; derived w/, q/w/, q/ names '
                 'parse back to (pr id, version, source, ticket key)'),
        'notes': notes,
        'probes': _probes(),
        'n_failures': n_failures,
        'failures': failures,
        'failure_signatures': {sig: v[0] for sig, v in sorted(
            sigs.items(), key=lambda kv: -kv[1][0])[:200]},
        'n_failure_signatures': len(sigs),
        'failure_groups': groups,
        'clause_failures': {c: sum(v[0] for k, v in sigs.items()
                                   if k.split('|')[0] == c) for c in CLAUSES},
        'samples': picked,
        'exhaustive': True,
        'wall_s': round(time.time() - t0, 2),
    }


def replay(case: dict) -> dict:
    kind = case.get('kind', 'name')
    if kind == 'name':
        fails, outs, got = check_name(case['name'])
        if fails:
            clause, expected, got_f = fails[0]
            return {'ok': False, 'clause': clause, 'expected': expected,
                    'got': got_f, 'all_failed_clauses':
                    [f[0] for f in fails]}
        return {'ok': True, 'clause': 'classification+attributes',
                'expected': outs, 'got': got}
    if kind == 'roundtrip':
        fails = check_roundtrip(case['pr'], case['ver'], case['src'])
        clause = 'roundtrip_w+roundtrip_qw'
    else:
        fails = check_roundtrip_q(case['ver'])
        clause = 'roundtrip_q'
    if fails:
        return {'ok': False, 'clause': fails[0][0], 'expected': fails[0][1],
                'got': fails[0][2],
                'all_failed_clauses': [f[0] for f in fails]}
    return {'ok': True, 'clause': clause, 'expected': 'parses back',
            'got': 'parses back'}


if __name__ == '__main__':
    _tier = sys.argv[1] if len(sys.argv) > 1 else 'quick'
    _seed = int(sys.argv[2]) if len(sys.argv) > 2 else 0
    print(json.dumps(run(_tier, _seed), indent=1, default=str,
                     ensure_ascii=True))
