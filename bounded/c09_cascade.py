#!/usr/bin/env python
"""Bounded exhaustive end-to-end check of property C09 on the REAL
``bert_e.workflow.gitwaterflow.branches.BranchCascade``.

C09 (statement): for any set of development, stabilization and hotfix
branches and release tags and any destination, the branches a pull request is
merged into are the destination, then every development branch of greater or
equal version in increasing order (development/x.y by (x, y), development/x
after every development/x.*), never another stabilization or hotfix branch,
and a hotfix destination alone.  The expected fix versions are one per
targeted release line: a targeted stabilization branch contributes its own
version (its development branch then adds nothing), every other
development/x.y the next unreleased patch (skipping the one held by its
untargeted stabilization branch), development/x the next minor, a hotfix
x.y.z.(n+1); ill-formed cascades (two stabilizations for one version, a
stabilization without its development branch or whose release tag exists) are
rejected.

How the real code is driven (same sequence as ``BranchCascade.build`` followed
by the caller's ``validate()``): a fresh ``BranchCascade``; a destination
object distinct from the discovered branch objects (as in bert-e, where
``job.git.dst_branch`` is not one of the objects ``build`` creates);
``add_branch`` for every branch in the discovery order; ``update_versions``
for every tag in tag order; ``_update_major_versions``; ``finalize(dst)``;
``validate()``.  Branch objects are instances of the real classes chosen by
the real ``branch_factory`` (the class is resolved by ``branch_factory`` once
per name and per process and fresh instances are then built with that class:
``branch_factory`` costs 8 failed regex matches per hotfix name).  The branch
objects get a stub repo whose ``cmd`` succeeds, i.e. ``includes_commit`` is
always true: the git-ancestry part of ``validate`` (DevBranchesNotSelfContained)
is out of scope, the VersionMismatch / DevBranchDoesNotExist parts are live.

The oracle is written from the statement only (sort by a key function, slice
at the destination, per-line table of released tags).  It never looks at the
cascade object.  Where the statement is silent it answers 'either'; those
cases are listed in NOTES below and counted in the run output.

CLI: python bounded/c09_cascade.py [quick|thorough] [seed]
"""
import sys
sys.path.insert(0, '/repo')

import warnings
warnings.filterwarnings('ignore')

import itertools                                            # noqa: E402
import json                                                 # noqa: E402
import logging                                              # noqa: E402
import multiprocessing as mp                                # noqa: E402
import random                                               # noqa: E402
import re                                                   # noqa: E402
import time                                                 # noqa: E402
from collections import Counter, namedtuple                 # noqa: E402

from bert_e import exceptions as exns                       # noqa: E402
from bert_e.workflow.gitwaterflow.branches import (         # noqa: E402
    BranchCascade, branch_factory, DevelopmentBranch, StabilizationBranch,
    HotfixBranch)

logging.disable(logging.CRITICAL)

NAME = 'c09_cascade'

RULE = (
    "ORACLE (from the statement). Parse names into (kind, x, y|None, z|None). "
    "Tags: optional 'v', then 3 or 4 dot-separated integers and nothing else "
    "=> release x.y.z (3 parts) or hotfix release x.y.z.n (4 parts, which also "
    "proves x.y.z released); anything else (suffix _rc1, -beta ...) is not a "
    "release. top(x,y) = max released micro of line x.y, -1 if none. "
    "REJECT (must raise, any exception) iff two stabilization branches share "
    "x.y, or a stabilization/x.y.z has no development/x.y in the set (whatever "
    "the destination), or a 3-part release tag x.y.z' with z' >= z exists. "
    "Otherwise: hotfix destination -> dst=[hotfix], fix=[x.y.z.(n+1)], n = max "
    "rev among tags x.y.z.n with plain x.y.z counting as n=0. Other "
    "destination d -> devs sorted by key (x, y if y is not None else +inf); "
    "dst = [d] + devs with key >= key(d) (for a stabilization d this starts "
    "with its own development/x.y; a development d is not repeated); fix = "
    "[d's x.y.z if d is a stabilization] + for every other targeted dev in "
    "order: development/x.y -> x.y.p with p = top(x,y)+1, bumped past the "
    "micro of an untargeted stabilization of that line if it is equal; "
    "development/x -> x.(m+1).0 with m = max minor among development/x.* of "
    "the set and release tags x.*.* (-1 if none). ignored = every "
    "development/stabilization of the set not in dst (other hotfix branches: "
    "either), and the list must be sorted. Clauses compared: dst_branches "
    "(names in order), ignored, target_versions (list in order; the set is "
    "compared too and the signature says 'set-ok' when only order/duplication "
    "differs), rejection, order_independence (all discovery orders tried for "
    "one (branches, tags, dst) must give the same outcome)."
)

NOTES_STATIC = [
    "EITHER-1 (stab gap): a stabilization/x.y.z with z > top(x,y)+1 (its "
    "version is not the next unreleased patch) is not in the statement's list "
    "of ill-formed cascades; bert-e's validate() raises VersionMismatch for it "
    "only when the stabilization is targeted. Oracle: rejection is 'either'; "
    "if the code accepts, results are still compared against the statement.",
    "EITHER-2 (stale by hotfix tag only): stabilization/x.y.z when the only "
    "evidence that x.y.z' (z'>=z) was released is a 4-part tag x.y.z'.n: the "
    "statement says 'whose release tag exists'; rejection is 'either'.",
    "EITHER-3 (stab and hotfix branch for the same x.y.z in the set): "
    "statement silent; rejection 'either' (code raises "
    "DeprecatedStabilizationBranch only when dst is that hotfix and some tag "
    "of line x.y is seen).",
    "EITHER-4 (hotfix destination without any tag x.y.z / x.y.z.n): n is "
    "undefined in the statement; oracle accepts x.y.z.0 or x.y.z.1.",
    "EITHER-5 (ignored hotfix branches): the statement does not define "
    "ignored_branches; oracle requires every untargeted development/"
    "stabilization branch and accepts presence or absence of (other) hotfix "
    "branches.",
    "EITHER-6 (development/x next minor when a hotfix/x.y.z BRANCH exists for "
    "a minor y known from no development branch and no tag): oracle accepts "
    "the minor computed with or without that hotfix branch.",
    "RESOLVED (not either): 'next unreleased patch' with non-contiguous tags "
    "= max released micro + 1; suffixed tags never count (not for patches, "
    "not for development/x minors, not for stale stabilizations); v-prefixed "
    "count like plain; a 4-part tag x.y.z.n counts as release of x.y.z for "
    "development lines and development/x minors; 'tag x.y.z (or greater)' "
    "makes stabilization/x.y.z stale; a stabilization without its "
    "development/x.y must be rejected for every destination; development/x "
    "fix version is x.(m+1).0 with micro 0.",
    "A non-bert-e exception (AttributeError...) on an ill-formed cascade is "
    "reported under clause 'rejection' with signature 'crash:...': the "
    "cascade is refused, but by an internal crash rather than a rejection.",
    "cases = number of executions of the real cascade (one per branches x "
    "tags x destination x discovery order); distinct_nontrivial = number of "
    "(branch set, tag set, destination) triples that the oracle does not "
    "reject (their dst/ignored/fix-version results are actually compared). "
    "Triples are distinct within each exhaustive block by construction; "
    "blocks overlap slightly and the random block may repeat a triple.",
]

INF = float('inf')

# ---------------------------------------------------------------------------
# real code driver
# ---------------------------------------------------------------------------


class _StubRepo:
    """Every git command succeeds: includes_commit() is always True."""

    def cmd(self, *args, **kwargs):
        return ''

    def checkout(self, *args, **kwargs):
        return None


_REPO = _StubRepo()
_CLS = {}


def _fresh(name):
    cls = _CLS.get(name)
    if cls is None:
        cls = type(branch_factory(_REPO, name))
        assert cls in (DevelopmentBranch, StabilizationBranch, HotfixBranch), \
            (name, cls)
        _CLS[name] = cls
    return cls(_REPO, name)


def run_real(branches, tags, dst):
    """Drive the real BranchCascade. Returns a json-able outcome dict."""
    stage = 'add_branch'
    try:
        cascade = BranchCascade()
        dst_branch = _fresh(dst)
        for name in branches:
            cascade.add_branch(_fresh(name), dst_branch)
        stage = 'update_versions'
        for tag in tags:
            cascade.update_versions(tag)
        stage = '_update_major_versions'
        cascade._update_major_versions()
        stage = 'finalize'
        cascade.finalize(dst_branch)
        stage = 'validate'
        cascade.validate()
    except Exception as err:  # noqa: every exception is an observation here
        return {'raised': type(err).__name__, 'stage': stage,
                'berte': isinstance(err, exns.BertE_Exception)}
    return {'raised': None,
            'dst': [b.name for b in cascade.dst_branches],
            'ignored': list(cascade.ignored_branches),
            'targets': list(cascade.target_versions)}


# ---------------------------------------------------------------------------
# independent oracle
# ---------------------------------------------------------------------------

Desc = namedtuple('Desc', 'name kind x y z')
_NAME = re.compile(r'(development|stabilization|hotfix)/(\d+)'
                   r'(?:\.(\d+))?(?:\.(\d+))?\Z')


def describe(name):
    m = _NAME.match(name)
    kind, x, y, z = m.groups()
    d = Desc(name, kind, int(x), None if y is None else int(y),
             None if z is None else int(z))
    assert (kind == 'development' and z is None) or \
           (kind != 'development' and y is not None and z is not None), name
    return d


def line_key(d):
    return (d.x, d.y if d.y is not None else INF)


def read_tag(tag):
    """(x, y, z) or (x, y, z, n) for releases, None for anything else."""
    body = tag[1:] if tag.startswith('v') else tag
    parts = body.split('.')
    if len(parts) in (3, 4) and all(p.isdigit() and p.isascii()
                                    for p in parts):
        return tuple(int(p) for p in parts)
    return None


def oracle(branches, tags, dst_name):
    ds = [describe(n) for n in branches]
    dst = describe(dst_name)
    devs = sorted((d for d in ds if d.kind == 'development'), key=line_key)
    stabs = [d for d in ds if d.kind == 'stabilization']
    hots = [d for d in ds if d.kind == 'hotfix']

    plain = set()         # (x, y, z) having a 3-part release tag
    hotrev = {}           # (x, y, z) -> highest n of a 4-part tag
    for t in tags:
        v = read_tag(t)
        if v is None:
            continue
        if len(v) == 3:
            plain.add(v)
        else:
            hotrev[v[:3]] = max(v[3], hotrev.get(v[:3], -1))
    released = plain | set(hotrev)

    def top(x, y):
        return max((c for (a, b, c) in released if (a, b) == (x, y)),
                   default=-1)

    hard, soft = [], []
    if any(n > 1 for n in Counter((s.x, s.y) for s in stabs).values()):
        hard.append('two_stabs')
    dev_lines = {(d.x, d.y) for d in devs}
    if any((s.x, s.y) not in dev_lines for s in stabs):
        hard.append('dangling_stab')
    for s in stabs:
        if any((a, b) == (s.x, s.y) and c >= s.z for (a, b, c) in plain):
            hard.append('stale_stab')
        elif any((a, b) == (s.x, s.y) and c >= s.z for (a, b, c) in hotrev):
            soft.append('stale_by_hotfix_tag_only')
        elif s.z > top(s.x, s.y) + 1:
            soft.append('stab_gap')
        if any((h.x, h.y, h.z) == (s.x, s.y, s.z) for h in hots):
            soft.append('stab_and_hotfix_same_version')
    hard = sorted(set(hard))
    soft = sorted(set(soft))
    if hard:
        return {'verdict': 'reject', 'why': hard}

    exp = {'verdict': 'either' if soft else 'accept', 'why': soft}
    non_hot = {d.name for d in ds if d.kind != 'hotfix'}
    hot_names = {d.name for d in hots}

    if dst.kind == 'hotfix':
        key = (dst.x, dst.y, dst.z)
        revs = ([0] if key in plain else []) + \
               ([hotrev[key]] if key in hotrev else [])
        base = '%d.%d.%d.' % key
        if revs:
            fix = [('hotfix', [base + str(max(revs) + 1)])]
        else:
            fix = [('hotfix_no_release_tag', [base + '0', base + '1'])]
        exp.update(dst=[dst.name], fix=fix, ignored_req=sorted(non_hot),
                   ignored_opt=sorted(hot_names - {dst.name}))
        return exp

    start = line_key(dst)
    tail = [d for d in devs if line_key(d) >= start]
    dst_list = ([dst.name] if dst.kind == 'stabilization' else []) + \
        [d.name for d in tail]
    fix = []
    if dst.kind == 'stabilization':
        fix.append(('stab', ['%d.%d.%d' % (dst.x, dst.y, dst.z)]))
    for d in tail:
        if d.y is None:
            minors = {e.y for e in devs if e.x == d.x and e.y is not None}
            minors |= {b for (a, b, _c) in released if a == d.x}
            loose = minors | {h.y for h in hots if h.x == d.x}
            alts = ['%d.%d.0' % (d.x, max(minors, default=-1) + 1)]
            alt2 = '%d.%d.0' % (d.x, max(loose, default=-1) + 1)
            label = 'dev_major'
            if alt2 not in alts:
                alts.append(alt2)
                label = 'dev_major[hotfix branch on unknown minor]'
            fix.append((label, alts))
            continue
        if dst.kind == 'stabilization' and (d.x, d.y) == (dst.x, dst.y):
            continue            # the targeted stab already speaks for x.y
        held = [s.z for s in stabs if (s.x, s.y) == (d.x, d.y)]
        free = top(d.x, d.y) + 1
        label = 'dev_minor[no stab]'
        if held:
            label = 'dev_minor[untargeted stab at next%+d]' % (held[0] - free)
        while free in held:
            free += 1
        fix.append((label, ['%d.%d.%d' % (d.x, d.y, free)]))
    exp.update(dst=dst_list, fix=fix,
               ignored_req=sorted(non_hot - set(dst_list)),
               ignored_opt=sorted(hot_names))
    return exp


# ---------------------------------------------------------------------------
# comparison
# ---------------------------------------------------------------------------


def _kinds(names):
    return '+'.join(sorted(Counter(n.split('/')[0][:4] for n in names))) \
        or 'none'


def _delta(got, want):
    g, w = got.split('.'), want.split('.')
    if len(g) != len(w):
        return 'shape'
    diffs = []
    for i, (a, b) in enumerate(zip(g, w)):
        if a != b:
            try:
                diffs.append('%s%+d' % ('xyzn'[i], int(a) - int(b)))
            except ValueError:
                diffs.append('%s?' % 'xyzn'[i])
    return ','.join(diffs)


def compare(exp, got, branches, dst):
    """List of failures [(clause, signature, expected, got)]."""
    dkind = dst.split('/')[0][:4]
    out = []
    if got['raised'] is not None:
        exc = got['raised']
        if not got['berte']:
            out.append(('rejection',
                        'rejection:crash:%s@%s:oracle=%s%s:dst=%s' % (
                            exc, got['stage'], exp['verdict'],
                            '[' + ','.join(exp['why']) + ']', dkind),
                        exp['verdict'], got))
        elif exp['verdict'] == 'accept':
            out.append(('rejection',
                        'rejection:raised-on-well-formed:%s@%s:dst=%s' % (
                            exc, got['stage'], dkind),
                        {k: exp[k] for k in ('dst', 'fix')}, got))
        return out
    if exp['verdict'] == 'reject':
        out.append(('rejection',
                    'rejection:accepted-ill-formed:%s:dst=%s' % (
                        ','.join(exp['why']), dkind),
                    'must raise (%s)' % ','.join(exp['why']), got))
        return out

    soft = ''       # either-reasons are reported in 'expected', not here
    verdict = {'verdict': exp['verdict'], 'either_reasons': exp['why']}
    if got['dst'] != exp['dst']:
        missing = [n for n in exp['dst'] if n not in got['dst']]
        extra = [n for n in got['dst'] if n not in exp['dst']]
        what = 'order' if not missing and not extra else \
            'missing=%s,extra=%s' % (_kinds(missing), _kinds(extra))
        out.append(('dst_branches', 'dst_branches:%s:dst=%s%s' % (
            what, dkind, soft), exp['dst'], got['dst']))

    gi = got['ignored']
    req, opt = set(exp['ignored_req']), set(exp['ignored_opt'])
    missing = sorted(req - set(gi))
    extra = sorted(set(gi) - req - opt)
    if missing or extra or len(set(gi)) != len(gi):
        out.append(('ignored', 'ignored:missing=%s,extra=%s%s:dst=%s%s' % (
            _kinds(missing), _kinds(extra),
            ',dup' if len(set(gi)) != len(gi) else '', dkind, soft),
            {'required': exp['ignored_req'], 'optional': exp['ignored_opt']},
            gi))
    elif gi != sorted(gi):
        out.append(('ignored', 'ignored:unsorted:dst=%s%s' % (dkind, soft),
                    sorted(gi), gi))

    fix, gt = exp['fix'], got['targets']
    list_ok = len(fix) == len(gt) and \
        all(g in alts for (_l, alts), g in zip(fix, gt))
    if not list_ok:
        union = set(a for _l, alts in fix for a in alts)
        set_ok = all(g in union for g in gt) and \
            all(any(a in gt for a in alts) for _l, alts in fix)
        if len(fix) != len(gt):
            detail = 'length:want%d,got%d' % (len(fix), len(gt))
        else:
            parts = []
            for (label, alts), g in zip(fix, gt):
                if g not in alts:
                    d = _delta(g, alts[0])
                    same_as_stab = ('stabilization/' + g) in branches
                    parts.append('%s:got%s%s' % (
                        label, d, '=version held by the stab'
                        if same_as_stab else ''))
            detail = parts[0]       # first mismatching position only
        out.append(('target_versions', 'target_versions:%s:%s:dst=%s%s' % (
            detail, 'set-ok' if set_ok else 'set-differs', dkind, soft),
            {'fix_versions': [alts if len(alts) > 1 else alts[0]
                              for _l, alts in fix],
             'lines': [l for l, _a in fix], 'oracle': verdict}, gt))
    return out


def _outcome_key(got):
    if got['raised'] is not None:
        return ('raise', got['raised'], got['stage'])
    return ('ok', tuple(got['dst']), tuple(got['ignored']),
            tuple(got['targets']))


# ---------------------------------------------------------------------------
# universes
# ---------------------------------------------------------------------------

DEV_ALL = ['development/%d%s' % (x, '' if y is None else '.%d' % y)
           for x in (4, 5, 10) for y in (0, 1, None)]

BLOCKS = {
    # name: (branch universe, tag universe, orders)
    # orders: int k -> sorted order, reversed order, then k-2 seeded shuffles
    #         'all' -> every permutation of the branches x every permutation
    #                  of the tags
    'quick': {
        'A': (['development/4.0', 'development/4.1', 'development/4',
               'development/5.0', 'stabilization/4.0.1',
               'stabilization/4.0.2', 'stabilization/4.1.1',
               'hotfix/4.0.0', 'hotfix/4.0.1'],
              ['4.0.0', 'v4.0.1', '4.0.2', '4.0.1_rc1', '4.0.0.1',
               '4.1.0', '4.2.0', '5.0.0'], 2),
        'B': (DEV_ALL + ['stabilization/4.1.1', 'stabilization/10.0.2',
                         'hotfix/5.1.0'],
              ['4.1.0', 'v10.0.0', '10.0.1.1', '5.2.0'], 2),
        'C': (['development/4.0', 'development/4', 'development/10.0',
               'stabilization/4.0.1', 'stabilization/10.0.1',
               'hotfix/4.0.0'],
              ['4.0.0', 'v4.0.0.1', '10.0.0'], 'all'),
    },
    'thorough': {
        'A': (['development/4.0', 'development/4.1', 'development/4',
               'development/5.0', 'development/5', 'stabilization/4.0.1',
               'stabilization/4.0.2', 'stabilization/4.1.1',
               'stabilization/5.0.1', 'hotfix/4.0.0', 'hotfix/4.0.1'],
              ['4.0.0', 'v4.0.1', '4.0.2', '4.0.1_rc1', '4.0.0.1',
               '4.0.1.1', '4.1.0', '4.2.0', '5.0.0', 'v5.0.1_rc1'], 3),
        'B': (DEV_ALL + ['stabilization/4.1.1', 'stabilization/5.0.1',
                         'stabilization/10.0.1', 'stabilization/10.0.2',
                         'hotfix/5.1.0'],
              ['4.1.0', 'v5.0.0', '10.0.0', '10.0.1.1', '5.2.0',
               '5.0.1_rc1'], 2),
        'C': (['development/4.0', 'development/4', 'development/10.0',
               'stabilization/4.0.1', 'stabilization/4.0.2',
               'stabilization/10.0.1', 'hotfix/4.0.0'],
              ['4.0.0', 'v4.0.0.1', 'v4.0.1', '10.0.0'], 'all'),
    },
}
RANDOM_GROUPS = {'quick': 20000, 'thorough': 400000}
RANDOM_ORDERS = {'quick': 2, 'thorough': 3}
CHUNK = {'A': 1024, 'B': 512, 'C': 4, 'R': 500}

LINES = [(x, y) for x in (4, 5, 10) for y in (0, 1)]
TAG_LINES = [(x, y) for x in (4, 5, 10) for y in (0, 1, 2)]
TAG_FORMS = ['%s', 'v%s', '%s_rc1', 'v%s_rc1', '%s-beta', '%s.0', '%s.1',
             '%s.2', 'v%s.1']


def random_group(rng):
    """One (branch set, tag set) of the full universe: 9 development
    branches, stabilization/x.y.{1,2} and hotfix/x.y.{0,1} for the 6 lines
    x.y, tags x.y.z (y in 0..2, z in 0..2) in 9 spellings.  The draw is
    biased towards cascades the statement accepts (a stabilization mostly
    sits on a line that has its development branch, at the next unreleased
    patch), with a minority of every ill-formed kind."""
    upto = {line: (-1 if rng.random() < 0.3 else rng.choice((0, 0, 1, 1, 2)))
            for line in TAG_LINES}
    tags = []
    for (x, y) in TAG_LINES:
        for z in range(3):
            v = '%d.%d.%d' % (x, y, z)
            if z <= upto[(x, y)] and rng.random() < 0.8:
                tags.append(rng.choice(('%s', '%s', 'v%s')) % v)
            if rng.random() < 0.10:
                tags.append(rng.choice(TAG_FORMS[2:5]) % v)
            if rng.random() < (0.15 if z <= upto[(x, y)] else 0.02):
                tags.append(rng.choice(TAG_FORMS[5:]) % v)
    while True:
        branches = [d for d in DEV_ALL if rng.random() < 0.6]
        for (x, y) in LINES:
            has_dev = 'development/%d.%d' % (x, y) in branches
            if rng.random() < (0.45 if has_dev else 0.04):
                fit = upto[(x, y)] + 1
                if rng.random() < 0.04:
                    micros = [1, 2]
                elif fit in (1, 2) and rng.random() < 0.75:
                    micros = [fit]
                else:
                    micros = [rng.choice((1, 2))]
                branches += ['stabilization/%d.%d.%d' % (x, y, z)
                             for z in micros]
            branches += ['hotfix/%d.%d.%d' % (x, y, z) for z in (0, 1)
                         if rng.random() < 0.12]
        if branches:
            break
    return sorted(branches), sorted(set(tags))


# ---------------------------------------------------------------------------
# enumeration
# ---------------------------------------------------------------------------


def _orders(branches, tags, spec, rng):
    if spec == 'all':
        for pb in itertools.permutations(branches):
            for pt in itertools.permutations(tags):
                yield list(pb), list(pt)
        return
    yield list(branches), list(tags)
    if spec >= 2:
        yield list(reversed(branches)), list(reversed(tags))
    for _ in range(max(0, spec - 2)):
        pb, pt = list(branches), list(tags)
        rng.shuffle(pb)
        rng.shuffle(pt)
        yield pb, pt


class _Stats:
    def __init__(self):
        self.cases = 0
        self.triples = 0
        self.nontrivial = 0
        self.verdicts = Counter()
        self.soft = Counter()
        self.hard = Counter()
        self.either_outcomes = Counter()
        self.alt_choice = Counter()
        self.outcomes = Counter()
        self.sigs = Counter()
        self.examples = {}      # signature -> [(size, failure dict)]
        self.samples = []

    def add_failure(self, case, clause, sig, expected, got):
        self.sigs[sig] += 1
        size = (len(case['branches']) + len(case['tags']),
                len(json.dumps(case)))
        lst = self.examples.setdefault(sig, [])
        if len(lst) < 3 or size < lst[-1][0]:
            lst.append((size, {'case': case, 'clause': clause,
                               'signature': sig, 'expected': expected,
                               'got': got}))
            lst.sort(key=lambda e: e[0])
            del lst[3:]

    def merge(self, other):
        self.cases += other.cases
        self.triples += other.triples
        self.nontrivial += other.nontrivial
        self.verdicts.update(other.verdicts)
        self.soft.update(other.soft)
        self.hard.update(other.hard)
        self.either_outcomes.update(other.either_outcomes)
        self.alt_choice.update(other.alt_choice)
        self.outcomes.update(other.outcomes)
        self.sigs.update(other.sigs)
        for sig, lst in other.examples.items():
            mine = self.examples.setdefault(sig, [])
            mine.extend(lst)
            mine.sort(key=lambda e: e[0])
            del mine[3:]
        self.samples.extend(other.samples)
        del self.samples[40:]


def check_group(stats, branches, tags, order_spec, rng, block):
    """All destinations x all requested orders for one (branches, tags)."""
    for dst in branches:
        exp = oracle(branches, tags, dst)
        stats.triples += 1
        stats.verdicts[exp['verdict']] += 1
        for w in exp['why']:
            (stats.hard if exp['verdict'] == 'reject' else stats.soft)[w] += 1
        if exp['verdict'] != 'reject':
            stats.nontrivial += 1
        first = None
        for pb, pt in _orders(branches, tags, order_spec, rng):
            got = run_real(pb, pt, dst)
            stats.cases += 1
            case = {'branches': pb, 'tags': pt, 'dst': dst}
            key = _outcome_key(got)
            stats.outcomes[(block, key[0] if key[0] == 'ok'
                            else '%s@%s' % key[1:])] += 1
            fails = compare(exp, got, branches, dst)
            for clause, sig, e, g in fails:
                stats.add_failure(case, clause, sig, e, g)
            if exp['verdict'] == 'either':
                for w in exp['why']:
                    stats.either_outcomes['%s -> %s' % (
                        w, got['raised'] or 'accepted')] += 1
            if exp['verdict'] != 'reject' and got['raised'] is None and \
                    len(exp['fix']) == len(got['targets']):
                for (label, alts), g in zip(exp['fix'], got['targets']):
                    if len(alts) > 1:
                        stats.alt_choice['%s -> %s' % (
                            label, 'alternative %d of %s' % (
                                alts.index(g) + 1, alts)
                            if g in alts else 'neither')] += 1
            if first is None:
                first = (case, key, got)
                if not fails and got['raised'] is None and \
                        len(stats.samples) < 6 and \
                        (len(got['dst']) >= 3 or dst.startswith('hotfix')) \
                        and len(tags) >= 2 and rng.random() < 0.02:
                    stats.samples.append({'case': case, 'result': got})
            elif key != first[1]:
                c2 = dict(first[0])
                c2['alt'] = {'branches': pb, 'tags': pt}
                stats.add_failure(
                    c2, 'order_independence',
                    'order_independence:%s-vs-%s' % (first[1][0], key[0]),
                    first[2], got)


def _subset(universe, mask):
    return [u for i, u in enumerate(universe) if mask >> i & 1]


def _work(task):
    tier, block, start, stop, seed = task
    stats = _Stats()
    if block == 'R':
        for i in range(start, stop):
            rng = random.Random(seed * 1000003 + i)
            branches, tags = random_group(rng)
            check_group(stats, branches, tags, RANDOM_ORDERS[tier] + 0, rng,
                        block)
        return stats
    ub, ut, spec = BLOCKS[tier][block]
    nt = 1 << len(ut)
    for idx in range(start, stop):
        bmask, tmask = divmod(idx, nt)
        if not bmask:
            continue
        rng = random.Random(seed * 1000003 + idx)
        check_group(stats, sorted(_subset(ub, bmask)),
                    sorted(_subset(ut, tmask)), spec, rng, block)
    return stats


def _tasks(tier, seed):
    tasks = []
    for block, (ub, ut, _spec) in BLOCKS[tier].items():
        total = (1 << len(ub)) * (1 << len(ut))
        step = CHUNK[block]
        tasks += [(tier, block, s, min(total, s + step), seed)
                  for s in range(0, total, step)]
    step = CHUNK['R']
    n = RANDOM_GROUPS[tier]
    tasks += [(tier, 'R', s, min(n, s + step), seed)
              for s in range(0, n, step)]
    # heavy 'all orders' tasks first (largest masks are the heaviest)
    tasks.sort(key=lambda t: (t[1] != 'C', -t[2] if t[1] == 'C' else 0))
    return tasks


def _scope(tier):
    parts = []
    for block, (ub, ut, spec) in BLOCKS[tier].items():
        parts.append(
            "block %s: EVERY non-empty subset of the %d branches {%s} x EVERY "
            "subset of the %d tags {%s} x EVERY branch of the subset as "
            "destination x %s" % (
                block, len(ub), ', '.join(ub), len(ut), ', '.join(ut),
                'EVERY permutation of the branch discovery order x EVERY '
                'permutation of the tag order' if spec == 'all' else
                '%d discovery orders (name-sorted, reversed%s) applied to '
                'branches and tags' % (spec, ', %d seeded shuffles' % (
                    spec - 2) if spec > 2 else '')))
    parts.append(
        "block R (sample, not exhaustive): %d seed-driven random (branch set, "
        "tag set) groups of the full universe [development/{4,5,10}{.0,.1,}, "
        "stabilization/x.y.{1,2} (none/one/two per line) and hotfix/x.y.{0,1} "
        "for x in {4,5,10}, y in {0,1}; tags x.y.z with y in {0,1,2}, z in "
        "{0,1,2} spelled x.y.z, vx.y.z, x.y.z_rc1, vx.y.z_rc1, x.y.z-beta, "
        "x.y.z.0, x.y.z.1, x.y.z.2, vx.y.z.1] x every branch of the set as "
        "destination x %d discovery orders (sorted, reversed%s)" % (
            RANDOM_GROUPS[tier], RANDOM_ORDERS[tier],
            ', shuffled' if RANDOM_ORDERS[tier] > 2 else ''))
    parts.append(
        "each case = real add_branch*/update_versions*/_update_major_versions/"
        "finalize/validate with includes_commit stubbed true, compared with "
        "the statement oracle")
    return '; '.join(parts)


def run(tier: str = 'quick', seed: int = 0, jobs: int = 16) -> dict:
    t0 = time.time()
    if tier not in BLOCKS:
        raise ValueError('tier must be quick or thorough')
    tasks = _tasks(tier, seed)
    total = _Stats()
    if jobs and jobs > 1:
        ctx = mp.get_context('fork')
        with ctx.Pool(jobs) as pool:
            for st in pool.imap_unordered(_work, tasks, chunksize=1):
                total.merge(st)
    else:
        for task in tasks:
            total.merge(_work(task))

    failures = []
    ranked = sorted(total.sigs.items(), key=lambda kv: (-kv[1], kv[0]))
    for rank in range(3):
        for sig, _n in ranked:
            ex = total.examples.get(sig, [])
            if rank < len(ex) and len(failures) < 50:
                failures.append(ex[rank][1])
    failures.sort(key=lambda f: (-total.sigs[f['signature']], f['signature']))

    per_block = {}
    for (block, what), n in total.outcomes.items():
        per_block.setdefault(block, Counter())[what] += n
    notes = list(NOTES_STATIC)
    notes.append('oracle verdicts over distinct triples: %s; reject-reasons: '
                 '%s; either-reasons: %s' % (
                     dict(total.verdicts), dict(total.hard),
                     dict(total.soft)))
    notes.append('what the real code did on either-rejection cases (per '
                 'execution): %s' % dict(sorted(
                     total.either_outcomes.items())))
    ac = Counter()
    for k, n in total.alt_choice.items():
        ac[re.sub(r'\d+\.\d+\.\d+(\.\d+)?', 'V', k)] += n
    notes.append('which either-alternative the real code produced (versions '
                 'abstracted to V, per execution): %s' % dict(sorted(
                     ac.items())))
    for block in sorted(per_block):
        notes.append('block %s real-code outcomes (per execution): %s' % (
            block, dict(sorted(per_block[block].items()))))
    notes.append('distinct (branch set, tag set, destination) triples: %d'
                 % total.triples)

    samples = total.samples[:]
    random.Random(seed).shuffle(samples)
    picked, seen = [], set()
    for s in samples:
        k = s['case']['dst'].split('/')[0]
        if k not in seen or len(picked) < 3:
            seen.add(k)
            picked.append(s)
        if len(picked) == 5:
            break

    return {
        'name': NAME,
        'scope': _scope(tier),
        'cases': total.cases,
        'distinct_nontrivial': total.nontrivial,
        'rule': RULE,
        'notes': notes,
        'n_failures': sum(total.sigs.values()),
        'failures': failures,
        'failure_signatures': dict(ranked),
        'samples': picked,
        'exhaustive': True,
        'wall_s': round(time.time() - t0, 2),
    }


def replay(case: dict) -> dict:
    """Re-run one recorded case {'branches': [...discovery order],
    'tags': [...tag order], 'dst': name, optional 'alt': {'branches', 'tags'}
    (a second discovery order to compare with)}."""
    branches, tags, dst = case['branches'], case['tags'], case['dst']
    exp = oracle(sorted(branches), sorted(tags), dst)
    got = run_real(branches, tags, dst)
    fails = compare(exp, got, branches, dst)
    if 'alt' in case:
        got2 = run_real(case['alt']['branches'], case['alt']['tags'], dst)
        if _outcome_key(got2) != _outcome_key(got):
            fails.append(('order_independence', 'order_independence',
                          got, got2))
        fails += compare(exp, got2, branches, dst)
    if not fails:
        shown = dict(exp)
        return {'ok': True, 'clause': None, 'expected': shown, 'got': got}
    clause, sig, e, g = fails[0]
    return {'ok': False, 'clause': clause, 'signature': sig, 'expected': e,
            'got': g, 'all_failed_clauses': [f[0] for f in fails]}


if __name__ == '__main__':
    _tier = sys.argv[1] if len(sys.argv) > 1 else 'quick'
    _seed = int(sys.argv[2]) if len(sys.argv) > 2 else 0
    _jobs = int(sys.argv[3]) if len(sys.argv) > 3 else 16
    print(json.dumps(run(_tier, _seed, _jobs), indent=1, default=str))
