"""Bounded stand-in (NOT a proof): settings.PrAuthorsOptions.deserialize, the per-author bypass map
read by job.author_bypass (C04, C06, C07, C11 consume it as an input).

Oracle (from the settings documentation): for every listed author and every known bypass name,
result[author][name] is True iff that author's own list contains the name; unknown names are refused.
Scope: every ordered pair of authors with every pair of subsets of the 7 bypass names (2 * 128 * 128
cases), every single author, a seeded sample of 3-author files; unknown names at each position.
"""
import itertools
import random
import time


def _call(field, data):
    return field.deserialize(data)


def run(tier='quick', seed=0, jobs=1):
    from bert_e import settings as S
    t0 = time.time()
    names = list(S.PrAuthorsOptions.BYPASS_LIST)
    field = S.PrAuthorsOptions(keys=S.fields.Str(), values=S.fields.List(S.fields.Str()))
    subsets = [[n for i, n in enumerate(names) if m >> i & 1] for m in range(1 << len(names))]
    cases = 0
    failures = []

    def check(data):
        nonlocal cases
        cases += 1
        try:
            res = _call(field, data)
        except Exception as e:  # noqa
            failures.append({'clause': 'crash', 'signature': 'crash:%s' % type(e).__name__, 'case': data,
                             'detail': repr(e)})
            return
        for user, lst in data.items():
            for n in names:
                if res.get(user, {}).get(n) is not (n in lst):
                    failures.append({'clause': 'map', 'signature': 'author_bypass_differs_from_own_list',
                                     'case': data, 'detail': '%s: %s -> %r' % (user, n, res.get(user, {}).get(n))})
                    return
        if set(res) != set(data):
            failures.append({'clause': 'authors', 'signature': 'author_set_differs', 'case': data,
                             'detail': sorted(res)})
    for a in subsets:
        check({'alice': a})
    for a in subsets:
        for b in subsets:
            check({'alice': a, 'bob': b})
            if len(failures) > 20:
                break
    rnd = random.Random(seed)
    for _ in range(2000 if tier == 'quick' else 50000):
        check({'u%d' % i: rnd.choice(subsets) for i in range(3)})
    # unknown names are refused
    refused = 0
    for a in subsets[:16]:
        for pos in range(len(a) + 1):
            lst = a[:pos] + ['bypass_everything'] + a[pos:]
            cases += 1
            try:
                _call(field, {'alice': lst})
                failures.append({'clause': 'unknown', 'signature': 'unknown_bypass_accepted', 'case': {'alice': lst},
                                 'detail': 'accepted'})
            except S.IncorrectSettingsFile:
                refused += 1
    sigs = sorted({f['signature'] for f in failures})
    return {'name': 'bounded/author_options.py', 'scope': __doc__.split('Scope:')[1].strip(), 'cases': cases,
            'distinct_nontrivial': cases, 'n_failures': len(failures), 'failure_signatures': sigs,
            'failures': failures[:5], 'wall_s': round(time.time() - t0, 2)}


def replay(case):
    from bert_e import settings as S
    field = S.PrAuthorsOptions(keys=S.fields.Str(), values=S.fields.List(S.fields.Str()))
    res = _call(field, case)
    ok = all(res[u][n] is (n in lst) for u, lst in case.items() for n in S.PrAuthorsOptions.BYPASS_LIST)
    return {'ok': ok, 'result': res}


def integrate(rep):
    """shared by the specs that consume job.author_bypass"""
    from pyvc.cli import write_replay
    res = run()
    rep.bounded.append({k: res.get(k) for k in ('name', 'scope', 'cases', 'distinct_nontrivial', 'n_failures',
                                                'failure_signatures', 'wall_s')})
    seen = set()
    for f in res['failures']:
        k = 'bounded:author_options:%s' % f['signature']
        if k in seen:
            continue
        seen.add(k)
        path = write_replay(rep.pid, k, f)
        rep.violations.append({'key': k, 'what': 'per-author bypass map: %s' % f['clause'], 'replay': path,
                               'input': f['case'], 'noinput': False})


if __name__ == '__main__':
    import json
    print(json.dumps(run(), indent=1, default=str)[:3000])
