"""Bounded stand-in (NOT a proof) for C13 "no accepted event is lost" at the webhook layer: every HANDLED
webhook event (right credentials, right repository) on the real Flask app is followed by a job in the task
queue - whatever the dispatcher is doing at that moment: idle, running an EQUAL job, running another job.
(An equal job that is merely *waiting* in the queue may absorb the event: that is put_job's contract.)
Scope: every handled event kind of /bitbucket and /github known to bounded/c14_http.py x 3 dispatcher
states.  Reuses the request builders and the offline Bert-E of bounded/c14_http.py."""
import time


def run(tier='quick', seed=0, jobs=1):
    from bounded import c14_http as H
    t0 = time.time()
    cx = H.ctx()
    failures, cases = [], 0
    for host, route in (('bitbucket', '/bitbucket'), ('github', '/github')):
        hst = cx.hosts[host]
        for label, spec in sorted(H._webhook_events(route).items()):
            if not isinstance(spec['expect'], tuple):
                continue
            case = {'kind': 'webhook', 'host': host, 'route': route, 'method': 'POST', 'cred': 'right',
                    'identity': 'match', 'event': label}
            hst.berte.status.pop('current job', None)
            first = H.execute(case)
            if first['n_jobs'] != 1:
                continue        # not a handled event in this configuration (judged by C14)
            # an equal job object, as the dispatcher would hold it while evaluating
            headers, payload, setup = H._webhook_request(case)
            # the same event delivered again while the build-status cache still holds what the first delivery put
            # there (e.g. SUCCESSFUL): it must be enqueued again
            from bert_e.git_host import cache as _cache
            cases += 1
            snapshot = {k: v for k, v in _cache.BUILD_STATUS_CACHE.items()}
            real_reset = cx.reset

            def soft_reset(h, real_reset=real_reset, snapshot=snapshot):
                real_reset(h)
                _cache.BUILD_STATUS_CACHE.update(snapshot)     # what the first delivery cached stays cached
            cx.reset = soft_reset
            try:
                again = H.execute(case)
            finally:
                cx.reset = real_reset
                _cache.BUILD_STATUS_CACHE.clear()
            if again['status'] // 100 == 2 and again['n_jobs'] != 1:
                failures.append({'clause': 'accepted_event_enqueued', 'signature': 'accepted_but_not_enqueued:%s:%s' % (route, 'status_already_cached'),
                                 'case': dict(case, dispatcher='status_already_cached'), 'detail': {'status': again['status'], 'n_jobs': again['n_jobs']}})
            for state in ('idle', 'running_equal', 'running_other'):
                cases += 1
                hst.berte.status.pop('current job', None)
                if state != 'idle':
                    # replay the event to obtain a real job object, then make it the running one
                    client = hst.app.test_client()
                    if setup is not None and isinstance(hst.berte.client, H._StubGithubClient):
                        setup(hst.berte.client)
                    import json as _json
                    client.open(route, method='POST', data=_json.dumps(payload), headers=headers)
                    got = cx.drain(host)
                    if not got:
                        continue
                    running = got[0]
                    if state == 'running_other':
                        from bert_e.job import CommitJob
                        running = CommitJob(bert_e=hst.berte, commit='f' * 40)
                    hst.berte.status['current job'] = running
                obs = H.execute(case)
                hst.berte.status.pop('current job', None)
                if obs['status'] // 100 == 2 and obs['n_jobs'] != 1:
                    failures.append({'clause': 'accepted_event_enqueued', 'signature': 'accepted_but_not_enqueued:%s:%s' % (route, state),
                                     'case': dict(case, dispatcher=state), 'detail': {'status': obs['status'], 'n_jobs': obs['n_jobs']}})
    sigs = {}
    for f in failures:
        sigs[f['signature']] = sigs.get(f['signature'], 0) + 1
    return {'name': 'bounded/c13_webhook.py', 'scope': __doc__.split('Scope:')[1].strip(), 'cases': cases,
            'distinct_nontrivial': cases, 'n_failures': len(failures), 'failure_signatures': sigs,
            'failures': failures[:6], 'wall_s': round(time.time() - t0, 2)}


def replay(case):
    res = run()
    hit = [f for f in res['failures'] if f['case'].get('event') == case.get('event') and f['case'].get('route') == case.get('route')]
    return {'ok': not hit, 'failures': hit[:2]}


if __name__ == '__main__':
    import json
    print(json.dumps(run(), indent=1, default=str)[:2500])
