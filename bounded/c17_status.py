#!/verif/.venv/bin/python
"""Bounded exhaustive native check of property C17 (build status derived from
GitHub workflow runs + sticky SUCCESSFUL status cache) on the REAL bert-e code.

Part A 'aggregation': every (ordered) list of workflow runs of the stated
attribute space is given to the real ``AggregatedWorkflowRuns`` and ``.state``
is compared with an oracle written from the statement.

Part B 'cache': every sequence of webhook status events / host polls / host
changes over 2 commits x 2 build keys is run against the real webhook handlers
and the real ``Repository.get_build_status`` (github and bitbucket) talking to
a scripted fake host mounted as a ``requests`` transport adapter (so the real
Client / Session / schema code runs).  The oracle keeps its own "seen
SUCCESSFUL" set and its own LRU recency model.

Usage:  /verif/.venv/bin/python bounded/c17_status.py [quick|thorough] [seed]
"""
import sys
sys.dont_write_bytecode = True      # never create __pycache__ under /repo
sys.path.insert(0, '/repo')

import warnings
warnings.filterwarnings('ignore')

import itertools
import json
import logging
import multiprocessing as mp
import random
import time
from types import SimpleNamespace

logging.disable(logging.CRITICAL)

import requests
from requests.adapters import BaseAdapter

from bert_e.git_host import bitbucket as bb_host
from bert_e.git_host import github as gh_host
from bert_e.git_host.cache import BUILD_STATUS_CACHE
from bert_e.git_host.github import AggregatedWorkflowRuns
from bert_e.git_host.github import schema as gh_schema
from bert_e.lib.schema import load as load_schema
from bert_e.server import webhook

logging.disable(logging.CRITICAL)

NAME = 'c17_status'
REPO_JSON = {'full_name': 'octo-org/Hello-World',
             'owner': {'login': 'octo-org', 'id': 1},
             'name': 'Hello-World'}

# ==========================================================================
# Part A: aggregation of workflow runs
# ==========================================================================
EVENTS = ('push', 'pull_request', 'workflow_dispatch')
STATUSES = ('completed', 'in_progress', 'queued', 'pending')
CONCLUSIONS = ('success', 'failure', 'cancelled', None)
BRANCHES = ('q/1', 'w/1/bugfix/x')
PAIRS5 = (('completed', 'success'), ('completed', 'failure'),
          ('completed', 'cancelled'), ('in_progress', None), ('queued', None))
PAIRS3 = (('completed', 'success'), ('completed', 'failure'),
          ('in_progress', None))

A_CLAUSES = ('successful_only_if_some_branch_all_success',
             'never_successful_without_runs')


def _space(events, stat_conc, wfs):
    """List of run attribute tuples (event, status, conclusion, wf, branch)."""
    return [(e, s, c, w, b) for e in events for (s, c) in stat_conc
            for w in wfs for b in BRANCHES]


def _all_pairs(statuses):
    return [(s, c) for s in statuses for c in CONCLUSIONS]


SPACES = {
    # the stated universe: 3 events x 4 statuses x 4 conclusions x 2 wf x 2 br
    'full2': _space(EVENTS, _all_pairs(STATUSES), (1, 2)),
    'full3': _space(EVENTS, _all_pairs(STATUSES), (1, 2, 3)),
    # reduced spaces (every conclusion, every workflow id, both branches,
    # a dispatch and a non dispatch event are always present)
    'red128_2': _space(('push', 'workflow_dispatch'), _all_pairs(STATUSES),
                       (1, 2)),
    'red96_2': _space(('push', 'workflow_dispatch'),
                      _all_pairs(('completed', 'in_progress', 'queued')),
                      (1, 2)),
    'pairs40_2': _space(('push', 'workflow_dispatch'), PAIRS5, (1, 2)),
    'pairs60_3': _space(('push', 'workflow_dispatch'), PAIRS5, (1, 2, 3)),
    'pairs24_3': _space(('push', 'workflow_dispatch'), PAIRS3[:2], (1, 2, 3)),
}
SPACE_DESC = {
    'full2': 'event{push,pull_request,workflow_dispatch} x status{completed,'
             'in_progress,queued,pending} x conclusion{success,failure,'
             'cancelled,none} x workflow_id{1,2} x 2 head branches (192/run)',
    'full3': 'as full2 with workflow_id{1,2,3} (288/run)',
    'red128_2': 'event{push,workflow_dispatch} x 4 statuses x 4 conclusions '
                'x workflow_id{1,2} x 2 branches (128/run)',
    'red96_2': 'event{push,workflow_dispatch} x status{completed,in_progress,'
               'queued} x 4 conclusions x workflow_id{1,2} x 2 branches '
               '(96/run)',
    'pairs40_2': 'event{push,workflow_dispatch} x (status,conclusion) in '
                 '{completed/success,completed/failure,completed/cancelled,'
                 'in_progress/none,queued/none} x workflow_id{1,2} x 2 '
                 'branches (40/run)',
    'pairs60_3': 'as pairs40_2 with workflow_id{1,2,3} (60/run)',
    'pairs24_3': 'event{push,workflow_dispatch} x {completed/success,'
                 'completed/failure} x workflow_id{1,2,3} x 2 branches '
                 '(24/run)',
}


def _raw_run(attrs, pos, sha='d6fde92930d4715a2b49857d24b940956b26d2d3'):
    """JSON of one workflow run as the GitHub API would send it."""
    event, status, conclusion, wf, branch = attrs
    return {'id': pos + 1, 'head_sha': sha, 'head_branch': branch,
            'status': status, 'event': event, 'workflow_id': wf,
            'check_suite_id': pos + 1, 'conclusion': conclusion,
            'pull_requests': [{'number': 1}],
            'repository': REPO_JSON}


_LOADED = {}


class _Run(dict):
    """A dict whose repr is short: the real code formats the whole list of
    runs in (disabled) LOG.info f-strings, which costs more than the logic
    under test.  Only item access is used by the code under test."""
    __slots__ = ()

    def __repr__(self):
        return '<run>'


def _loaded_run(attrs, pos):
    """One run, passed once through the real marshmallow schema (what
    AggregatedWorkflowRuns.load does element-wise), then shared."""
    key = (attrs, pos)
    run = _LOADED.get(key)
    if run is None:
        run = _Run(load_schema(gh_schema.WorkflowRun, _raw_run(attrs, pos)))
        _LOADED[key] = run
    return run


def real_state_fast(runs):
    objs = [_loaded_run(a, i) for i, a in enumerate(runs)]
    agg = AggregatedWorkflowRuns(None, _validate=False,
                                 total_count=len(objs), workflow_runs=objs)
    return agg.state


def real_state_schema(runs):
    """Same through the full real deserialisation path (slow)."""
    agg = AggregatedWorkflowRuns.load({
        'total_count': len(runs),
        'workflow_runs': [_raw_run(a, i) for i, a in enumerate(runs)]})
    return agg.state


# ---- oracle, from the statement ------------------------------------------
_RANK = {'success': 3, None: 2, 'failure': 1, 'cancelled': 0}


def oracle_aggregation(runs):
    """-> (no_run, allowed_some_tiebreak, allowed_every_tiebreak).

    R' = runs whose event is not workflow_dispatch reduced to the best run of
    each workflow id (success > none > failure > cancelled).  The statement
    does not say which of two equally good runs of a workflow is kept, so
    every choice is considered."""
    considered = [r for r in runs if r[0] != 'workflow_dispatch']
    if not considered:
        return True, False, False
    by_wf = {}
    for r in considered:
        by_wf.setdefault(r[3], []).append(r)
    choices = []
    for rs in by_wf.values():
        top = max(_RANK[r[2]] for r in rs)
        choices.append([r for r in rs if _RANK[r[2]] == top])
    some = False
    every = True
    for kept in itertools.product(*choices):
        ok = False
        for branch in set(r[4] for r in kept):
            on_branch = [r for r in kept if r[4] == branch]
            if on_branch and all(r[2] == 'success' for r in on_branch):
                ok = True
                break
        some = some or ok
        every = every and ok
    return False, some, every


def oracle_per_branch_reading(runs):
    """Stricter reading, information only: the best run of each workflow is
    taken PER BRANCH (what the comment in the code says: 'when two of the
    same workflow ran on the same branch we only keep the best one');
    SUCCESSFUL allowed iff on some branch every workflow that ran there has a
    successful best run."""
    considered = [r for r in runs if r[0] != 'workflow_dispatch']
    for branch in set(r[4] for r in considered):
        best = {}
        for r in considered:
            if r[4] == branch:
                best[r[3]] = max(best.get(r[3], -1), _RANK[r[2]])
        if best and all(v == _RANK['success'] for v in best.values()):
            return True
    return False


def _a_signature(runs, clause, prefix):
    """Structural signature: the non dispatch runs that are (tied) best of
    their workflow, in list order, workflow ids and branches renamed by first
    appearance, conclusion S(uccess) or x (anything else)."""
    considered = [r for r in runs if r[0] != 'workflow_dispatch']
    best = {}
    for r in considered:
        best[r[3]] = max(best.get(r[3], -1), _RANK[r[2]])
    kept = [r for r in considered if _RANK[r[2]] == best[r[3]]]
    wfn, brn, out = {}, {}, []
    for r in kept:
        w = wfn.setdefault(r[3], 'w%d' % (len(wfn) + 1))
        b = brn.setdefault(r[4], 'abc'[len(brn)])
        out.append('%s@%s:%s' % (w, b, 'S' if r[2] == 'success' else 'x'))
    return '%s%s|kept=[%s]' % (prefix, clause, ' '.join(out))


def _a_case(runs):
    return {'part': 'aggregation', 'runs': [
        {'event': r[0], 'status': r[1], 'conclusion': r[2],
         'workflow_id': r[3], 'head_branch': r[4]} for r in runs]}


def _a_runs_of(case):
    return [(r['event'], r['status'], r['conclusion'], r['workflow_id'],
             r['head_branch']) for r in case['runs']]


def check_aggregation(runs, state_fn=real_state_fast):
    """-> (got, failure or None, info or None)."""
    try:
        got = state_fn(runs)
    except Exception as err:                       # pragma: no cover
        got = 'EXC:%r' % (err,)
    no_run, some, every = oracle_aggregation(runs)
    failure = None
    info = None
    if got == 'SUCCESSFUL':
        if no_run:
            failure = ('never_successful_without_runs', 'not SUCCESSFUL')
        elif not some:
            failure = ('successful_only_if_some_branch_all_success',
                       'not SUCCESSFUL (no head branch whose kept runs are '
                       'all success)')
        elif not oracle_per_branch_reading(runs):
            info = ('SUCCESSFUL_but_forbidden_under_stricter_reading_'
                    'best_run_per_workflow_PER_BRANCH')
    elif got.startswith('EXC:'):
        failure = ('successful_only_if_some_branch_all_success',
                   'a state, not an exception')
    elif every:
        # allowed to be SUCCESSFUL, code says otherwise: information only
        considered = [r for r in runs if r[0] != 'workflow_dispatch']
        if any(r[2] == 'success' and r[1] != 'completed'
               for r in considered):
            info = 'allowed_but_%s:success_conclusion_on_non_completed_run' \
                % got
        else:
            info = 'allowed_but_%s:other' % got
    elif some:
        info = 'allowed_under_some_tiebreak_only_but_%s' % got
    return got, failure, info, no_run


class _Acc:
    """Accumulator of one task (small, picklable result)."""

    def __init__(self):
        self.cases = 0
        self.nontrivial = 0
        self.sigs = {}       # sig -> [count, size, failure dict]
        self.infos = {}      # info -> [count, size, example]
        self.clauses = {}    # clause -> [checked, nonvacuous, failed]
        self.a_counts = [0, 0, 0, 0, 0]
        self.sig_sizes = {}
        self.samples = []
        self.extra = {}

    def clause(self, name, nonvacuous, failed):
        c = self.clauses.setdefault(name, [0, 0, 0])
        c[0] += 1
        c[1] += 1 if nonvacuous else 0
        c[2] += 1 if failed else 0

    def fail(self, sig, size, failure):
        cur = self.sigs.get(sig)
        if cur is None:
            self.sigs[sig] = [1, size, failure]
        else:
            cur[0] += 1
            if size < cur[1]:
                cur[1], cur[2] = size, failure

    def info(self, key, size, example):
        cur = self.infos.get(key)
        if cur is None:
            self.infos[key] = [1, size, example]
        else:
            cur[0] += 1
            if size < cur[1]:
                cur[1], cur[2] = size, example

    def result(self):
        a = self.a_counts
        if a[0]:
            self.clauses[A_CLAUSES[0]] = [a[0], a[1], a[2]]
        if a[3]:
            self.clauses[A_CLAUSES[1]] = [a[3], a[3], a[4]]
        return {'cases': self.cases, 'nontrivial': self.nontrivial,
                'sigs': self.sigs, 'infos': self.infos,
                'clauses': self.clauses, 'samples': self.samples,
                'extra': self.extra,
                'sig_sizes': {k: sorted(v)
                              for k, v in self.sig_sizes.items()}}


def _a_record(acc, runs, prefix, state_fn=real_state_fast):
    got, failure, info, no_run = check_aggregation(runs, state_fn)
    acc.cases += 1
    cl = acc.a_counts
    cl[0] += 1                      # implication checked
    if got == 'SUCCESSFUL':
        acc.nontrivial += 1
        cl[1] += 1                  # ... not vacuously
    if no_run:
        cl[3] += 1                  # never_successful_without_runs checked
    if failure is not None:
        clause, expected = failure
        cl[2 if clause == A_CLAUSES[0] else 4] += 1
        sig = _a_signature(runs, clause, prefix)
        acc.fail(sig, len(runs), {
            'case': _a_case(runs), 'clause': clause, 'signature': sig,
            'expected': expected, 'got': got})
    elif info is not None:
        key = prefix + info
        cur = acc.infos.get(key)
        if cur is None:
            acc.infos[key] = [1, len(runs), _a_case(runs)]
        else:
            cur[0] += 1
            if len(runs) < cur[1]:
                cur[1], cur[2] = len(runs), _a_case(runs)
    return got, failure


def _task_a_enum(task):
    """('A', prefix, space_name, k, head) : all lists of length k over the
    space starting with the index tuple ``head``."""
    _, prefix, space_name, k, head = task
    space = SPACES[space_name]
    acc = _Acc()
    head_runs = [space[i] for i in head]
    rest = k - len(head)
    for tail in itertools.product(space, repeat=rest):
        runs = head_runs + list(tail)
        got, failure = _a_record(acc, runs, prefix)
        if failure is None and got == 'SUCCESSFUL' and len(acc.samples) < 1 \
                and acc.cases % 977 == 1:
            acc.samples.append({'case': _a_case(runs), 'got': got,
                                'oracle': 'SUCCESSFUL allowed'})
    return acc.result()


def _task_a_rand(task):
    """('A_rand', prefix, space_name, k, n, seed)"""
    _, prefix, space_name, k, n, seed = task
    space = SPACES[space_name]
    rng = random.Random(seed)
    acc = _Acc()
    m = len(space)
    for _ in range(n):
        runs = [space[rng.randrange(m)] for _ in range(k)]
        _a_record(acc, runs, prefix)
    return acc.result()


def _task_a_schema(task):
    """('A_schema', seed, n): lists of length <= 1 exhaustively and n random
    lists of length 2..4 through the full real schema path; also checks that
    the fast construction used elsewhere gives the same state."""
    _, seed, n = task
    acc = _Acc()
    rng = random.Random(seed)
    mismatch = 0
    lists = [[]] + [[r] for r in SPACES['full3']]
    for _ in range(n):
        k = rng.randrange(2, 5)
        sp = SPACES['full3'] if rng.random() < 0.5 else SPACES['full2']
        lists.append([sp[rng.randrange(len(sp))] for _ in range(k)])
    for runs in lists:
        three = any(r[3] == 3 for r in runs)
        got, _ = _a_record(acc, runs, 'three_workflows:' if three else '',
                           real_state_schema)
        if got != real_state_fast(runs):
            mismatch += 1
    acc.extra['schema_vs_fast_mismatch'] = mismatch
    acc.extra['schema_path_cases'] = len(lists)
    return acc.result()


def _tasks_a(tier, seed):
    tasks = []

    def enum(prefix, space_name, k):
        n = len(SPACES[space_name])
        hl = max(0, k - 2)
        for head in itertools.product(range(n), repeat=hl):
            tasks.append(('A', prefix, space_name, k, head))
        return n ** k

    plan = []   # (universe, k, space, count, kind)
    T = 'three_workflows:'
    for k in (0, 1, 2):
        plan.append(('2wf', k, 'full2', enum('', 'full2', k), 'exhaustive'))
        plan.append(('3wf', k, 'full3', enum(T, 'full3', k), 'exhaustive'))
    if tier == 'thorough':
        plan.append(('2wf', 3, 'full2', enum('', 'full2', 3), 'exhaustive'))
        plan.append(('3wf', 3, 'full3', enum(T, 'full3', 3), 'exhaustive'))
        plan.append(('2wf', 4, 'red96_2', enum('', 'red96_2', 4), 'reduced'))
        plan.append(('3wf', 4, 'pairs60_3', enum(T, 'pairs60_3', 4),
                     'reduced'))
        rand = [('', 'full2', 4, 4000000), (T, 'full3', 4, 4000000)]
    else:
        plan.append(('2wf', 3, 'red128_2', enum('', 'red128_2', 3),
                     'reduced'))
        plan.append(('2wf', 4, 'pairs40_2', enum('', 'pairs40_2', 4),
                     'reduced'))
        plan.append(('3wf', 3, 'pairs60_3', enum(T, 'pairs60_3', 3),
                     'reduced'))
        plan.append(('3wf', 4, 'pairs24_3', enum(T, 'pairs24_3', 4),
                     'reduced'))
        rand = [('', 'full2', 3, 300000), ('', 'full2', 4, 400000),
                (T, 'full3', 3, 150000), (T, 'full3', 4, 150000)]
    for i, (prefix, space_name, k, n) in enumerate(rand):
        chunk = 50000
        for j in range(0, n, chunk):
            tasks.append(('A_rand', prefix, space_name, k, min(chunk, n - j),
                          seed * 1000003 + i * 1009 + j))
        plan.append(('3wf' if prefix else '2wf', k, space_name, n,
                     'random(seed=%d)' % seed))
    tasks.append(('A_schema', seed, 3000 if tier == 'thorough' else 600))
    return tasks, plan


# ==========================================================================
# Part B: status cache vs events / polls
# ==========================================================================
COMMITS = ('1111111111111111111111111111111111111111',
           '2222222222222222222222222222222222222222')
VARIANTS = ('bitbucket', 'github', 'github_actions')
VARIANT_KEYS = {
    'bitbucket': ('pre-merge', 'post-merge'),
    'github': ('pre-merge', 'post-merge'),
    # second key is the one derived from workflow runs
    'github_actions': ('pre-merge', 'github_actions'),
}
FULL = {'S': 'SUCCESSFUL', 'F': 'FAILED', 'I': 'INPROGRESS',
        None: 'NOTSTARTED'}
GH_WORD = {'S': 'success', 'F': 'failure', 'I': 'pending'}
B_CLAUSES = ('green_never_downgraded', 'otherwise_answers_host')


def _ops_for(variant, states):
    ops = []
    for ci in (0, 1):
        for ki in (0, 1):
            if variant == 'github_actions' and ki == 1:
                continue
            for s in states:
                ops.append(('ev', ci, ki, s))
    if variant == 'github_actions':
        for ci in (0, 1):
            ops.append(('cs', ci))
    for ci in (0, 1):
        for ki in (0, 1):
            ops.append(('poll', ci, ki))
    for ci in (0, 1):
        for ki in (0, 1):
            for s in states:
                ops.append(('host', ci, ki, s))
    return ops


# ---- fake host ------------------------------------------------------------
class _HostAdapter(BaseAdapter):
    """requests transport adapter standing for the git host."""

    def __init__(self, world):
        super().__init__()
        self.world = world

    def send(self, request, **kwargs):
        status, body = self.world.serve(request.url)
        resp = requests.Response()
        resp.status_code = status
        resp._content = json.dumps(body).encode()
        resp._content_consumed = True
        resp.headers['Content-Type'] = 'application/json'
        resp.encoding = 'utf-8'
        resp.reason = 'OK' if status == 200 else 'Not Found'
        resp.url = request.url
        resp.request = request
        return resp

    def close(self):
        pass


class World:
    """The real code of one git host flavour + scripted host + real cache."""

    def __init__(self, variant, size):
        self.variant = variant
        self.size = size
        self.keys = VARIANT_KEYS[variant]
        self.cache_keys = tuple(sorted(set(self.keys) | (
            {'github_actions'} if variant != 'bitbucket' else set())))
        self.host = (None, None, None, None)
        self.reads = {}
        adapter = _HostAdapter(self)
        if variant == 'bitbucket':
            self.client = bb_host.Client('login', 'password', 'e@x.org')
            self.client.trust_env = False
            self.client.mount('https://', adapter)
            self.repo = bb_host.Repository(self.client, owner='octo-org',
                                           repo_slug='Hello-World')
        else:
            self.client = gh_host.Client('login', 'password', 'e@x.org',
                                         base_url='http://github.invalid')
            self.client.session.trust_env = False
            self.client.session.mount('http://', adapter)
            self.repo = gh_host.Repository(self.client, **REPO_JSON)
        self.bert_e = SimpleNamespace(client=self.client, settings={},
                                      project_repo=self.repo, git_repo=None)
        # exploration memo
        self.memo = {}
        self.concrete = {}
        self.n_real = 0
        self.reset()
        self.abs0 = self.snapshot()

    # -- host -------------------------------------------------------------
    def _read(self, ci, ki):
        idx = ci * 2 + ki
        val = self.host[idx]
        self.reads[idx] = val
        return val

    def serve(self, url):
        path, _, query = url.partition('?')
        parts = path.split('/')
        if self.variant == 'bitbucket':
            # .../commit/<rev>/statuses/build/<key>
            key, rev = parts[-1], parts[-4]
            ci, ki = COMMITS.index(rev), self.keys.index(key)
            val = self._read(ci, ki)
            if val is None:
                return 404, {'type': 'error'}
            return 200, self._bb_status(ci, ki, val)
        if parts[-1] == 'status':
            ci = COMMITS.index(parts[-2])
            statuses = []
            for ki, key in enumerate(self.keys):
                if key == 'github_actions':
                    continue
                val = self._read(ci, ki)
                if val is not None:
                    statuses.append({
                        'state': GH_WORD[val], 'context': key,
                        'target_url': 'http://ci/%s' % key,
                        'description': 'build'})
            worst = 'pending'
            return 200, {'state': worst, 'sha': COMMITS[ci],
                         'repository': REPO_JSON, 'statuses': statuses,
                         'total_count': len(statuses)}
        if parts[-1] == 'runs':
            sha = query.split('head_sha=')[1].split('&')[0]
            ci = COMMITS.index(sha)
            runs = []
            if self.variant == 'github_actions':
                val = self._read(ci, 1)
                if val is not None:
                    status, conclusion = {
                        'S': ('completed', 'success'),
                        'F': ('completed', 'failure'),
                        'I': ('in_progress', None)}[val]
                    runs.append(_raw_run(
                        ('push', status, conclusion, 1, 'q/1'), 0,
                        sha=COMMITS[ci]))
            return 200, {'total_count': len(runs), 'workflow_runs': runs}
        return 404, {'message': 'Not Found'}                # pragma: no cover

    def _bb_status(self, ci, ki, val):
        return {
            'state': FULL[val], 'key': self.keys[ki],
            'name': self.keys[ki], 'description': 'build',
            'url': 'http://ci/%s' % self.keys[ki],
            'links': {'commit': {'href': (
                'https://api.bitbucket.org/2.0/repositories/octo-org/'
                'Hello-World/commit/%s' % COMMITS[ci])}}}

    # -- real cache -------------------------------------------------------
    def reset(self):
        BUILD_STATUS_CACHE.clear()
        for key in self.cache_keys:
            BUILD_STATUS_CACHE[key].size = self.size

    def snapshot(self):
        extra = set(BUILD_STATUS_CACHE) - set(self.cache_keys)
        if extra:                                       # pragma: no cover
            raise AssertionError('unexpected cache keys %r' % (extra,))
        concrete = []
        abstract = []
        for key in self.cache_keys:
            items = tuple(BUILD_STATUS_CACHE[key]._dict.items())
            concrete.append(items)
            abstract.append(tuple(
                (COMMITS.index(commit), type(obj).__name__, obj.state)
                for commit, obj in items))
        abstract = tuple(abstract)
        if abstract not in self.concrete:
            self.concrete[abstract] = tuple(concrete)
        return abstract

    def restore(self, abstract):
        self.reset()
        for key, items in zip(self.cache_keys, self.concrete[abstract]):
            lru = BUILD_STATUS_CACHE[key]
            for commit, obj in items:
                lru.set(commit, obj)

    # -- real operations ----------------------------------------------------
    def execute(self, op):
        """Run one operation on the real code (cache and host as they are).
        Returns the answer of a poll, None for an event."""
        kind = op[0]
        try:
            if kind == 'poll':
                return self.repo.get_build_status(COMMITS[op[1]],
                                                  self.keys[op[2]])
            if kind == 'cs':
                webhook.handle_github_check_suite_event(self.bert_e, {
                    'action': 'completed',
                    'check_suite': {'id': 7, 'head_sha': COMMITS[op[1]],
                                    'head_branch': 'q/1',
                                    'status': 'completed',
                                    'conclusion': 'neutral'},
                    'repository': REPO_JSON})
                return None
            _, ci, ki, s = op
            if self.variant == 'bitbucket':
                webhook.handle_bitbucket_repo_event(
                    self.bert_e, 'commit_status_updated',
                    {'commit_status': self._bb_status(ci, ki, s)})
            else:
                webhook.handle_github_status_event(self.bert_e, {
                    'sha': COMMITS[ci], 'state': GH_WORD[s],
                    'context': self.keys[ki], 'description': 'build',
                    'target_url': 'http://ci/%s' % self.keys[ki],
                    'repository': REPO_JSON})
            return None
        except Exception as err:
            return 'EXC:%r' % (err,)

    def step(self, abstract, host, op):
        """Memoised real transition: (cache state, host, op) -> (cache state',
        answer).  The real code is executed once per distinct (abstract cache
        state, op, values of the host entries it actually read)."""
        entries = self.memo.get((abstract, op))
        if entries is not None:
            for reads, new_abs, answer in entries:
                for idx, val in reads:
                    if host[idx] != val:
                        break
                else:
                    return new_abs, answer
        self.restore(abstract)
        self.host = host
        self.reads = {}
        answer = self.execute(op)
        new_abs = self.snapshot()
        self.n_real += 1
        self.memo.setdefault((abstract, op), []).append(
            (tuple(self.reads.items()), new_abs, answer))
        return new_abs, answer

    def run_fresh(self, init, ops):
        """The sequence from scratch on the real code, no memo.
        -> list of answers (None for non polls)."""
        self.reset()
        host = [init] * 4
        answers = []
        for op in ops:
            op = tuple(op)
            if op[0] == 'host':
                host[op[1] * 2 + op[2]] = op[3]
                answers.append(None)
                continue
            self.host = tuple(host)
            self.reads = {}
            answers.append(self.execute(op))
        return answers

    def run_memo(self, init, ops):
        abstract = self.abs0
        host = (init,) * 4
        answers = []
        for op in ops:
            if op[0] == 'host':
                idx = op[1] * 2 + op[2]
                host = host[:idx] + (op[3],) + host[idx + 1:]
                answers.append(None)
                continue
            abstract, answer = self.step(abstract, host, op)
            answers.append(answer)
        return answers


_WORLDS = {}


def _world(variant, size):
    w = _WORLDS.get((variant, size))
    if w is None:
        w = _WORLDS[(variant, size)] = World(variant, size)
    return w


# ---- oracle: model written from the statement --------------------------------
class Reading:
    """One reading of the statement.

    primary (insert_on_miss=False, wide=False): an entry (commit, key) is used
    by a status event for (commit, key) or a poll of (commit, key); it exists
    once a status was learnt for it (event, or poll answered by a host that
    has a status); 'seen SUCCESSFUL' = event with SUCCESSFUL or poll of
    (commit, key) answered SUCCESSFUL.
    insert_on_miss: a poll that finds nothing at the host still creates (and
    uses) an entry.
    wide (github only): a poll of (commit, key) also learns / uses the status
    of the other key of that commit that the host returns with it."""

    def __init__(self, variant, size, insert_on_miss=False, wide=False):
        self.variant = variant
        self.size = size
        self.insert_on_miss = insert_on_miss
        self.wide = wide
        self.init = (0, ((), ()))

    def _touch(self, seen, lrus, ci, ki, insert):
        lru = lrus[ki]
        if ci in lru:
            if lru[-1] != ci:
                lru = tuple(x for x in lru if x != ci) + (ci,)
        elif insert:
            lru = lru + (ci,)
            while len(lru) > self.size:
                seen &= ~(1 << (lru[0] * 2 + ki))
                lru = lru[1:]
        else:
            return seen, lrus
        return seen, ((lru, lrus[1]) if ki == 0 else (lrus[0], lru))

    def apply(self, st, op, host, answer):
        """-> (state', expected) ; expected = (clause, answer) for a poll."""
        kind = op[0]
        if kind == 'host':
            return st, None
        seen, lrus = st
        if kind == 'ev':
            _, ci, ki, s = op
            seen, lrus = self._touch(seen, lrus, ci, ki, True)
            if s == 'S':
                seen |= 1 << (ci * 2 + ki)
            return (seen, lrus), None
        if kind == 'cs':
            ci = op[1]
            s = host[ci * 2 + 1]
            seen, lrus = self._touch(seen, lrus, ci, 1,
                                     s is not None or self.insert_on_miss)
            if s == 'S':
                seen |= 1 << (ci * 2 + 1)
            return (seen, lrus), None
        _, ci, ki = op
        bit = 1 << (ci * 2 + ki)
        s = host[ci * 2 + ki]
        if seen & bit and ci in lrus[ki]:
            expected = ('green_never_downgraded', 'SUCCESSFUL')
        else:
            expected = ('otherwise_answers_host', FULL[s])
        green = answer == 'SUCCESSFUL'
        seen, lrus = self._touch(seen, lrus, ci, ki, s is not None or
                                 self.insert_on_miss or green)
        if green:
            seen |= bit
        if self.wide and self.variant != 'bitbucket':
            ko = 1 - ki
            so = host[ci * 2 + ko]
            is_ga = self.variant == 'github_actions' and ko == 1
            if so is not None or (is_ga and self.insert_on_miss):
                seen, lrus = self._touch(seen, lrus, ci, ko, True)
                if so == 'S':
                    seen |= 1 << (ci * 2 + ko)
        return (seen, lrus), expected


READINGS = (('primary', False, False), ('insert_on_miss', True, False),
            ('wide', False, True), ('wide+insert_on_miss', True, True))


def judge_sequence(variant, size, init, ops, answers, reading=None):
    """Run the oracle over a whole sequence given the real answers.
    -> list of (index, clause, expected, got) for every poll."""
    rd = reading or Reading(variant, size)
    st = rd.init
    host = (init,) * 4
    out = []
    for i, (op, answer) in enumerate(zip(ops, answers)):
        if op[0] == 'host':
            idx = op[1] * 2 + op[2]
            host = host[:idx] + (op[3],) + host[idx + 1:]
            continue
        st, expected = rd.apply(st, op, host, answer)
        if expected is not None:
            out.append((i, expected[0], expected[1], answer))
    return out


def _final_verdict(variant, size, init, ops, answers, reading=None):
    i, clause, expected, got = judge_sequence(variant, size, init, ops,
                                              answers, reading)[-1]
    return clause, expected, got


def _fmt_op(op, keep_state=True):
    if op[0] == 'cs':
        return 'check_suite_event(c%d)' % (op[1] + 1)
    if op[0] == 'poll':
        return 'poll(c%d,k%d)' % (op[1] + 1, op[2] + 1)
    name = 'event' if op[0] == 'ev' else 'host_changes'
    s = op[3] if keep_state or op[3] == 'S' else 'X'
    return '%s(c%d,k%d,%s)' % (name, op[1] + 1, op[2] + 1, s)


def _rename(ops, variant):
    """Rename commits (and keys when they are interchangeable) by first
    appearance."""
    cmap, kmap = {}, {}
    sym_keys = variant != 'github_actions'
    out = []
    for op in ops:
        ci = cmap.setdefault(op[1], len(cmap))
        if op[0] == 'cs':
            out.append(('cs', ci))
            continue
        ki = kmap.setdefault(op[2], len(kmap)) if sym_keys else op[2]
        out.append((op[0], ci, ki) + tuple(op[3:]))
    return tuple(out)


def _b_case(variant, size, init, ops):
    return {'part': 'cache', 'variant': variant, 'lru_size': size,
            'host_initially': FULL[init] if init else 'no status',
            'keys': list(VARIANT_KEYS[variant]),
            'ops': [list(op) for op in ops],
            'readable': ' ; '.join(_fmt_op(op) for op in ops)}


def _minimise(world, init, ops, clause):
    """Greedy removal of operations keeping 'the last poll fails ``clause``'
    (memoised real execution)."""
    variant, size = world.variant, world.size

    def fails(seq):
        answers = world.run_memo(init, seq)
        c, e, g = _final_verdict(variant, size, init, seq, answers)
        return c == clause and e != g

    ops = list(ops)
    changed = True
    while changed:
        changed = False
        for i in range(len(ops) - 1):
            cand = ops[:i] + ops[i + 1:]
            if fails(cand):
                ops = cand
                changed = True
                break
    renamed = list(_rename(ops, variant))
    if fails(renamed):
        ops = renamed
    # an initial host state that plays no role is reported as 'no status'
    return tuple(ops)


def _b_signature(world, init, ops, clause):
    variant, size = world.variant, world.size
    answers = world.run_memo(init, ops)
    failing = []
    for name, iom, wide in READINGS:
        rd = Reading(variant, size, iom, wide)
        c, e, g = _final_verdict(variant, size, init, ops, answers, rd)
        if e != g:
            failing.append(name)
    tag = ('fails_under_all_4_readings' if len(failing) == len(READINGS)
           else 'fails_only_under:' + ','.join(failing))
    # structural skeleton: events and polls of the minimised scenario (what
    # the host says, initially or through host_changes, is in the example)
    skeleton = _rename([op for op in ops if op[0] != 'host'], variant)
    return 'cache:%s|%s|%s|%s' % (
        clause, variant,
        ' '.join(_fmt_op(op, keep_state=False) for op in skeleton), tag)


def _task_b(task):
    """('B', variant, size, init, states, max_len, first_op, seed)"""
    _, variant, size, init, states, max_len, first_op, seed = task
    world = _world(variant, size)
    real_before = world.n_real
    rd = Reading(variant, size)
    ops_all = _ops_for(variant, states)
    acc = _Acc()
    rng = random.Random(seed)
    validate = []          # reservoir of sequences to re-run without memo
    min_cache = {}
    step = world.step
    apply_model = rd.apply

    def on_poll(path, answers, expected, answer, depth):
        acc.cases += 1
        clause, want = expected
        touched = any(o[1] == path[-1][1] for o in path[:-1])
        if touched:
            acc.nontrivial += 1
        bad = want != answer
        acc.clause(clause, touched, bad)
        if bad:
            key = (init, tuple(path))
            ops_min = _minimise(world, init, path, clause)
            sig = min_cache.get(ops_min)
            if sig is None:
                sig = min_cache[ops_min] = _b_signature(world, init, ops_min,
                                                        clause)
            mans = world.run_memo(init, ops_min)
            c, e, g = _final_verdict(variant, size, init, ops_min, mans)
            acc.sig_sizes.setdefault(sig, set()).add(size)
            acc.fail(sig, len(ops_min), {
                'case': _b_case(variant, size, init, ops_min),
                'clause': clause, 'signature': sig, 'expected': e, 'got': g,
                'found_in': ' ; '.join(_fmt_op(o) for o in key[1])})
        else:
            if rng.random() < 0.0004:
                validate.append((tuple(path), tuple(answers)))
            if len(acc.samples) < 1 and depth >= 3 and touched and \
                    clause == 'green_never_downgraded':
                acc.samples.append({
                    'case': _b_case(variant, size, init, tuple(path)),
                    'clause': clause, 'expected': want, 'got': answer})

    def rec(depth, abstract, host, st, used, path, answers):
        last = depth == max_len - 1
        for op in ops_all:
            ci = op[1]
            if ci > used:
                continue            # commits are interchangeable
            kind = op[0]
            if last and kind != 'poll':
                continue
            if kind == 'host':
                idx = ci * 2 + op[2]
                if host[idx] == op[3]:
                    continue        # not a change
                if not last:
                    path.append(op)
                    answers.append(None)
                    rec(depth + 1, abstract,
                        host[:idx] + (op[3],) + host[idx + 1:], st,
                        max(used, ci + 1), path, answers)
                    path.pop()
                    answers.pop()
                continue
            new_abs, answer = step(abstract, host, op)
            new_st, expected = apply_model(st, op, host, answer)
            path.append(op)
            answers.append(answer)
            if expected is not None:
                on_poll(path, answers, expected, answer, depth)
            if not last:
                rec(depth + 1, new_abs, host, new_st, max(used, ci + 1),
                    path, answers)
            path.pop()
            answers.pop()

    # first operation fixed by the task
    op = first_op
    host = (init,) * 4
    if op[0] == 'host':
        idx = op[1] * 2 + op[2]
        if host[idx] != op[3] and max_len > 1:
            rec(1, world.abs0, host[:idx] + (op[3],) + host[idx + 1:],
                rd.init, op[1] + 1, [op], [None])
    else:
        new_abs, answer = step(world.abs0, host, op)
        new_st, expected = apply_model(rd.init, op, host, answer)
        if expected is not None:
            on_poll([op], [answer], expected, answer, 0)
        if max_len > 1:
            rec(1, new_abs, host, new_st, op[1] + 1, [op], [answer])

    # validation of the memoised exploration: from scratch, no memo
    mismatch = 0
    for path, answers in validate[:40]:
        if tuple(world.run_fresh(init, path)) != answers:
            mismatch += 1
    acc.extra['memo_validated'] = min(len(validate), 40)
    acc.extra['memo_mismatch'] = mismatch
    acc.extra['real_executions'] = world.n_real - real_before
    return acc.result()


def _tasks_b(tier, seed):
    tasks = []
    plan = []
    if tier == 'thorough':
        settings = [(5, 'SFI', (None, 'F', 'S', 'I'))]
    else:
        settings = [(4, 'SFI', (None, 'F', 'S')),
                    (5, 'SF', (None, 'F'))]
    n = 0
    for max_len, states, inits in settings:
        for variant in VARIANTS:
            for size in (1, 2):
                for init in inits:
                    for op in _ops_for(variant, states):
                        if op[1] != 0:
                            continue    # first commit mentioned is c1
                        n += 1
                        tasks.append(('B', variant, size, init, states,
                                      max_len, op, seed * 7919 + n))
        plan.append('sequences of <=%d operations (last one a poll) over '
                    'states {%s}, initial host status of all 4 (commit,key) '
                    'in %s' % (max_len, ','.join(states), [
                        FULL[i] if i else 'no status' for i in inits]))
    return tasks, plan


# ==========================================================================
# driver
# ==========================================================================
def _run_task(task):
    kind = task[0]
    if kind == 'B_chunk':
        return [_run_task(t) for t in task[1]]
    if kind == 'A':
        res = _task_a_enum(task)
        res['part'] = 'A3' if task[1] else 'A2'
    elif kind == 'A_rand':
        res = _task_a_rand(task)
        res['part'] = 'A3' if task[1] else 'A2'
    elif kind == 'A_schema':
        res = _task_a_schema(task)
        res['part'] = 'A_schema'
    else:
        res = _task_b(task)
        res['part'] = 'B'
    return res


def _task_weight(task):
    if task[0] == 'A':
        return len(SPACES[task[2]]) ** (task[3] - len(task[4]))
    if task[0] == 'A_rand':
        return task[4]
    if task[0] == 'A_schema':
        return task[2] * 40
    _, variant, size, init, states, max_len, op, _ = task
    return (len(_ops_for(variant, states)) // 2) ** (max_len - 1) * 3


def run(tier: str = 'quick', seed: int = 0, jobs: int = 16) -> dict:
    t0 = time.time()
    tasks_a, plan_a = _tasks_a(tier, seed)
    tasks_b, plan_b = _tasks_b(tier, seed)
    # B tasks of one (variant, size) share a per process memo of real
    # transitions (the expensive part): they are handed out as a few
    # contiguous chunks per world; the small A tasks fill the other workers.
    worlds = {}
    for t in tasks_b:
        worlds.setdefault((t[1], t[2]), []).append(t)
    chunks = []
    for ts in worlds.values():
        ts.sort(key=lambda t: (t[5], str(t[3])))
        pieces = 3 if jobs > 1 else 1
        for i in range(pieces):
            part = ts[i::pieces]
            if part:
                chunks.append(('B_chunk', part))
    tasks_a.sort(key=lambda t: -_task_weight(t))
    if jobs > 1:
        ctx = mp.get_context('fork')
        with ctx.Pool(jobs) as pool:
            rb = pool.map_async(_run_task, chunks, chunksize=1)
            results = list(pool.imap_unordered(_run_task, tasks_a,
                                               chunksize=4))
            for lst in rb.get():
                results.extend(lst)
    else:
        results = [_run_task(t) for t in tasks_a]
        for c in chunks:
            results.extend(_run_task(c))

    cases = {}
    nontrivial = 0
    sigs, infos, clauses, extra = {}, {}, {}, {}
    sig_sizes = {}
    samples = []
    for res in results:
        cases[res['part']] = cases.get(res['part'], 0) + res['cases']
        nontrivial += res['nontrivial']
        for sig, (count, size, failure) in res['sigs'].items():
            cur = sigs.get(sig)
            if cur is None:
                sigs[sig] = [count, size, failure]
            else:
                cur[0] += count
                if size < cur[1]:
                    cur[1], cur[2] = size, failure
        for key, (count, size, example) in res['infos'].items():
            cur = infos.get(key)
            if cur is None:
                infos[key] = [count, size, example]
            else:
                cur[0] += count
                if size < cur[1]:
                    cur[1], cur[2] = size, example
        for name, (a, b, c) in res['clauses'].items():
            cur = clauses.setdefault(name, [0, 0, 0])
            cur[0] += a
            cur[1] += b
            cur[2] += c
        for k, v in res['extra'].items():
            extra[k] = extra.get(k, 0) + v
        for k, v in res.get('sig_sizes', {}).items():
            sig_sizes.setdefault(k, set()).update(v)
        samples.extend(res['samples'])

    # every reported example is re-run from scratch on the real code
    ordered = sorted(sigs.items(), key=lambda kv: (kv[1][1], -kv[1][0],
                                                   kv[0]))
    failures = []
    unconfirmed = 0
    for sig, (count, size, failure) in ordered:
        rep = replay(failure['case'])
        failure = dict(failure, count=count,
                       replay_confirmed=(not rep['ok']))
        if sig in sig_sizes:
            failure['lru_sizes_with_this_failure'] = sorted(sig_sizes[sig])
        if rep['ok']:
            unconfirmed += 1
        if len(failures) < 50:
            failures.append(failure)
    n_failures = sum(v[0] for v in sigs.values())
    in_universe = sum(v[0] for s, v in sigs.items()
                      if not s.startswith('three_workflows:')
                      and not s.startswith('cache:'))
    three = sum(v[0] for s, v in sigs.items()
                if s.startswith('three_workflows:'))
    cache_f = sum(v[0] for s, v in sigs.items() if s.startswith('cache:'))

    picked, kinds = [], set()
    for s in samples:
        k = (s['case']['part'], s['case'].get('variant'),
             len(s['case'].get('runs', s['case'].get('ops'))))
        if k not in kinds:
            kinds.add(k)
            picked.append(s)
    picked = picked[:5]

    notes = [
        "PART A oracle: R' = runs with event != workflow_dispatch reduced to "
        "the best run per workflow id (success > none > failure > cancelled); "
        "SUCCESSFUL allowed only if some head branch has a non empty set of "
        "kept runs all concluded success; when two runs of a workflow are "
        "equally good the statement does not say which is kept: a failure is "
        "reported only if NO choice allows SUCCESSFUL",
        "PART A construction: each run dict is passed once through the real "
        "schema.WorkflowRun (as AggregatedWorkflowRuns.load does per element)"
        " then the real class is built with _validate=False; %d lists were "
        "also run through the full AggregatedWorkflowRuns.load path, "
        "state mismatches between both constructions: %d" % (
            extra.get('schema_path_cases', 0),
            extra.get('schema_vs_fast_mismatch', 0)),
        "PART A plan (universe, k, space, lists, kind): %s" % json.dumps(
            plan_a),
        "PART A spaces: %s" % json.dumps(
            {k: SPACE_DESC[k] for k in sorted(set(p[2] for p in plan_a))}),
        "PART A failures inside the stated universe (workflow ids {1,2}): %d"
        "; with 3 workflow ids ('three_workflows:' signatures): %d" % (
            in_universe, three),
        "PART A information (oracle would allow SUCCESSFUL, code answers "
        "otherwise; not failures): %s" % json.dumps(
            {k: {'count': v[0], 'example': v[2]['runs']}
             for k, v in sorted(infos.items())}, default=str),
        "PART B worlds: 'bitbucket' (2 build keys, handle_bitbucket_repo_"
        "event + bitbucket Repository.get_build_status), 'github' (2 status "
        "contexts, handle_github_status_event + github Repository."
        "get_build_status; the combined status lists every context the host "
        "has a status for), 'github_actions' (k1 = status context, k2 = "
        "'github_actions' fed by the workflow runs endpoint; its webhook is "
        "handle_github_check_suite_event, which carries no state and reads "
        "the host); LRU size of every key in {1,2}; the fake host is a "
        "requests transport adapter, all Client/Session/schema code is real",
        "PART B exploration: %s; commits are interchangeable, only sequences "
        "whose first mentioned commit is c1 are run; host_changes that do "
        "not change anything are skipped; every prefix ending with a poll is "
        "a case and only the last poll of a case is judged; the real code is "
        "executed once per distinct (real cache content, operation, host "
        "entries read) = %d real executions, other sequences reuse that real "
        "transition; %d random passing sequences were re-run from scratch "
        "without memo: %d mismatches; every failure example below was re-run "
        "from scratch (replay_confirmed), unconfirmed: %d" % (
            ' + '.join(plan_b), extra.get('real_executions', 0),
            extra.get('memo_validated', 0), extra.get('memo_mismatch', 0),
            unconfirmed),
        "PART B oracle readings: primary = Seen by event(SUCCESSFUL) or poll "
        "answered SUCCESSFUL for that (commit,key); own LRU per key touched "
        "by an event or a poll of that (commit,key), entry created when a "
        "status is learnt, eviction forgets Seen. Each failure is minimised "
        "(operations removed while the last poll still fails the clause) and "
        "re-judged under 3 other readings (insert_on_miss: a poll finding no "
        "status still creates an entry; wide: a github poll also sees/uses "
        "the other key returned with the commit); the signature says under "
        "which readings it fails",
        "PART B failures: %d sequences, %d signatures" % (
            cache_f, sum(1 for s in sigs if s.startswith('cache:'))),
        "distinct_nontrivial = part A lists for which the code answered "
        "SUCCESSFUL (implication not vacuous) + part B cases whose polled "
        "commit was touched by an earlier operation",
    ]
    total = sum(cases.values())
    return {
        'name': NAME,
        'scope': ('%s tier. aggregation: lists of 0..4 runs, workflow ids '
                  '{1,2}: %d lists, workflow ids {1,2,3}: %d lists, schema '
                  'path: %d lists (see notes for the exact plan); cache: %d '
                  'event/poll/host_changes sequences x 3 worlds x LRU sizes '
                  '{1,2} x initial host states' % (
                      tier, cases.get('A2', 0), cases.get('A3', 0),
                      cases.get('A_schema', 0), cases.get('B', 0))),
        'cases': total,
        'cases_by_part': cases,
        'distinct_nontrivial': nontrivial,
        'rule': ('state==SUCCESSFUL => exists head branch whose kept runs '
                 '(non dispatch, best per workflow) are all success, and runs '
                 'exist; poll(commit,key) == SUCCESSFUL if seen SUCCESSFUL '
                 'and still in the LRU, else == what the host reports now'),
        'notes': notes,
        'n_failures': n_failures,
        'n_failures_in_stated_universe_part_a': in_universe,
        'n_failures_three_workflows': three,
        'n_failures_cache': cache_f,
        'failures': failures,
        'failure_signatures': {sig: v[0] for sig, v in sorted(
            sigs.items(), key=lambda kv: (kv[1][1], -kv[1][0]))[:200]},
        'n_failure_signatures': len(sigs),
        'clause_counts': {k: {'checked': v[0], 'nonvacuous': v[1],
                              'failed': v[2]}
                          for k, v in sorted(clauses.items())},
        'samples': picked,
        'exhaustive': False,
        'exhaustive_detail': (
            'aggregation: exhaustive for k<=2 (both tiers) and k=3 '
            '(thorough); k=4 (and k=3 in quick) = all lists over the reduced '
            'space named in notes + seeded random sample of the full space. '
            'cache: exhaustive over the alphabet named in notes'),
        'wall_s': round(time.time() - t0, 2),
    }


def replay(case: dict) -> dict:
    if case.get('part', 'aggregation') == 'aggregation':
        runs = _a_runs_of(case)
        out = None
        for fn in (real_state_schema, real_state_fast):
            got, failure, info, _ = check_aggregation(runs, fn)
            if failure is not None:
                return {'ok': False, 'clause': failure[0],
                        'expected': failure[1], 'got': got}
            out = got
        no_run, some, every = oracle_aggregation(runs)
        return {'ok': True, 'clause': '+'.join(A_CLAUSES),
                'expected': ('SUCCESSFUL allowed' if some
                             else 'not SUCCESSFUL'), 'got': out}
    variant = case['variant']
    size = case.get('lru_size', 1)
    init = {'no status': None, None: None}.get(
        case.get('host_initially'), (case.get('host_initially') or ' ')[0])
    if init == ' ':
        init = None
    ops = [tuple(op) for op in case['ops']]
    world = World(variant, size)          # fresh, no memo
    answers = world.run_fresh(init, ops)
    verdicts = judge_sequence(variant, size, init, ops, answers)
    trace = [{'op': _fmt_op(ops[i]), 'clause': c, 'expected': e, 'got': g}
             for i, c, e, g in verdicts]
    for i, c, e, g in verdicts:
        if e != g:
            return {'ok': False, 'clause': c, 'expected': e, 'got': g,
                    'at': _fmt_op(ops[i]), 'trace': trace}
    last = verdicts[-1] if verdicts else (None, 'no poll', None, None)
    return {'ok': True, 'clause': last[1], 'expected': last[2],
            'got': last[3], 'trace': trace}


if __name__ == '__main__':
    _tier = sys.argv[1] if len(sys.argv) > 1 else 'quick'
    _seed = int(sys.argv[2]) if len(sys.argv) > 2 else 0
    print(json.dumps(run(_tier, _seed), indent=1, default=str,
                     ensure_ascii=True))
