"""Native witness (bounded, one scenario per mode) for known finding F10 / property C03:
queues on + skip_queue_when_not_needed, a pull request on development/4.3 forward-ported to
development/5.1, builds of the source tip and of w/5.1/... SUCCESSFUL, queue empty -> Bert-E merges
directly.  With octopus merges development/5.1 fast-forwards onto the built w/ commit; with
`no_octopus` the two consecutive 2-way merges leave it on NEW merge commits that no build ever saw.
Real Bert-E, upstream mock host, real git (harness/system.py); run in a child process."""
import json
import multiprocessing
import sys

for _p in ('/repo', '/verif'):
    if _p not in sys.path:
        sys.path.insert(0, _p)


def _scenario(no_octopus, q):
    try:
        from harness import system as hs
        opts = hs.bypass_all_but(['bypass_build_status'])
        w = hs.World(cascade=('4.3', '5.1'), use_queue=True, options=opts)
        try:
            extra = {'skip_queue_when_not_needed': True}
            if no_octopus:
                extra['options'] = opts + ['no_octopus']
            pr = w.create_pr('bugfix/TEST-0001', 'development/4.3')
            pid = pr if isinstance(pr, int) else getattr(pr, 'id', pr)
            first = w.evaluate_pr(pid, **extra)
            w.set_build(pid, 'SUCCESSFUL')
            r0 = w.remote_refs()
            before = {b: r0[b] for b in w.destination_branches(r0)}
            second = w.evaluate_pr(pid, **extra)
            r1 = w.remote_refs()
            after = {b: r1[b] for b in w.destination_branches(r1)}
            moved = {b: s for b, s in after.items() if before.get(b) != s}
            status = {b: w.build_status(s) for b, s in moved.items()}
            q.put({'no_octopus': bool(no_octopus), 'outcomes': [first, second], 'moved': moved, 'build_status_of_new_tips': status,
                   'ok': bool(moved) and all(v == 'SUCCESSFUL' for v in status.values())})
        finally:
            w.close()
    except BaseException as e:  # noqa
        import traceback
        q.put({'no_octopus': bool(no_octopus), 'error': '%s: %s' % (type(e).__name__, e), 'tb': traceback.format_exc()[-1500:]})


def one(no_octopus):
    ctx = multiprocessing.get_context('fork')
    q = ctx.Queue()
    p = ctx.Process(target=_scenario, args=(no_octopus, q))
    p.start()
    try:
        res = q.get(timeout=300)
    except Exception as e:  # noqa
        res = {'no_octopus': bool(no_octopus), 'error': 'no answer: %r' % (e,)}
    p.join(30)
    return res


def run(tier='quick', seed=0, jobs=1):
    res = [one(False), one(True)]
    return {'name': 'bounded/f10_direct_merge.py', 'scope': 'one direct-merge scenario (2 targets) x {octopus, no_octopus}',
            'cases': 2, 'distinct_nontrivial': 2, 'results': res}


def replay(case):
    return one(bool(case.get('no_octopus')))


if __name__ == '__main__':
    print(json.dumps(run(), indent=1))
