#!/verif/.venv/bin/python
"""Native fault-injection check of property C16 (no secret ever reaches a
log record, an exception message, the job status/details, stdout...) against
the REAL bert-e code in /repo.

Part A ('git commands'): a fake ``git`` executable (first in PATH) fails,
hangs or succeeds while printing the remote URL with credentials.  The real
``bert_e.lib.git.Repository`` / ``Branch`` / ``Commit`` methods are driven
through the real ``BertE.process_task`` / ``BertE.process``; the clone URL is
built by the real ``git_url`` of the github / bitbucket repository classes
and the mask is ``quote_plus(password)`` exactly as ``BertE.__init__`` does.

Part B ('github auth'): the real ``bert_e.git_host.github.Client`` (password
flow and GitHub-App flow with a throw-away RSA key) talks, through the real
``BertESession`` / requests / urllib3 stack, to a scripted HTTP server bound
on 127.0.0.1 (``base_url`` is a constructor parameter of the real client).

Usage:
  /verif/.venv/bin/python bounded/c16_leaks.py [quick|thorough] [seed] [jobs]
  /verif/.venv/bin/python bounded/c16_leaks.py --replay '<case json>'
"""
import sys
sys.path.insert(0, '/repo')

import contextlib
import http.server
import io
import json
import logging
import multiprocessing as mp
import os
import random
import shutil
import stat
import subprocess
import tempfile
import threading
import time
import traceback
from collections import deque
from queue import Queue
from types import SimpleNamespace
from urllib.parse import quote_plus

from bert_e import bert_e as berte_mod
from bert_e import job as job_mod
from bert_e.git_host import base as ghbase
from bert_e.git_host import bitbucket as bb_mod
from bert_e.git_host import github as gh_mod
from bert_e.lib import git as git_mod
from bert_e.lib import simplecmd
from bert_e.lib.settings_dict import SettingsDict

NAME = 'c16_leaks'
CLAUSES = ('log_records', 'exception_message', 'exception_chain', 'stdout',
           'job_details', 'return_value')
EXPECTED = 'no secret in sink'
MASK = '***'
LOGIN = 'robot@scality.com'
INSTALL_TOKEN = 'ghs_C16xINSTALLATIONxTOKENx0123456789abcdefXYZ'

# --------------------------------------------------------------------------
# Dimensions
# --------------------------------------------------------------------------
PASSWORDS_QUICK = [
    'hunter2plainSecret',            # plain: raw == quote_plus form
    'p@ss:w/rd?x=1&y#z',             # URL-special
    'pa$$ w\'o"r d;|&',              # shell-special
    'tick`id`$(id)back',             # backticks / command substitution
    '100%sure',                      # percent
    'a+b c',                         # plus and space
    'pässwörd✓',      # non-ASCII
]
PASSWORDS_THOROUGH = PASSWORDS_QUICK + [
    'fmt%s%(x)s%d{0}{x}',            # interacts with % / format expansion?
    'new\nline\ttab',                # control characters
    '~tilde~_under-.dot',            # unreserved chars (not %-escaped)
    "'; echo $HOME #",               # shell injection shaped
    '\\back\\slash\\',               # backslashes
    '****star***',                   # looks like the mask
    'x' * 120 + '!',                 # long
]
LEVELS = ('DEBUG', 'INFO')
FAULTS = ('fail', 'hang', 'ok')
HANG_TIMEOUT = 0.25
NORMAL_TIMEOUT = 30


def _b(name='development/1.0'):
    return lambda ctx: git_mod.Branch(ctx.repo, name)


def _mk_cache(ctx):
    os.makedirs(os.path.join(ctx.home, '.bert-e', 'bert-e.git'))


# name -> (trigger substring of the git argv, action(ctx), retry?, tier)
SHAPES = {
    'clone_mirror': ('clone --mirror', lambda c: c.repo.clone(), 0, 'q'),
    'clone_fetch': ('fetch --prune',
                    lambda c: (_mk_cache(c), c.repo.clone())[1], 0, 'q'),
    'clone_remote_add': ('remote add origin',
                         lambda c: c.repo.clone(), 0, 'q'),
    'clone_remote_update': ('remote update origin',
                            lambda c: c.repo.clone(), 0, 't'),
    'ls_remote': ('ls-remote --heads',
                  lambda c: c.repo.remote_branch_exists('development/1.0'),
                  0, 'q'),
    'ls_remote_commit': ('ls-remote --heads',
                         lambda c: c.repo.get_branches_from_commit(
                             'abcdef012345', refresh_cache=True), 0, 't'),
    'remote_branches': ('ls-remote --heads',
                        lambda c: list(c.repo.remote_branches), 0, 't'),
    'checkout': ('checkout',
                 lambda c: c.repo.checkout('development/1.0'), 0, 'q'),
    'push': ('push --set-upstream',
             lambda c: c.repo.push('w/1.0/feature/x'), 0, 'q'),
    'push_all': ('push --all --atomic',
                 lambda c: c.repo.push_all(prune=True), 0, 'q'),
    'config': ('config user.email',
               lambda c: c.repo.config('user.email', 'r@x.io'), 0, 't'),
    'cmd_clone_url_retry1': (
        'clone --mirror',
        lambda c: c.repo.cmd('git clone --mirror %s', c.url, retry=1,
                             timeout=c.timeout), 1, 'q'),
    'cmd_fetch_retry2': (
        'fetch --prune',
        lambda c: c.repo.cmd('git fetch --prune', retry=2,
                             timeout=c.timeout), 2, 'q'),
    'cmd_ls_remote_retry1_cwd': (
        'ls-remote',
        lambda c: c.repo.cmd('git ls-remote --heads %s', c.url, retry=1,
                             cwd=c.home, timeout=c.timeout), 1, 't'),
    'cmd_tag': ('tag', lambda c: c.repo.cmd('git tag'), 0, 't'),
    'cmd_push_tag': ('push origin',
                     lambda c: c.repo.cmd('git push origin %s' % '1.0.0'),
                     0, 'q'),
    'cmd_remote_v': ('remote -v', lambda c: c.repo.cmd('git remote -v'),
                     0, 'q'),
    'branch_merge': ('merge --no-edit',
                     lambda c: _b()(c).merge(_b('w/1.0/feature/x')(c),
                                             do_push=True), 0, 'q'),
    'branch_merge_checkout': ('checkout',
                              lambda c: _b()(c).merge(_b('feature/x')(c)),
                              0, 't'),
    'branch_merge_then_push': ('push --set-upstream',
                               lambda c: _b()(c).merge(
                                   _b('w/1.0/feature/x')(c), do_push=True),
                               0, 't'),
    'branch_create': ('checkout -b',
                      lambda c: _b('w/1.0/feature/x')(c).create(
                          _b('feature/x')(c)), 0, 'q'),
    'branch_create_push': ('push --set-upstream',
                           lambda c: _b('w/1.0/feature/x')(c).create(
                               'feature/x', do_push=True), 0, 't'),
    'branch_remove_push': ('push --set-upstream',
                           lambda c: _b('w/1.0/feature/x')(c).remove(
                               do_push=True), 0, 'q'),
    'branch_remove_local': ('branch -D',
                            lambda c: _b('w/1.0/feature/x')(c).remove(),
                            0, 't'),
    'branch_reset': ('reset --hard', lambda c: _b()(c).reset(), 0, 't'),
    'branch_rev_parse': ('rev-parse',
                         lambda c: _b()(c).get_latest_commit(), 0, 'q'),
    'branch_differs_bytes': ('diff',
                             lambda c: _b()(c).differs('feature/x'), 0, 'q'),
    'branch_includes_commit': ('merge-base',
                               lambda c: _b()(c).includes_commit('abc123'),
                               0, 't'),
    'branch_exists': ('checkout', lambda c: _b()(c).exists(), 0, 't'),
    'branch_commit_diff': ('log',
                           lambda c: list(_b()(c).get_commit_diff(
                               'feature/x')), 0, 't'),
    'commit_author_bytes': ('show',
                            lambda c: git_mod.Commit(c.repo, 'abc123').author,
                            0, 'q'),
    'commit_parents': ('cat-file',
                       lambda c: git_mod.Commit(c.repo, 'abc123').parents,
                       0, 't'),
}
BITBUCKET_SHAPES_QUICK = ('clone_mirror', 'ls_remote', 'push')

# Part B: per request scripted responses.  Each entry is a list of response
# specs consumed in order (the last one repeats).
_OKJSON = {'status': 200, 'body': '{"login": "robot", "id": 1}'}
_TOKEN_OK = {'status': 201, 'body': json.dumps(
    {'token': INSTALL_TOKEN, 'expires_at': '2030-01-01T00:00:00Z'})}


def _err(status, echo=False):
    return {'status': status, 'body': '{"message": "Bad credentials"}',
            'echo': echo}


PW_SCRIPTS = {
    'ok': [_OKJSON],
    '401': [_err(401)],
    '401_echo': [_err(401, echo=True)],
    '403': [_err(403)],
    '404': [_err(404)],
    '500x2': [_err(500), _err(500)],
    '500_then_ok': [_err(500), _OKJSON],
    '502_echo_x2': [_err(502, echo=True)],
    '429x2': [_err(429)],
    'drop': [{'drop': True}],
    'badjson': [{'status': 200, 'body': '<html>not json</html>',
                 'echo': True}],
}
PW_FLOWS = ('get_user', 'get_repository', 'post_comment', 'delete_put')
# App flow: script for the token endpoint, then script for the API call
APP_SCRIPTS = {
    'token_ok__api_ok': ([_TOKEN_OK], [_OKJSON]),
    'token_ok__api_401': ([_TOKEN_OK], [_err(401)]),
    'token_ok__api_401_echo': ([_TOKEN_OK], [_err(401, echo=True)]),
    'token_ok__api_500x2': ([_TOKEN_OK], [_err(500)]),
    'token_ok__api_drop': ([_TOKEN_OK], [{'drop': True}]),
    'token_401': ([_err(401)], [_OKJSON]),
    'token_401_echo': ([_err(401, echo=True)], [_OKJSON]),
    'token_404': ([_err(404)], [_OKJSON]),
    'token_500x2': ([_err(500)], [_OKJSON]),
    'token_500_then_ok': ([_err(500), _TOKEN_OK], [_OKJSON]),
    'token_drop': ([{'drop': True}], [_OKJSON]),
    'token_nokey': ([{'status': 201, 'body': '{"message": "?"}',
                      'echo': True}], [_OKJSON]),
    'token_badjson': ([{'status': 201, 'body': 'oops', 'echo': True}],
                      [_OKJSON]),
}
APP_FLOWS = ('construct_get_user', 'refresh_token')

# --------------------------------------------------------------------------
# Per-process scratch environment (fake git, HOME, TMPDIR)
# --------------------------------------------------------------------------
FAKE_GIT = r'''#!/bin/sh
# fake git for the C16 harness: FAKEGIT_ON (substring of argv that triggers
# the fault), FAKEGIT_MODE (fail|hang|ok), FAKEGIT_TEXT (what git prints)
args="$*"
case "$args" in
    *"$FAKEGIT_ON"*) ;;
    *) exit 0 ;;
esac
printf '%s\n' "$FAKEGIT_TEXT"
printf '%s\n' "argv: git $args"
printf '%s\n' "$FAKEGIT_TEXT" >&2
printf '%s\n' "argv: git $args" >&2
case "$FAKEGIT_MODE" in
    fail) exit 128 ;;
    hang) exec sleep 30 ;;
    *) exit 0 ;;
esac
'''

_ENV = {}


def _setup_env(root=None):
    """Create the per-process scratch area and point HOME/PATH/TMPDIR to it.
    Returns the dict describing it (idempotent per pid)."""
    if _ENV.get('pid') == os.getpid():
        return _ENV
    _ENV.clear()
    own_root = root is None
    saved_tempdir = tempfile.tempdir
    if own_root:
        root = tempfile.mkdtemp(prefix='c16_leaks_')
    base = os.path.join(root, 'p%d' % os.getpid())
    os.makedirs(os.path.join(base, 'bin'))
    os.makedirs(os.path.join(base, 'tmp'))
    os.makedirs(os.path.join(base, 'home'))
    fake = os.path.join(base, 'bin', 'git')
    with open(fake, 'w') as fobj:
        fobj.write(FAKE_GIT)
    os.chmod(fake, os.stat(fake).st_mode | stat.S_IXUSR | stat.S_IXGRP |
             stat.S_IXOTH)
    _ENV.update(pid=os.getpid(), root=root, own_root=own_root, base=base,
                saved_env={k: os.environ.get(k) for k in
                           ('HOME', 'PATH', 'TMPDIR', 'FAKEGIT_ON',
                            'FAKEGIT_MODE', 'FAKEGIT_TEXT')},
                saved_tempdir=saved_tempdir, n=0)
    os.environ['PATH'] = os.path.join(base, 'bin') + os.pathsep + \
        os.environ.get('PATH', '/usr/bin:/bin')
    os.environ['HOME'] = os.path.join(base, 'home')
    os.environ['TMPDIR'] = os.path.join(base, 'tmp')
    tempfile.tempdir = os.path.join(base, 'tmp')
    return _ENV


def _teardown_env():
    """Restore the process environment and delete the scratch area."""
    if _ENV.get('pid') != os.getpid():
        return
    _stop_server()
    for key, val in _ENV['saved_env'].items():
        if val is None:
            os.environ.pop(key, None)
        else:
            os.environ[key] = val
    tempfile.tempdir = _ENV['saved_tempdir']
    shutil.rmtree(_ENV['base'], ignore_errors=True)
    if _ENV['own_root']:
        shutil.rmtree(_ENV['root'], ignore_errors=True)
    _ENV.clear()


# --------------------------------------------------------------------------
# Sinks
# --------------------------------------------------------------------------
class _ListHandler(logging.Handler):
    """Captures what a real handler would print: the message and the
    formatted exception (with the __cause__/__context__ chain)."""

    def __init__(self):
        super().__init__(level=logging.NOTSET)
        self.items = []
        self._fmt = logging.Formatter()

    def emit(self, record):
        try:
            msg = record.getMessage()
        except Exception as err:  # pragma: no cover
            msg = 'UNFORMATTABLE %r %r (%r)' % (record.msg, record.args, err)
        where = '%s.%s:%s' % (record.name, record.funcName, record.levelname)
        self.items.append((where + ' message', msg))
        if record.exc_info:
            self.items.append((where + ' traceback(exc_info chain)',
                               self._fmt.formatException(record.exc_info)))
        if record.stack_info:
            self.items.append((where + ' stack_info',
                               self._fmt.formatStack(record.stack_info)))


class _Capture:
    """Log + python-level stdout/stderr + fd-level 1/2 capture; restores the
    logging configuration it touched."""

    def __init__(self, level):
        self.level = getattr(logging, level)
        self.handler = _ListHandler()
        self.out = {}

    def __enter__(self):
        root = logging.getLogger()
        self._root_level = root.level
        self._rlog = logging.getLogger(
            'requests.packages.urllib3.connectionpool')
        self._rlog_level = self._rlog.level
        self._disable = logging.root.manager.disable
        logging.disable(logging.NOTSET)
        root.addHandler(self.handler)
        root.setLevel(self.level)
        # fd level
        for stream in (sys.stdout, sys.stderr, sys.__stdout__,
                       sys.__stderr__):
            try:
                stream.flush()
            except Exception:
                pass
        self._files = {}
        self._saved_fd = {}
        for fd in (1, 2):
            try:
                tmp = tempfile.TemporaryFile()
                self._saved_fd[fd] = os.dup(fd)
                os.dup2(tmp.fileno(), fd)
                self._files[fd] = tmp
            except OSError:
                pass
        self._py_out, self._py_err = io.StringIO(), io.StringIO()
        self._stack = contextlib.ExitStack()
        self._stack.enter_context(contextlib.redirect_stdout(self._py_out))
        self._stack.enter_context(contextlib.redirect_stderr(self._py_err))
        return self

    def __exit__(self, *exc):
        self._stack.close()
        for fd, saved in self._saved_fd.items():
            os.dup2(saved, fd)
            os.close(saved)
        for fd, tmp in self._files.items():
            tmp.seek(0)
            self.out['fd%d' % fd] = tmp.read().decode('utf-8',
                                                      'backslashreplace')
            tmp.close()
        self.out['sys.stdout'] = self._py_out.getvalue()
        self.out['sys.stderr'] = self._py_err.getvalue()
        root = logging.getLogger()
        root.removeHandler(self.handler)
        root.setLevel(self._root_level)
        self._rlog.setLevel(self._rlog_level)
        logging.disable(self._disable)
        return False


def _exc_chain(exc):
    """[(depth, link, exception)] following __cause__ and __context__."""
    out, seen, todo = [], set(), [(0, 'top', exc)]
    while todo:
        depth, link, cur = todo.pop(0)
        if cur is None or id(cur) in seen:
            continue
        seen.add(id(cur))
        out.append((depth, link, cur))
        todo.append((depth + 1, '__cause__', cur.__cause__))
        todo.append((depth + 1, '__context__', cur.__context__))
    return out


def _flatten(value, depth=0):
    """Text rendering of a return value (str/bytes/containers/Commit)."""
    if depth > 4:
        return repr(value)
    if isinstance(value, bytes):
        return value.decode('utf-8', 'backslashreplace') + ' ' + repr(value)
    if isinstance(value, str):
        return value
    if isinstance(value, git_mod.Commit):
        return 'Commit(%s parents=%s author=%s)' % (
            _flatten(value.sha1, depth + 1),
            _flatten(value._parents, depth + 1),
            _flatten(value._author, depth + 1))
    if isinstance(value, dict):
        return '{%s}' % ', '.join('%s: %s' % (_flatten(k, depth + 1),
                                              _flatten(v, depth + 1))
                                  for k, v in value.items())
    if isinstance(value, (list, tuple, set, frozenset)):
        return '[%s]' % ', '.join(_flatten(v, depth + 1) for v in value)
    return repr(value)


def _excerpt(text, secret, all_secrets):
    idx = text.find(secret)
    start = max(0, idx - 110)
    if start:
        cut = text.find(' ', start, idx)
        start = cut + 1 if cut != -1 else start
    chunk = text[start: idx + len(secret) + 60]
    for sec in sorted(set(all_secrets), key=len, reverse=True):
        if sec:
            chunk = chunk.replace(sec, '<SECRET>')
    return chunk


def _escaped_variants(value):
    """The same secret as it shows up inside a repr() / JSON / bytes-repr
    rendering (sinks such as exc.__repr__, job.as_json(), '%s' % bytes)."""
    out = []
    back = value.replace('\\', '\\\\')
    for cand in (repr(value)[1:-1],
                 back.replace("'", "\\'"),
                 back.replace('"', '\\"'),
                 json.dumps(value)[1:-1],
                 json.dumps(value, ensure_ascii=False)[1:-1],
                 repr(value.encode('utf-8'))[2:-1],
                 repr(repr(value)[1:-1])[1:-1]):
        if cand != value and cand not in out:
            out.append(cand)
    return out


def _scan(sinks, secrets, path):
    """sinks: [(clause, where, text)], secrets: [(form, value)] (a form may
    have several values, e.g. several JWTs).
    Returns (n_checks per clause, failures, saw_mask)."""
    checks = {c: 0 for c in CLAUSES}
    fails = []
    saw_mask = False
    secrets = [(f, v) for f, v in secrets if v]
    secrets = secrets + [(f + ' [escaped rendering]', e)
                         for f, v in secrets for e in _escaped_variants(v)]
    values = [v for _, v in secrets]
    for clause, where, text in sinks:
        if text is None:
            continue
        if not isinstance(text, str):
            text = _flatten(text)
        checks[clause] += 1
        if MASK in text:
            saw_mask = True
        found = [(f, v) for f, v in secrets if v in text]
        # a longer form containing a shorter one: report the longest only
        keep = {}
        for form, val in found:
            if any(val in other and val != other for _, other in found):
                continue
            keep.setdefault(form, val)
        for form, val in keep.items():
            fails.append({
                'clause': clause,
                'signature': '%s | %s | path=%s | form=%s' % (
                    clause, where, path, form),
                'expected': EXPECTED,
                'got': _excerpt(text, val, values),
            })
    return checks, fails, saw_mask


# --------------------------------------------------------------------------
# Real BertE.process_task / process around an injected action
# --------------------------------------------------------------------------
class FaultInjectionJob(job_mod.Job):
    pass


class _HarnessBertE(berte_mod.BertE):
    """Real process_task/process/put_job/get_jobs_as_json; only dispatch is
    replaced by the injected action (the job handler)."""

    def dispatch(self, job, default=None):
        try:
            self._c16_value = self._c16_action()
            self._c16_returned = True
            return self._c16_value
        except BaseException as err:
            self._c16_exc = err
            raise


def _make_berte(git_repo, action):
    obj = berte_mod.BertE.__new__(_HarnessBertE)
    obj.settings = SettingsDict({'backtrace': False, 'quiet': False})
    obj.client = None
    obj.project_repo = SimpleNamespace(owner='scality', slug='bert-e',
                                       full_name='scality/bert-e')
    obj.git_repo = git_repo
    obj.tmpdir = getattr(git_repo, 'tmp_directory', None)
    obj.task_queue = Queue()
    obj.tasks_done = deque(maxlen=1000)
    obj.status = {}
    obj._c16_action = action
    obj._c16_exc = None
    obj._c16_value = None
    obj._c16_returned = False
    return obj


def _drive(level, git_repo, action, with_return=True):
    """Run action as a job through the real process_task and collect every
    sink.  Returns (sinks, exception or None, berte)."""
    sinks = []
    berte = _make_berte(git_repo, action)
    outer = None
    job = None
    with _Capture(level) as cap:
        try:
            job = FaultInjectionJob(bert_e=berte, settings={})
            berte.put_job(job)
            berte.process_task()
            sinks.append(('job_details', 'job.status', job.status))
            sinks.append(('job_details', 'job.details', job.details))
            sinks.append(('job_details', 'job.as_json()', job.as_json()))
            sinks.append(('job_details', 'BertE.get_jobs_as_json()',
                          berte.get_jobs_as_json()))
            sinks.append(('job_details', 'BertE.get_job_as_json(id)',
                          berte.get_job_as_json(str(job.id))))
        except BaseException as err:  # escaped process_task
            outer = err
    for where, text in cap.handler.items:
        sinks.append(('log_records', where, text))
    for where, text in cap.out.items():
        sinks.append(('stdout', where, text))
    excs = []
    if berte._c16_exc is not None:
        excs.append(('raised by the job', berte._c16_exc))
    if outer is not None and outer is not berte._c16_exc:
        excs.append(('escaped process_task', outer))
    for origin, exc in excs:
        for depth, link, cur in _exc_chain(exc):
            clause = 'exception_message' if depth == 0 else 'exception_chain'
            tname = type(cur).__name__
            who = tname if depth == 0 else '%s(%s)' % (tname, link)
            sinks.append((clause, who + '.__str__', str(cur)))
            sinks.append((clause, who + '.__repr__', repr(cur)))
            sinks.append((clause, who + '.args', _flatten(list(cur.args))))
        sinks.append(('exception_chain',
                      'traceback.format_exception(top) [what '
                      'LOG.exception prints]',
                      ''.join(traceback.format_exception(
                          type(exc), exc, exc.__traceback__))))
    if berte._c16_returned and with_return:
        sinks.append(('return_value', 'value returned to the job handler',
                      _flatten(berte._c16_value)))
    return sinks, (berte._c16_exc or outer), berte


# --------------------------------------------------------------------------
# Part A
# --------------------------------------------------------------------------
def _real_git_url(host, password):
    """The clone URL as the REAL git host classes build it."""
    if host == 'bitbucket':
        client = SimpleNamespace(auth=SimpleNamespace(username=LOGIN,
                                                      password=password))
        repo = bb_mod.Repository(client, owner='scality',
                                 repo_slug='bert-e')
        return repo.git_url
    client = SimpleNamespace(login=LOGIN, password=password)
    repo = gh_mod.Repository(client=client, _validate=False,
                             owner={'login': 'scality'}, name='bert-e')
    return repo.git_url


def _git_text(case, url, password):
    lines = ["fatal: unable to access '%s/': The requested URL returned "
             "error: 403" % url,
             "origin\t%s (fetch)" % url]
    if case.get('print') == 'decoded':
        lines.append("remote: Invalid username or password for '%s:%s'."
                     % (LOGIN, password))
    return '\n'.join(lines)


def _observed_path(exc, returned):
    if exc is None:
        return 'success' if returned else 'no_result'
    chain = [c for _, _, c in _exc_chain(exc)]
    if any(isinstance(c, subprocess.TimeoutExpired) for c in chain):
        return 'timeout'
    for cur in chain:
        if isinstance(cur, simplecmd.CommandError):
            if 'returned with code' in str(cur):
                return 'nonzero_exit'
            if 'timed out' in str(cur):
                return 'timeout'
            return 'command_error_other'
    return 'other:' + type(exc).__name__


def _run_case_a(case):
    env = _setup_env()
    password = case['password']
    quoted = quote_plus(password)
    url = _real_git_url(case.get('host', 'github'), password)
    trigger, action, retry, _ = SHAPES[case['shape']]
    env['n'] += 1
    home = os.path.join(env['base'], 'home', 'c%d' % env['n'])
    os.makedirs(home)
    saved_home = os.environ['HOME']
    saved_defaults = simplecmd.cmd.__defaults__
    saved_time = git_mod.time
    sleeps = []
    timeout = HANG_TIMEOUT if case['fault'] == 'hang' else NORMAL_TIMEOUT
    repo = None
    try:
        os.environ['HOME'] = home
        os.environ['FAKEGIT_ON'] = trigger
        os.environ['FAKEGIT_MODE'] = case['fault']
        os.environ['FAKEGIT_TEXT'] = _git_text(case, url, password)
        # same code object, only the default of the ``timeout`` parameter of
        # simplecmd.cmd is lowered (300 s otherwise)
        simplecmd.cmd.__defaults__ = (saved_defaults[0], saved_defaults[1],
                                      timeout)
        git_mod.time = SimpleNamespace(sleep=sleeps.append)
        # exactly as BertE.__init__
        repo = git_mod.Repository(url, mask_pwd=quote_plus(password))
        ctx = SimpleNamespace(repo=repo, url=url, home=home, timeout=timeout)
        sinks, exc, berte = _drive(case['level'], repo, lambda: action(ctx))
    finally:
        simplecmd.cmd.__defaults__ = saved_defaults
        git_mod.time = saved_time
        os.environ['HOME'] = saved_home
        for key in ('FAKEGIT_ON', 'FAKEGIT_MODE', 'FAKEGIT_TEXT'):
            os.environ.pop(key, None)
        if repo is not None and repo.tmp_directory:
            shutil.rmtree(repo.tmp_directory, ignore_errors=True)
        shutil.rmtree(home, ignore_errors=True)
    observed = _observed_path(exc, berte._c16_returned)
    if retry:
        observed += '+retry'
    if case.get('print') == 'decoded':
        observed += '[git echoes DECODED password]'
    if password == quoted:
        secrets = [('raw==quoted', password)]
    else:
        secrets = [('raw', password), ('quoted', quoted)]
    checks, fails, saw_mask = _scan(sinks, secrets, observed)
    return {
        'observed': observed,
        'exception': None if exc is None else type(exc).__name__,
        'chain': [type(c).__name__ for _, _, c in _exc_chain(exc)]
        if exc is not None else [],
        'checks': checks, 'fails': fails,
        'nontrivial': bool(saw_mask or fails),
        'n_log_records': sum(1 for s in sinks if s[0] == 'log_records'),
    }


# --------------------------------------------------------------------------
# Part B: scripted HTTP server + real github client
# --------------------------------------------------------------------------
_SERVER = {}


class _Handler(http.server.BaseHTTPRequestHandler):
    def _serve(self):
        length = int(self.headers.get('Content-Length') or 0)
        if length:
            self.rfile.read(length)
        parts = self.path.split('/', 3)      # '', 's', id, rest
        scen = _SERVER['scenarios'].get(parts[2] if len(parts) > 2 else '')
        rest = '/' + (parts[3] if len(parts) > 3 else '')
        auth = self.headers.get('Authorization', '')
        if scen is None:
            self.send_response(599)
            self.end_headers()
            return
        kind = 'token' if 'access_tokens' in rest else 'api'
        scen['seen'].append((self.command, rest, auth))
        queue = scen[kind]
        spec = queue.pop(0) if len(queue) > 1 else queue[0]
        if spec.get('drop'):
            self.close_connection = True
            try:
                self.connection.shutdown(2)
            except OSError:
                pass
            return
        body = spec.get('body', '')
        if spec.get('echo'):
            # a chatty server / proxy echoing the credentials it received
            try:
                doc = json.loads(body)
                doc['authorization_received'] = auth
                body = json.dumps(doc)
            except (ValueError, TypeError):
                body = '%s authorization_received=%s' % (body, auth)
        data = body.encode('utf-8')
        self.send_response(spec['status'])
        self.send_header('Content-Type', 'application/json')
        self.send_header('Content-Length', str(len(data)))
        if spec.get('echo'):
            self.send_header('X-Echo-Authorization',
                             auth.encode('utf-8').decode('latin-1'))
        self.end_headers()
        self.wfile.write(data)

    do_GET = do_POST = do_PUT = do_DELETE = do_PATCH = _serve

    def log_message(self, *args):
        pass


def _start_server():
    if _SERVER.get('pid') == os.getpid():
        return _SERVER
    _SERVER.clear()
    srv = http.server.ThreadingHTTPServer(('127.0.0.1', 0), _Handler)
    srv.daemon_threads = True
    thread = threading.Thread(target=srv.serve_forever, daemon=True,
                              kwargs={'poll_interval': 0.05})
    thread.start()
    _SERVER.update(pid=os.getpid(), srv=srv, thread=thread, scenarios={},
                   n=0)
    return _SERVER


def _stop_server():
    if _SERVER.get('pid') == os.getpid():
        _SERVER['srv'].shutdown()
        _SERVER['srv'].server_close()
    _SERVER.clear()


_PEM = {}


def _private_key_pem():
    """Throw-away RSA key generated offline, once per process."""
    if 'pem' not in _PEM:
        from cryptography.hazmat.primitives import serialization
        from cryptography.hazmat.primitives.asymmetric import rsa
        key = rsa.generate_private_key(public_exponent=65537, key_size=2048)
        _PEM['pem'] = key.private_bytes(
            serialization.Encoding.PEM,
            serialization.PrivateFormat.TraditionalOpenSSL,
            serialization.NoEncryption()).decode('ascii')
    return _PEM['pem']


_REPO_JSON = json.dumps({
    'name': 'bert-e', 'full_name': 'scality/bert-e', 'id': 1,
    'owner': {'login': 'scality', 'id': 2, 'type': 'Organization'},
    'private': True, 'default_branch': 'development/1.0',
    'clone_url': 'https://github.com/scality/bert-e.git',
    'git_url': 'git://github.com/scality/bert-e.git',
    'html_url': 'https://github.com/scality/bert-e',
    'description': 'x', 'url': 'https://api.github.com/repos/scality/bert-e',
})


def _pw_action(flow, base_url, password):
    def action():
        client = gh_mod.Client(LOGIN, password, 'robot@x.io',
                               base_url=base_url)
        client.headers          # property evaluated as the real code does
        if flow == 'get_user':
            return client.get('/user')
        if flow == 'get_repository':
            repo = client.get_repository('bert-e', owner='scality')
            return repo.full_name
        if flow == 'post_comment':
            return client.post('/repos/scality/bert-e/issues/1/comments',
                               data=json.dumps({'body': 'hello'}))
        client.delete('/repos/scality/bert-e/git/refs/heads/w/1')
        client.put('/repos/scality/bert-e/pulls/1/merge')
        return None
    return action


def _app_action(flow, base_url, password):
    def action():
        client = gh_mod.Client(LOGIN, password, 'robot@x.io', app_id=123456,
                               installation_id=7890123,
                               private_key=_private_key_pem(),
                               base_url=base_url)
        if flow == 'refresh_token':
            # what happens every 10 minutes: a new ttl_cache key
            client._get_installation_token(ttl_cache='c16-refresh')
            client.headers
        return client.get('/user')
    return action


def _run_case_b(case):
    _setup_env()
    srv = _start_server()
    password = case['password']
    srv['n'] += 1
    sid = 'k%d' % srv['n']
    if case['flow'].startswith('app:'):
        token_script, api_script = APP_SCRIPTS[case['script']]
    else:
        token_script, api_script = [_err(404)], PW_SCRIPTS[case['script']]
        if case['flow'] == 'pw:get_repository':
            api_script = [{'status': 200, 'body': _REPO_JSON}
                          if spec is _OKJSON else spec for spec in api_script]
    scen = {'token': [dict(s) for s in token_script],
            'api': [dict(s) for s in api_script], 'seen': []}
    srv['scenarios'][sid] = scen
    base_url = 'http://127.0.0.1:%d/s/%s' % (srv['srv'].server_port, sid)
    jwts = []
    real_get_jwt = gh_mod.Client._get_jwt

    def recording_get_jwt(self):
        value = real_get_jwt(self)
        jwts.append(value)
        return value

    sleeps = []
    saved_time = ghbase.time
    kind, flow = case['flow'].split(':', 1)
    action = (_app_action if kind == 'app' else _pw_action)(
        flow, base_url, password)
    git_repo = git_mod.Repository('')
    try:
        gh_mod.Client._get_jwt = recording_get_jwt
        ghbase.time = SimpleNamespace(sleep=sleeps.append)
        # API payloads handed back to the job handler are not a sink of
        # C16 (return_value is about the output of git commands)
        sinks, exc, berte = _drive(case['level'], git_repo, action,
                                   with_return=False)
    finally:
        gh_mod.Client._get_jwt = real_get_jwt
        ghbase.time = saved_time
        gh_mod.Client._get_installation_token.cache_clear()
        srv['scenarios'].pop(sid, None)
        if git_repo.tmp_directory:
            shutil.rmtree(git_repo.tmp_directory, ignore_errors=True)
    secrets = []
    quoted = quote_plus(password)
    if kind == 'pw':
        secrets.append(('auth_header(token <password>)',
                        'token ' + password))
    secrets.append(('password raw' if quoted != password
                    else 'password raw==quoted', password))
    if quoted != password:
        secrets.append(('password quoted', quoted))
    for value in dict.fromkeys(jwts):
        secrets.append(('jwt', value))
    if kind == 'app' and any(INSTALL_TOKEN in json.dumps(s)
                             for s in token_script):
        secrets.append(('installation_token', INSTALL_TOKEN))
    # structural path: flow kind + outcome (the script name stays in case)
    observed = '%s->%s' % (
        kind, 'ok' if exc is None else '<-'.join(
            dict.fromkeys(type(c).__name__ for _, _, c in _exc_chain(exc))))
    checks, fails, _ = _scan(sinks, secrets, observed)
    on_wire = any(sec and any(sec in auth for _, _, auth in scen['seen'])
                  for _, sec in secrets)
    return {
        'observed': observed,
        'exception': None if exc is None else type(exc).__name__,
        'chain': [type(c).__name__ for _, _, c in _exc_chain(exc)]
        if exc is not None else [],
        'requests_seen': [(m, p) for m, p, _ in scen['seen']],
        'n_jwt': len(jwts), 'naps': sleeps,
        'checks': checks, 'fails': fails,
        'nontrivial': bool(on_wire or jwts or fails),
    }


# --------------------------------------------------------------------------
# Driver
# --------------------------------------------------------------------------
def _run_case(case):
    try:
        if case['part'] == 'A':
            res = _run_case_a(case)
        else:
            res = _run_case_b(case)
    except BaseException as err:   # harness problem, reported as such
        res = {'observed': 'HARNESS_ERROR', 'checks': {c: 0 for c in CLAUSES},
               'nontrivial': False, 'exception': type(err).__name__,
               'fails': [{'clause': 'harness',
                          'signature': 'harness | %s' % type(err).__name__,
                          'expected': 'harness runs',
                          'got': ''.join(traceback.format_exception(
                              type(err), err, err.__traceback__))[-1500:]}]}
    res['case'] = case
    return res


def _pool_init(root):
    _setup_env(root)


def _cases(tier):
    thorough = tier == 'thorough'
    passwords = PASSWORDS_THOROUGH if thorough else PASSWORDS_QUICK
    out = []
    for pwd in passwords:
        for level in LEVELS:
            for shape, (_, _, _, shape_tier) in SHAPES.items():
                if shape_tier == 't' and not thorough:
                    continue
                hosts = ['github']
                if thorough or shape in BITBUCKET_SHAPES_QUICK:
                    hosts.append('bitbucket')
                for host in hosts:
                    for fault in FAULTS:
                        prints = ['url']
                        if thorough and host == 'github':
                            prints.append('decoded')
                        for prt in prints:
                            out.append({'part': 'A', 'password': pwd,
                                        'level': level, 'shape': shape,
                                        'host': host, 'fault': fault,
                                        'print': prt})
            for flow in PW_FLOWS:
                for script in PW_SCRIPTS:
                    if not thorough and flow != 'get_user' and script not in (
                            'ok', '401_echo', '404', '500x2', 'drop'):
                        continue
                    out.append({'part': 'B', 'password': pwd, 'level': level,
                                'flow': 'pw:' + flow, 'script': script})
            for flow in APP_FLOWS:
                for script in APP_SCRIPTS:
                    if not thorough and flow != 'construct_get_user' and \
                            script not in ('token_ok__api_ok', 'token_401'):
                        continue
                    out.append({'part': 'B', 'password': pwd, 'level': level,
                                'flow': 'app:' + flow, 'script': script})
    return out


def _case_cost(case, rank):
    return (len(case['password']), case['level'] != 'INFO',
            rank.get(json.dumps(case, sort_keys=True), 0))


def run(tier: str = 'quick', seed: int = 0, jobs: int = 16) -> dict:
    t0 = time.time()
    cases = _cases(tier)
    # slow (hang) cases first for load balancing
    order = sorted(range(len(cases)),
                   key=lambda i: (cases[i].get('fault') != 'hang', i))
    todo = [cases[i] for i in order]
    if jobs > 1:
        root = tempfile.mkdtemp(prefix='c16_leaks_')
        try:
            with mp.get_context('fork').Pool(jobs, initializer=_pool_init,
                                             initargs=(root,)) as pool:
                results = pool.map(_run_case, todo, chunksize=4)
        finally:
            shutil.rmtree(root, ignore_errors=True)
    else:
        try:
            results = [_run_case(c) for c in todo]
        finally:
            _teardown_env()

    rank = {json.dumps(c, sort_keys=True): i for i, c in enumerate(cases)}
    clause_counts = {c: {'sink_checks': 0, 'failed': 0} for c in CLAUSES}
    sigs = {}
    best = {}
    n_failures = 0
    nontrivial = 0
    observed = {}
    passing = []
    for res in results:
        nontrivial += bool(res['nontrivial'])
        key = '%s:%s' % (res['case']['part'], res['observed'].split('+')[0]
                         if res['case']['part'] == 'A'
                         else res['observed'].split('->')[-1])
        observed[key] = observed.get(key, 0) + 1
        for clause, num in res['checks'].items():
            clause_counts[clause]['sink_checks'] += num
        for fail in res['fails']:
            n_failures += 1
            clause_counts.setdefault(fail['clause'],
                                     {'sink_checks': 0, 'failed': 0})
            clause_counts[fail['clause']]['failed'] += 1
            sig = fail['signature']
            sigs[sig] = sigs.get(sig, 0) + 1
            entry = dict(fail, case=res['case'])
            cost = _case_cost(res['case'], rank)
            if sig not in best or cost < best[sig][0]:
                best[sig] = (cost, entry)
        if not res['fails'] and res['nontrivial']:
            passing.append(res)
    ordered_sigs = sorted(sigs, key=lambda s: (-sigs[s], s))
    failures = [best[s][1] for s in ordered_sigs][:50]
    rnd = random.Random(seed)
    samples = []
    seen_kinds = set()
    rnd.shuffle(passing)
    for res in passing:
        kind = (res['case']['part'], res['observed'].split('+')[0])
        if kind in seen_kinds:
            continue
        seen_kinds.add(kind)
        samples.append({'case': res['case'], 'observed': res['observed'],
                        'exception_chain': res.get('chain'),
                        'sink_checks': res['checks']})
        if len(samples) >= 5:
            break
    n_a = sum(1 for c in cases if c['part'] == 'A')
    notes = [
        "secret forms tracked - part A: password raw and quote_plus form "
        "(clone URL / mask); part B: 'token <password>' header value, "
        "password raw/quoted, every JWT returned by the real _get_jwt, the "
        "scripted installation token",
        "sinks: every root-logger record (getMessage + formatted exc_info "
        "incl. __cause__/__context__ chain), str/repr/args of the exception "
        "raised by the job and of every link of its chain (+ "
        "traceback.format_exception), sys.stdout/sys.stderr and fds 1/2, "
        "job.status/details/as_json/get_jobs_as_json after the REAL "
        "BertE.process_task + BertE.process (only dispatch is replaced by "
        "the injected action), value returned to the job handler",
        "timeout path reached through the real _do_cmd: only the default of "
        "simplecmd.cmd's timeout parameter is lowered (300 s -> %.2f s) or "
        "timeout= is passed through Repository.cmd (retry shapes); "
        "time.sleep(120) of the retry recursion and the 30/60 s naps of "
        "BertESession.request are replaced by recorders" % HANG_TIMEOUT,
        "fault 'ok' = git exits 0 while printing the URL (as `git remote "
        "-v` does): exercises the return_value clause",
        "print mode 'decoded' (thorough only): git/remote prints the "
        "URL-decoded password (not the %-escaped URL); only the quote_plus "
        "form is masked by the code, so the raw form goes through whenever "
        "raw != quoted - less realistic than the URL echo, reported under "
        "its own signatures (form=raw)",
        "part B uses the real requests/urllib3 stack against a scripted "
        "server on 127.0.0.1 ('echo' scripts: the server echoes the "
        "Authorization header it received in body and headers)",
        "pull-request comments: not a native sink here; statically no "
        "TemplateException is rendered from CommandError/GitException text "
        "(jobs/*.py and workflow/* only raise fixed messages `from err`)",
        "observed paths: %s" % json.dumps(observed, sort_keys=True),
        "nontrivial = the mask '***' or a secret reached at least one sink "
        "(part A) / a secret was sent on the wire or a JWT minted (part B)",
    ]
    return {
        'name': NAME,
        'scope': ('%s tier: part A %d cases = %d passwords x %s x %d command '
                  'shapes (github URL, + bitbucket URL for %s) x faults %s%s;'
                  ' part B %d cases = passwords x levels x (password flow %s '
                  'x scripts %s; app flow %s x scripts %s; in the quick tier only the '
                  'first flow of each kind gets every script)' % (
                      tier, n_a,
                      len(PASSWORDS_THOROUGH if tier == 'thorough'
                          else PASSWORDS_QUICK), list(LEVELS),
                      sum(1 for s in SHAPES.values()
                          if tier == 'thorough' or s[3] == 'q'),
                      'all shapes' if tier == 'thorough'
                      else list(BITBUCKET_SHAPES_QUICK), list(FAULTS),
                      ' x print {url, decoded}' if tier == 'thorough' else '',
                      len(cases) - n_a, list(PW_FLOWS), list(PW_SCRIPTS),
                      list(APP_FLOWS), list(APP_SCRIPTS))),
        'cases': len(cases),
        'distinct_nontrivial': nontrivial,
        'rule': ('for every sink text T and every secret form S of the '
                 'case: S not in T (substring test on the exact text a '
                 'consumer would print)'),
        'notes': notes,
        'n_failures': n_failures,
        'failures': failures,
        'failure_signatures': {s: sigs[s] for s in ordered_sigs},
        'clause_counts': clause_counts,
        'samples': samples,
        'exhaustive': True,
        'wall_s': round(time.time() - t0, 2),
    }


def replay(case: dict) -> dict:
    try:
        res = _run_case(dict(case))
    finally:
        _teardown_env()
    return {
        'ok': not res['fails'],
        'case': case,
        'observed': res['observed'],
        'exception': res.get('exception'),
        'exception_chain': res.get('chain'),
        'sink_checks': res['checks'],
        'n_failures': len(res['fails']),
        'failures': res['fails'][:20],
        'expected': EXPECTED,
    }


if __name__ == '__main__':
    argv = sys.argv[1:]
    if argv and argv[0] == '--replay':
        print(json.dumps(replay(json.loads(argv[1])), indent=1,
                         ensure_ascii=False))
    else:
        tier_ = argv[0] if argv else 'quick'
        seed_ = int(argv[1]) if len(argv) > 1 else 0
        jobs_ = int(argv[2]) if len(argv) > 2 else 16
        print(json.dumps(run(tier_, seed_, jobs_), indent=1,
                         ensure_ascii=False))
