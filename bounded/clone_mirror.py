"""Bounded stand-in (NOT a proof): the assumption of specs/gitmodel.py that the working clone made
by the REAL lib.git.Repository.clone() has exactly the remote's branches at the remote's tips -
including when the ~/.bert-e/<slug>.git mirror cache already exists and branches were deleted,
moved or created on the remote since.  A stale head in the clone is re-created on the remote by the
`git push --all --prune` of reset / merge / queue jobs (C08 foreign refs, C15 other PRs' branches).
Scope: 6 remote histories (delete / non-ff move / create / delete+recreate / nothing / all three) x
{cold cache, warm cache}; real git in a private HOME.
"""
import os
import shutil
import subprocess
import tempfile
import time


def _git(cwd, *args):
    return subprocess.run(['git'] + list(args), cwd=cwd, check=True, capture_output=True, text=True,
                          env=dict(os.environ, GIT_AUTHOR_NAME='t', GIT_AUTHOR_EMAIL='t@t', GIT_COMMITTER_NAME='t',
                                   GIT_COMMITTER_EMAIL='t@t')).stdout


def _heads(cwd):
    out = _git(cwd, 'for-each-ref', '--format=%(refname:short) %(objectname)', 'refs/heads')
    return dict(line.split() for line in out.splitlines())


SCENARIOS = {
    'nothing': [],
    'delete': [('delete', 'w/5.1/feature/x')],
    'move': [('move', 'w/10.0/feature/x')],
    'create': [('create', 'user/new')],
    'delete_recreate': [('delete', 'w/5.1/feature/x'), ('create', 'w/5.1/feature/x')],
    'all': [('delete', 'w/5.1/feature/x'), ('move', 'development/5.1'), ('create', 'q/5.1')],
}


def one(name, warm):
    from bert_e.lib import git as G
    root = tempfile.mkdtemp(prefix='clonemirror_')
    old_home = os.environ.get('HOME')
    os.environ['HOME'] = os.path.join(root, 'home')
    os.mkdir(os.environ['HOME'])
    try:
        remote = os.path.join(root, 'remote', 'repo.git')
        os.makedirs(remote)
        _git(remote, 'init', '--bare', '-q', '-b', 'development/4.3')
        work = os.path.join(root, 'work')
        os.mkdir(work)
        _git(work, 'init', '-q', '-b', 'development/4.3')
        open(os.path.join(work, 'a'), 'w').write('a')
        _git(work, 'add', 'a')
        _git(work, 'commit', '-qm', 'init')
        for b in ('development/5.1', 'development/10.0', 'w/5.1/feature/x', 'w/10.0/feature/x', 'feature/x'):
            _git(work, 'branch', b)
        _git(work, 'remote', 'add', 'origin', remote)
        _git(work, 'push', '-q', '--all', 'origin')
        if warm:
            r0 = G.Repository(remote)
            r0.clone()
            r0.delete()
        for op, b in SCENARIOS[name]:
            if op == 'delete':
                _git(work, 'push', '-q', 'origin', ':' + b)
            elif op == 'move':
                _git(work, 'checkout', '-q', '--orphan', 'tmp_' + b.replace('/', '_'))
                open(os.path.join(work, 'b'), 'w').write(b)
                _git(work, 'add', 'b')
                _git(work, 'commit', '-qm', 'moved ' + b)
                _git(work, 'push', '-q', '--force', 'origin', 'HEAD:refs/heads/' + b)
            elif op == 'create':
                _git(work, 'push', '-q', 'origin', 'development/4.3:refs/heads/' + b)
        r = G.Repository(remote)
        r.clone()
        local = _heads(r.cmd_directory)
        rem = _heads(remote)
        r.delete()
        ok = local == rem
        return {'ok': ok, 'scenario': name, 'warm_cache': warm,
                'stale_in_clone': sorted(set(local) - set(rem)), 'missing_in_clone': sorted(set(rem) - set(local)),
                'different_tip': sorted(b for b in set(local) & set(rem) if local[b] != rem[b])}
    finally:
        if old_home is None:
            os.environ.pop('HOME', None)
        else:
            os.environ['HOME'] = old_home
        shutil.rmtree(root, ignore_errors=True)


def run(tier='quick', seed=0, jobs=1):
    t0 = time.time()
    res = [one(n, w) for n in SCENARIOS for w in (False, True)]
    bad = [r for r in res if not r['ok']]
    return {'name': 'bounded/clone_mirror.py', 'scope': __doc__.split('Scope:')[1].strip(), 'cases': len(res),
            'distinct_nontrivial': sum(1 for r in res if r['warm_cache'] and r['scenario'] != 'nothing'),
            'n_failures': len(bad), 'failures': bad,
            'failure_signatures': sorted({'clone_differs_from_remote:%s:%s' % (r['scenario'], 'warm' if r['warm_cache'] else 'cold')
                                          for r in bad}), 'wall_s': round(time.time() - t0, 2)}


def replay(case):
    return one(case['scenario'], case['warm_cache'])


def integrate(rep):
    from pyvc.cli import write_replay
    res = run()
    rep.bounded.append({k: res.get(k) for k in ('name', 'scope', 'cases', 'distinct_nontrivial', 'n_failures',
                                                'failure_signatures', 'wall_s')})
    for f in res['failures'][:3]:
        k = 'bounded:clone_mirror:%s:%s' % (f['scenario'], 'warm' if f['warm_cache'] else 'cold')
        path = write_replay(rep.pid, k, {'case': {'scenario': f['scenario'], 'warm_cache': f['warm_cache']},
                                         'clause': 'clone_mirror', 'result': f})
        rep.violations.append({'key': k, 'what': 'the working clone differs from the remote (stale %s, missing %s, '
                               'moved %s): pruning pushes then write branches of other pull requests'
                               % (f['stale_in_clone'], f['missing_in_clone'], f['different_tip']),
                               'replay': path, 'input': f, 'noinput': False})


if __name__ == '__main__':
    import json
    print(json.dumps(run(), indent=1))
